"""C35 - Account policy resolution is order-independent and strictest."""
import json
from kv import lib

PID = "C35"
META = {
    "level": "model_checking",
    "text": "TLC checks the transcription of the policy fold (entry defaults, per-field min/max, attestation-CA list "
            "intersection, single-factor length rule) against the property (same result under every permutation, at least as "
            "strict as every group policy, CA trust only where all lists trust) on every sequence of at most N policies, over the "
            "replayed policy list and over a full product of small value domains; the same multisets, in every distinct order, are "
            "folded by the real ResolvedAccountPolicy::fold_from from real group entries and every real result is judged by the "
            "TLA+ property.",
    "note": "exhaustive within the stated policy list (12 policies, multisets <=3 quick / <=4 thorough) and product domains "
            "(sequences <=2 quick, <=3 thorough); beyond that seeded random multisets (<=5) with boundary values; trusted: TLC, the "
            "in-lib accessor that calls fold_from on entries read back from a real server, the projection of CA lists to "
            "(CA name -> device ids); auth-session expiry u32::MAX is logged as 2000000000 (TLC integers are 32 bit)",
    "design_ref": "DESIGN.md section 6, C35",
    "technique": "TLA+ operator spec (KAuthPolicy) exhaustively model-checked by TLC; exhaustive replay of the multiset space through the real fold, validated by a TLC trace spec",
}

NOCA = {"has": 0, "l": {}}


def ca(**kw):
    return {"has": 1, "l": {k: v for k, v in kw.items()}}


POLICIES = [
    {"pe": -1, "se": -1, "ml": -1, "ct": -1, "ca": NOCA},
    {"pe": 600, "se": 3600, "ml": 12, "ct": 0, "ca": ca(A=["*"])},
    {"pe": 5000, "se": 86400, "ml": 20, "ct": 10, "ca": ca(A=["g1", "g2"], B=["g3"])},
    {"pe": 600, "se": -1, "ml": -1, "ct": 20, "ca": ca(A=["g2"], B=["*"])},
    {"pe": -1, "se": 3600, "ml": 20, "ct": -1, "ca": ca(B=["g4"])},
    {"pe": 5000, "se": -1, "ml": 12, "ct": 10, "ca": NOCA},
    {"pe": -1, "se": 86400, "ml": -1, "ct": 0, "ca": ca(A=["g1", "g2"], B=["g3"], C=["*"])},
    {"pe": 3600, "se": 86400, "ml": 20, "ct": 20, "ca": NOCA},
    {"pe": -1, "se": -1, "ml": 14, "ct": 10, "ca": ca(C=["g1"])},
    {"pe": 5000, "se": 3600, "ml": -1, "ct": -1, "ca": ca(A=["g2"], B=["*"])},
    {"pe": 0, "se": 1, "ml": 16, "ct": 0, "ca": NOCA},
    {"pe": 3601, "se": 1999999999, "ml": 15, "ct": 30, "ca": ca(B=["g3", "g4"], C=["g1", "g2"])},
]


def run(tier, replay):
    R = lib.Result(PID, tier, META["level"])
    wd = lib.workdir(PID)
    lib.build("auth")
    quick = tier == "quick"
    pols = f"{wd}/pols.ndjson"
    with open(pols, "w") as f:
        for p in POLICIES:
            f.write(json.dumps(p) + "\n")
    n = 3 if quick else 4
    # (1) exhaustive in the model: L2 (fold transcription) against L1
    states = trans = 0
    runs = [("KAuthPolicyMC" if quick else "KAuthPolicyMC4", "policy list"),
            ("KAuthPolicyMCProd" if quick else "KAuthPolicyMCProdT", "product domain")]
    if not quick:
        runs.append(("KAuthPolicyMCProd3", "product domain, sequences of 3"))
    mcinfo = {}
    for cfg, what in runs:
        mc = lib.tlc("KAuthPolicyMC", cfg=cfg, pid=PID, workers=4 if quick else 8, timeout=1500, env={"POLS": pols})
        lib.tlc_must_pass(mc, f"{cfg}: fold transcription vs property ({what})")
        states += mc["distinct"]; trans += mc["generated"]; mcinfo[cfg] = mc["distinct"]
    # vacuity guards: the single-factor bump and the empty-intersection arm are reachable
    for cfg in ("KAuthPolicyMCReach1", "KAuthPolicyMCReach2"):
        g = lib.tlc("KAuthPolicyMC", cfg=cfg, pid=PID, workers=2, timeout=300, env={"POLS": pols})
        if not g["violated"]:
            lib.tool_error(f"vacuity guard {cfg}: arm not reachable in the model (log {g['log']})")
    # (2) the same multisets through the REAL fold, judged by L1 in TLC
    obs = f"{wd}/obs.ndjson"
    if replay:
        lib.kverif("auth", ["c35", "--out", obs, "--replay", replay])
    else:
        lib.kverif("auth", ["c35", "--out", obs, "--pols", pols, "--n", n, "--random", 300 if quick else 3000,
                            "--seed", lib.seed()])
    tv = lib.trace_validate("KAuthPolicyTrace", obs, PID, timeout=1500)
    lines = lib.read_lines(obs)
    for t in tv["l1fail"]:
        ln, kind = t[2], t[3]
        rec = json.loads(lines[ln - 1])
        ins = json.dumps(rec["in"], sort_keys=True)
        R.violation(f"fold {kind} in={ins}",
                    f"real fold_from violates '{kind}' for group policies {ins}: results per order {json.dumps(rec['outs'])[:600]}",
                    [lines[ln - 1]])
    folds = sum(len(json.loads(l)["outs"]) for l in lines)
    nonperm = sum(1 for l in lines if len(json.loads(l)["outs"]) > 1)
    R.coverage = {
        "states": states, "transitions": trans, "mc_states_per_config": mcinfo,
        "traces_validated_against_impl": len(lines),
        "real_fold_evaluations": folds, "multisets_with_several_orders": nonperm,
        "samples": lib.sample(lines),
        "exhaustive": not replay,
        "l2_drift": len(tv["drift"]),
        "policy_list_size": len(POLICIES), "max_multiset": n,
        "rule": "every multiset of at most N policies from the list, in every distinct order, is folded in the model (L2 vs L1) and by "
                "the real fold_from; each real result is judged by the TLA+ property; random multisets extend the value domains",
        "model_only": ["product-domain configurations (KAuthPolicyMCProd*) are not replayed value by value"],
    }
    R.assumptions = ["group policies reach fold_from only through From<&Entry> (absent attribute = default), as load_account_policy does",
                     "device descriptions inside CA lists are not part of the compared result (intersection keeps the left one)",
                     "auth-session expiry values above 2000000000 are clamped in the projection"]
    R.finish()
