"""C18 - Dynamic groups contain exactly the matching entries."""
import json
from kv import lib
from kv import dirsrv_common as dc

PID = "C18"
META = {
    "level": "model_checking",
    "text": "TLC explores a transcription of kanidm's dyngroup plugin (incremental pre/post evaluation of cached filters on the "
            "non-dyngroup entries of an operation; re-evaluation by internal search when the dynamic group itself is created or "
            "modified; delete through refint; revive through the modify path and the membership restore) against 'dynmember = the "
            "live entries matching the filter'; model counterexamples and sampled behaviours are replayed on a real server, and "
            "seeded random histories (candidates and dynamic groups created, edited, renamed, deleted, revived; random and/or/not "
            "filters over name, description, class, displayname; filter changes) are recorded. After every commit every live "
            "dynamic group's dynmember is compared with the TLA+ reference semantics of its filter evaluated on the projected "
            "attributes of the candidates.",
    "note": "L1 is stated on dynmember (the property's observation point) over the model-range candidate population; built-in "
            "dynamic groups are judged on the same candidates; generated filters keep AndNot inside an And with a positive term "
            "(top-level negation is the filter group's C01/C41 territory); model bound 3 candidates + 2 dynamic groups, 3 filters, "
            "4 (quick) / 6 (thorough) edits",
    "design_ref": "DESIGN.md section 6, C18",
    "technique": "TLA+ transcription of the dyngroup plugin model-checked by TLC; replay of model histories and trace validation of random histories on the real server, filter semantics evaluated in TLA+",
}


def run(tier, replay):
    R = lib.Result(PID, tier, META["level"])
    wd = lib.workdir(PID)
    lib.build(dc.GROUP)
    quick = tier == "quick"
    res, cex, beh = dc.mc("KDynGroupMC", "KDynGroupMC" if quick else "KDynGroupMCt", PID, 1, 3000, kinds=(1, 2, 3, 4, 5, 6, 7))
    parts = []
    replayed = 0
    if replay:
        parts.append(dc.hist_replay(f"{wd}/replay-obs.ndjson", replay))
    else:
        hs = [dc.triples(t) for t in cex[:: max(1, len(cex) // (80 if quick else 800))]] + \
             [dc.triples(t) for t in beh[:: max(1, len(beh) // (40 if quick else 400))]]
        replayed = len(hs)
        dc.write_replay(f"{wd}/model-histories.ndjson", [dc.ops_c18(h) for h in hs])
        parts.append(dc.hist_replay(f"{wd}/obs-model.ndjson", f"{wd}/model-histories.ndjson"))
        parts.append(dc.hist(PID, f"{wd}/obs-hist.ndjson", "C18", 8 if quick else 60, 50 if quick else 200))
        parts.append(dc.hist(PID, f"{wd}/obs-mixed.ndjson", "mixed", 3 if quick else 20, 50 if quick else 150, seed_off=1))
    obs = dc.concat(f"{wd}/obs.ndjson", parts)
    tv, lines = dc.validate_sharded("KDynGroupTrace", obs, PID, wd, shard=6000, timeout=2400)
    cnt = dc.judge(R, PID, tv, lines, "dynmember of a live dynamic group differs from the live entries matching its filter")
    filters = set()
    dyn_states = 0
    for l in lines:
        r = json.loads(l)
        for e in r["st"]["e"].values():
            if e["k"] == "dyn" and e["lv"] == "live":
                dyn_states += 1
                filters.add(json.dumps(e["f"], sort_keys=True))
    R.coverage = {
        "states": res["distinct"], "transitions": res["generated"],
        "model_counterexamples": len(cex), "model_behaviours_sampled": len(beh), "model_histories_replayed": replayed,
        "traces_validated_against_impl": sum(1 for l in lines if '"a":"reset"' in l),
        "observed_states_judged": len(lines),
        "dyngroup_states_judged": dyn_states, "distinct_filters": len(filters),
        "samples": dc.samples(lines),
        "l2_drift": len(tv["drift"]), "l2_drift_first": tv["drift"][:3],
        "l1": cnt, "ops": dc.op_counts(lines),
        "rule": "every observed state, every live dynamic group d with a filter in the modelled fragment: dynmember(d) restricted to the "
                "model candidates = {e live : Match(filter(d), attributes(e))} (TLA+ KDynGroup!Match)",
    }
    R.assumptions = ["internal identity; single server",
                     "the static `member` value that revive writes into a dynamic group (recycled_directmemberof restore) is outside "
                     "L1 (the property's observation point is dynmember); it is reported in notes/dirsrv.md"]
    R.finish()
