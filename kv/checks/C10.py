"""C10 - Replication range comparison decides supply, refresh or refusal correctly."""
import json
from kv import lib

PID = "C10"
META = {
    "level": "model_checking",
    "text": "TLC checks the transcription of range_diff (L2) against the property's decision table (L1) on every ordered pair of "
            "window maps in the bounded space; the same space plus seeded random larger maps is run through the real "
            "ReplicationUpdateVector::range_diff and every real answer is judged by the TLA+ decision table.",
    "note": "design level: proved by TLAPS for window maps of any size over any naturals (KRangeProof, C10Unbounded); "
            "implementation level: exhaustive within 2 servers x time 0..3 and 3 servers x 0..1 (quick) / 0..2 (thorough); beyond that sampled; "
            "trusted: TLC, the H1 accessor that converts maps, whole-second timestamps",
    "design_ref": "DESIGN.md section 6, C10",
    "technique": "TLA+ operator spec (KRange) exhaustively model-checked by TLC and proved unboundedly by TLAPS; exhaustive replay of the input space through the real function, validated by TLC trace spec",
}

def run(tier, replay):
    R = lib.Result(PID, tier, "model_checking")
    wd = lib.workdir(PID)
    lib.build("repl")
    # (1) exhaustive: transcription (L2) against the decision table (L1), in the model
    cfgs = ["KRangeMC"] if tier == "quick" else ["KRangeMC", "KRangeMC3"]
    states = trans = 0
    for cfg in cfgs:
        mc = lib.tlc("KRangeMC", cfg=cfg, pid=PID, workers=8, timeout=1500)
        lib.tlc_must_pass(mc, f"{cfg}: L2 transcription vs L1 decision table")
        states += mc["distinct"]; trans += mc["generated"]
    # (1b) unbounded: the same statement for window maps over ANY set of servers and ANY natural timestamps, proved by
    # TLAPS from the same KRange module (KRangeProof.tla)
    proof = lib.tlapm_prove("KRangeProof", ["KRange"], PID, "C10Unbounded: \\A c, s : WF(c) /\\ WF(s) => L2MeetsL1(c, s)")
    # (2) the same input spaces through the REAL range_diff, judged by L1 in TLC
    obs = f"{wd}/obs.ndjson"
    if replay:
        obs = replay_file(replay, wd)
    else:
        spaces = "2:3,3:1" if tier == "quick" else "2:3,3:2"
        lib.kverif("repl", ["c10", "--out", obs, "--spaces", spaces, "--random", 2000 if tier == "quick" else 20000])
    tv = lib.trace_validate("KRangeTrace", obs, PID, timeout=1500)
    lines = lib.read_lines(obs)
    for t in tv["l1fail"]:
        ln = t[2]
        rec = json.loads(lines[ln - 1])
        R.violation(f"range_diff status={rec['res']} c={json.dumps(rec['c'],sort_keys=True)} s={json.dumps(rec['s'],sort_keys=True)}",
                    f"real range_diff answered {rec['res']} / supplied {rec['ok']} for consumer {rec['c']} supplier {rec['s']}; decision table disagrees",
                    [lines[ln - 1]])
    statuses = {}
    for l in lines:
        s = json.loads(l)["res"]; statuses[s] = statuses.get(s, 0) + 1
    R.coverage = {
        "states": states, "transitions": trans,
        "traces_validated_against_impl": len(lines),
        "samples": lib.sample(lines),
        "exhaustive": True,
        "unbounded_proof": proof,
        "l2_drift": len(tv["drift"]),
        "observed_status_counts": statuses,
        "trace_states": tv["distinct"],
        "rule": "every ordered pair of window maps over the stated (servers:time) spaces is evaluated in the model (L2 vs L1) "
                "and through the real ReplicationUpdateVector::range_diff; each real result is judged by the TLA+ decision table",
    }
    R.assumptions = ["timestamps are whole seconds in the replayed space; server ids map s1..sN to fixed uuids"]
    R.finish()

def replay_file(path, wd):
    # a replay file holds observed lines; re-observe the same inputs on the current tree
    import subprocess
    out = f"{wd}/replay-obs.ndjson"
    lib.kverif("repl", ["c10", "--out", out, "--replay", path])
    return out
