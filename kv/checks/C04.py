"""C04 - Failed or abandoned write transactions leave no trace."""
import json
from kv import lib
from kv.checks import txn_common

PID = "C04"
META = {
    "level": "fault_enumeration",
    "text": "For each representative write transaction (entry create / modify / delete, schema attribute creation, access "
            "profile creation, OAuth2 client creation, domain display-name change) a dry run of the H2 injector counts the "
            "SQLite write / COMMIT points it passes; then every point (every k-th plus all first/last occurrences for "
            "transactions with more than 150 points) is made to fail in turn on a fresh copy of a file-backed server, "
            "and the state is observed before, after through a fresh read transaction, and on a server reopened on the "
            "same file; also drop-without-commit at every operation boundary and a failing operation. TLC judges each "
            "observation with L1 NoTrace; the ordered commit-step model (KTxn section B, model-checked) predicts exactly "
            "which failures leave memory ahead of disk.",
    "note": "fault enumeration, not a proof: one error class (the storage call returns SqliteError before executing) at "
            "the enumerated points of the representative transactions; key material has no probe; trusted: TLC, the H2 "
            "injector, SQLite rollback. Two genuine defects found by this check (publication before storage in the query-server "
            "and IDM commits) were repaired in /repo commit 04f0132 and are listed under `fixed`; the model follows the "
            "commit order the tree under test actually has (read off the H3 pause points).",
    "design_ref": "DESIGN.md section 6, C04",
    "technique": "storage-fault enumeration through hook H2 on the real server, each observation judged by a TLC trace spec; "
                 "commit-order model checked by TLC predicts the failing set",
}

MEM_FIELDS = ["sch", "acp", "dn", "oa", "ruv", "ixm"]
PROBE = {"create": "ruv", "modify": "ent", "delete": "ent", "schema": "sch", "schemaidx": "ixm", "acp": "acp",
         "oauth2": "oa", "domain": "dn"}
DISK = ["ent", "sche", "acpe", "oae", "dne"]


def signatures(r):
    """Per differing field: the minimal description of what a failed transaction left behind."""
    pre, live, reopen = r["pre"], r["live"], r["reopen"]
    base = r["post2"] if r.get("post2") else pre   # the reopened file contains the follow-up transaction
    disk_same = all(reopen[f] == base[f] for f in DISK)
    out = []
    for f in sorted(pre):
        if live[f] != pre[f]:
            cls = "mem-ahead" if f in MEM_FIELDS else "data-changed"
            out.append((f"{cls} field={f} phase={r['phase']} pt={r['point']} disk={'pre' if disk_same else 'changed'}",
                        f"kind={r['kind']} k={r['k']}: after {r['res']} at storage point {r['point']} ({r['phase']} phase) a fresh "
                        f"read transaction sees {f}={live[f]!r}, it was {pre[f]!r} when the transaction began"))
    if r.get("live2") and r.get("post2") and r["live2"] != r["post2"]:
        for f in sorted(r["post2"]):
            if r["live2"].get(f) != r["post2"][f] and live[f] == pre[f]:
                out.append((f"later-differs field={f} phase={r['phase']} pt={r['point']}",
                            f"kind={r['kind']} k={r['k']}: after the failed transaction AND one following successful transaction a "
                            f"reader sees {f}={r['live2'].get(f)!r}; the follow-up alone gives {r['post2'][f]!r}"))
    if not disk_same:
        d = [f for f in DISK if reopen[f] != base[f]]
        out.append((f"disk-changed fields={','.join(d)} phase={r['phase']} pt={r['point']}",
                    f"kind={r['kind']} k={r['k']}: the reopened database differs in {d} after a transaction that reported {r['res']}"))
    if r.get("rf") == 1 and any(r["reopenf"].get(f) != base[f] for f in base if f != "ruv"):
        d = [f for f in sorted(base) if f != "ruv" and r["reopenf"].get(f) != base[f]]
        out.append((f"reopened-differs fields={','.join(d)} phase={r['phase']} pt={r['point']}",
                    f"kind={r['kind']} k={r['k']}: the reopened and re-initialised server differs in {d}"))
    return out


def run(tier, replay):
    R = lib.Result(PID, tier, META["level"])
    wd = lib.workdir(PID)
    lib.build("txn")
    quick = tier == "quick"
    order, sfx, order_labels = txn_common.commit_order()
    mc = lib.tlc("KTxnFaultMC", cfg="KTxnFaultMC" + sfx, pid=PID, workers=2, timeout=600)
    lib.tlc_must_pass(mc, "KTxnFaultMC: commit step list with Fail(k)/Crash(k)/Abandon")
    hyp = sorted(set((t[1], t[2], t[3]) for t in mc["tuples"] if t[0] == "HYP"))
    obs = f"{wd}/obs.ndjson"
    db = txn_common.dbroot(PID)
    if replay:
        lib.kverif("txn", ["c04", "--out", obs, "--replay", replay, "--db", db], timeout=3000)
    elif quick:
        lib.kverif("txn", ["c04", "--out", obs, "--db", db, "--kinds", "create,schemaidx,acp,oauth2,domain",
                           "--stride", 500], timeout=3000)
    else:
        lib.kverif("txn", ["c04", "--out", obs, "--db", db, "--kinds",
                           "create,modify,delete,schema,schemaidx,acp,oauth2,domain", "--stride", 60, "--reopen-init"],
                   timeout=6000)
    txn_common.cleanup(db)
    tv = lib.trace_validate("KTxnFaultTrace", obs, PID, cfg="KTxnFaultTrace" + sfx, timeout=1500)
    lines = lib.read_lines(obs)
    recs = [json.loads(l) for l in lines]
    # vacuity: every reference run must move its probe, otherwise the observation is blind
    for r in recs:
        if r["a"] == "ref":
            f = PROBE[r["kind"]]
            if r["post"][f] == r["pre"][f]:
                lib.tool_error(f"probe {f} of kind {r['kind']} does not change in the fault-free run: observation is blind")
    observed_hyp = set()
    step_of = txn_common.STEP_OF
    comp_of = {"sch": "schema", "acp": "acp", "dn": "dinfo", "oa": "oauth2"}
    for t in tv["l1fail"]:
        ln = t[2] - 1
        r = recs[ln]
        for sig, desc in signatures(r):
            R.violation(sig, desc, [lines[ln]])
        for f in MEM_FIELDS:
            if r["live"][f] != r["pre"][f]:
                if f in comp_of:
                    observed_hyp.add((r["kind"], step_of.get(r["point"], "names"), comp_of[f]))
    classes = {}
    for r in recs:
        diff = ",".join(f for f in sorted(r["pre"]) if r["live"][f] != r["pre"][f])
        key = f"{r['a']}/{r['kind']}/{step_of.get(r['point'], 'names')}/{r['phase']}/{r['res']}/{diff or '-'}"
        classes[key] = classes.get(key, 0) + 1
    refs = {r["kind"]: {"points": r["n"], "passed": r["points"]} for r in recs if r["a"] == "ref"}
    kinds_run = set(refs)
    R.coverage = {
        "commit_order_of_tree_under_test": order,
        "evaluations": len(recs),
        "distinct_nontrivial": len([k for k in classes if not k.startswith("ref/")]),
        "rule": "one evaluation = one transaction run on a fresh copy of the file-backed server with one injected event, observed "
                "before / after / reopened and judged by TLC; distinct = distinct (event kind, transaction kind, commit step the "
                "storage point belongs to, phase, result, set of observation fields changed); non-trivial = an event was "
                "injected (reference runs excluded)",
        "samples": lib.sample(lines),
        "classes": classes,
        "storage_points_per_kind": refs,
        "l1_fail_lines": len(tv["l1fail"]),
        "l2_drift": len(tv["drift"]),
        "first_drift_line": (tv["drift"][0][2] if tv["drift"] else None),
        "model_states": mc["distinct"], "model_transitions": mc["generated"],
        "hypotheses_model": len(hyp),
        "hypotheses_confirmed_on_real_code": sorted(",".join(h) for h in observed_hyp),
        "model_steps_without_storage_point_in_the_kinds_run": sorted(",".join(h) for h in hyp if h[0] in kinds_run and h not in observed_hyp),
    }
    R.assumptions = [
        "a storage failure is modelled as the call returning SqliteError before the statement executes (SQLITE_FULL / IOERR "
        "class); partial execution of one statement is SQLite's concern",
        "the schema-attribute kind runs on a server kept at domain level 14: from level 1.11 on the schema is compiled in and "
        "attribute-type entries no longer change it",
        "databases live on tmpfs when /dev/shm is writable (no physical fsync; not relied upon)",
    ]
    R.finish()
