"""C11 - Replicated session and key revocations are never lost."""
import json, glob
from kv import lib
PID = "C11"
META = {
    "level": "model_checking",
    "text": "KMerge transcribes the session / OAuth2-session / key valueset merges; TLC checks on every family of three views "
            "(states from the expiry/revocation lattice, both trim positions, all six orders and both groupings, newer/older by "
            "change id) that results agree, self-merge changes nothing and a revocation known to any view survives with the "
            "earliest change id until trim. The same families are merged by the real repl_merge_valueset and every real result "
            "is judged by the same TLA+ predicates. System level: histories on 2-3 real servers, where TLC checks at every "
            "quiescent mesh that no replica still holds as live a session another replica revoked.",
    "note": "design level, sessions: the per-key merge is proved (TLAPS, KMergeProof) idempotent, commutative, associative, "
            "revocation-absorbing and earliest-revocation-keeping for ALL well-formed states and the map merge proved to be that "
            "join pointwise, so any number of views in any order and grouping merge to one result; key objects and trimming "
            "are model-checked only; 1 key exhaustively (quick), 2 keys exhaustively (thorough), 2-3 keys sampled; audit-log valuesets not covered; for keys "
            "the retained status change id is not compared (only the status), see DESIGN C11; order independence is demanded while "
            "no revocation is older than the trim point (the statement's window)",
    "design_ref": "DESIGN.md section 6, C11",
    "technique": "TLA+ operator spec KMerge model-checked by TLC; exhaustive families replayed through the real valueset merges and validated by KMergeTrace; system-level histories validated by KReplTrace",
}

def run(tier, replay):
    R = lib.Result(PID, tier, META["level"])
    wd = lib.workdir(PID)
    lib.build("repl")
    states = trans = 0
    is_hist_replay = False
    if replay:
        first = json.loads(lib.read_lines(replay)[0])
        is_hist_replay = "op" in first
    cfgs = ["KMergeMC_session", "KMergeMC_key"] + (["KMergeMC_session2", "KMergeMC_key2"] if tier == "thorough" else [])
    if not replay:
        for cfg in cfgs:
            mc = lib.tlc("KMergeMC", cfg=cfg, pid=PID, workers=4 if tier == "quick" else 8, timeout=3000)
            lib.tlc_must_pass(mc, f"{cfg}: merge transcription vs L1")
            states += mc["distinct"]; trans += mc["generated"]
    # unbounded design level: the per-key session merge is a join of a total order (proved by TLAPS from KMerge itself)
    proof = None
    if not replay:
        proof = lib.tlapm_prove("KMergeProof", ["KMerge"], PID,
                                "JoinIdem, JoinComm, JoinAssoc, RevAbsorbs, EarliestRevKept, MergeIsPointwiseJoin "
                                "(sessions; all well-formed states, maps of any size)")
    # (A) operator level
    fam_lines = []
    drift = 0
    if not is_hist_replay:
        obs = f"{wd}/obs.ndjson"
        if replay:
            lib.kverif("repl", ["c11", "--out", obs, "--replay", replay])
        else:
            args = ["c11", "--out", obs, "--seed", lib.seed(), "--sample", 300 if tier == "quick" else 3000]
            if tier == "thorough":
                args.append("--full2")
            lib.kverif("repl", args, timeout=3000)
        tv = lib.trace_validate("KMergeTrace", obs, PID, timeout=3000, xmx="8g")
        fam_lines = lib.read_lines(obs)
        drift = len(tv["drift"])
        for t in tv["l1fail"]:
            rec = json.loads(fam_lines[t[2] - 1])
            R.violation(f"merge-{rec['kind']} views={json.dumps(rec['views'], sort_keys=True)} trim={rec['trim']}",
                        f"real {rec['kind']} valueset merge of views {rec['views']} (trim {rec['trim']}) breaks order independence / "
                        f"idempotence / revocation absorption", [json.dumps({k: rec[k] for k in ('kind', 'trim', 'views')})])
    # (B) system level: revocations on real replicas
    hist_lines = []
    nh = 0
    if not replay or is_hist_replay:
        scripts = f"{wd}/scripts.ndjson"
        with open(scripts, "w") as f:
            srcs = [replay] if replay else sorted(glob.glob("/verif/spec/witness/C11-*.ndjson"))
            for w in srcs:
                for l in lib.read_lines(w):
                    f.write(l + "\n")
        hobs = f"{wd}/hist.ndjson"
        args = ["hist", "--out", hobs, "--script", scripts, "--seed", lib.seed(), "--mode", "sessions"]
        if not replay:
            args += ["--random", 8 if tier == "quick" else 120, "--minlen", 15, "--maxlen", 40]
        lib.kverif("repl", args, timeout=3000)
        tvh = lib.trace_validate("KReplTrace", hobs, PID, timeout=3000, xmx="8g", tag="KReplTrace")
        hist_lines = lib.read_lines(hobs)
        recs = [json.loads(l) for l in hist_lines]
        starts = [i for i, r in enumerate(recs) if r["op"] == "init"]
        nh = len(starts)
        for t in tvh["l1fail"]:
            if t[1] != PID:
                continue
            ln = t[2]
            i0 = max(s for s in starts if s <= ln - 1)
            rl = [json.dumps({k: v for k, v in r.items() if k not in ("st", "res", "now", "skew")}) for r in recs[i0:ln] if "mx" not in r]
            if "mx" in recs[ln - 1]:
                rl.append(json.dumps({"op": "mesh"}))
            R.violation(t[3], f"{t[3]} at line {ln}: a session revoked on one replica is still live on another at quiescence", rl)
    R.coverage = {
        "states": max(states, 1), "transitions": max(trans, 1),
        "traces_validated_against_impl": len(fam_lines) + nh,
        "families_merged_by_real_code": len(fam_lines), "system_histories": nh,
        "l2_drift": drift,
        "samples": lib.sample(fam_lines, 2) + [{k: v for k, v in json.loads(l).items() if k != "st"} for l in hist_lines[:3]],
        "exhaustive": True,
        "unbounded_proof": proof,
        "rule": "every family over one key (quick) / two keys (thorough) x 2 trims x 3 kinds, each merged in 6 orders x 2 groupings by the real code",
    }
    R.assumptions = ["three views with distinct attribute change ids 1<2<3; revocation change ids from one server"]
    R.finish()
