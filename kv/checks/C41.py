"""C41 - LDAP and SCIM filters mean what their standards say."""
import json
from concurrent.futures import ThreadPoolExecutor
from kv import lib
from kv.checks import filter_common as fc

PID = "C41"
META = {
    "level": "model_checking",
    "text": "TLC compares, for every LDAP and SCIM filter of the bounded space (all leaves of the protocol alphabets incl. substring "
            "assertions with initial/any/final parts and the ordering operators, combined with and/or/not) and each stated index layout, "
            "the answer predicted for the real path -- translation (from_ldap_ro / from_scim_ro), the gateway's wrappers, rewrite and "
            "index-driven search of KFilter -- with the standards' meaning (LdapMatch per RFC 4511/X.520, ScimMatch per RFC 7644, any "
            "single value must satisfy the whole assertion) on the 16 entry shapes, and requires every divergence to fall in a signed "
            "class; TLC-chosen cases, all leaves / negated leaves / pairs and seeded random filters are then sent through the REAL "
            "LdapServer::do_op search (anonymous bind) and the REAL scim_search_ext on a real IdmServer, and TLC judges every real "
            "answer with LdapMatch / ScimMatch on the entries read back.",
    "note": "the real population has a multi-valued string attribute and a single-valued integer attribute: SCIM refuses every comparison "
            "on integer / date syntaxes (resolve_scim_json_get), so `gt = pres AND NOT(lt OR eq)` on a multi-valued ORDERED attribute is "
            "unreachable with the shipped schema and stays a model-level observation; SCIM runs as an impersonated identity with "
            "unlimited resource limits, LDAP with the anonymous session's default limits (unindexed searches are refused). Results are "
            "judged on the model population only (other entries are subject to access control). Trusted: TLC, the access profile the "
            "driver adds so that accounts may search the model attributes.",
    "design_ref": "DESIGN.md section 6, C41",
    "technique": "TLA+ operator spec (KProtoFilter on KFilter) model-checked by TLC; real LDAP gateway and SCIM search observations validated "
                 "by the TLC trace spec KProtoFilterTrace",
}

MC_T = """CONSTANTS
  Kind = "{kind}"
  LeafSet = "{leaf}"
  Depth = {depth}
  LayoutIds = {{{layouts}}}
  CaseCap = {casecap}
INIT Init
NEXT Next
INVARIANT MCInv
POSTCONDITION Census
CHECK_DEADLOCK FALSE
"""


def shards(tier):
    sh = []
    for kind in ("ldap", "scim"):
        sh.append(dict(name=f"{kind}1", kind=kind, leaf="full", depth=1, layouts="16, 17, 4, 22" if tier != "quick" else "16, 17", casecap=30))
    if tier != "quick":
        for kind in ("ldap", "scim"):
            for i, lay in enumerate(("16", "17", "4", "22")):
                sh.append(dict(name=f"{kind}2_{i}", kind=kind, leaf="small", depth=2, layouts=lay, casecap=10))
    return sh


def run(tier, replay):
    R = lib.Result(PID, tier, "model_checking")
    wd = lib.workdir(PID)
    lib.build(fc.GROUP)
    quick = tier == "quick"
    pool = ThreadPoolExecutor(max_workers=1)
    mcf = pool.submit(fc.run_mc, PID, "KProtoFilterMC", MC_T, shards("quick" if replay else tier), 2 if quick else 8, 900 if quick else 2400)
    obs = f"{wd}/obs.ndjson"
    if replay:
        lib.kverif(fc.GROUP, ["c41", "--out", obs, "--replay", replay])
    else:
        args = ["c41", "--out", obs, "--seed", lib.seed(), "--layouts", "16" if quick else "16,17,4,22",
                "--random", 300 if quick else 12000, "--random-groups", 2 if quick else 12, "--depth", 3 if quick else 5]
        if not quick:
            args.append("--pairs-all")
        lib.kverif(fc.GROUP, args)
    lines = lib.read_lines(obs)
    l1, drift, chunks, tstates = fc.validate_parallel(PID, "KProtoFilterTrace", lines, 4 if quick else 8, 1500, tag="a")
    try:
        mcs, cases, census = mcf.result()
    except lib.ToolError as e:
        lib.tool_error(str(e))
    tot = [sum(c[1][i] for c in census) for i in range(7)]
    if tot[6] != 0:
        lib.tool_error("model: a divergence outside the signed classes exists")
    if not replay and (tot[1] == 0 or tot[2] == 0 or tot[3] == 0 or tot[4] == 0):  # refused, both translation classes, pre-repair witnesses
        lib.tool_error(f"model census is vacuous: {tot}")
    if not replay and cases:
        cf, obs2 = f"{wd}/cases.ndjson", f"{wd}/obs_cases.ndjson"
        with open(cf, "w") as f:
            for c in cases:
                f.write(json.dumps(c) + "\n")
        lib.kverif(fc.GROUP, ["c41", "--out", obs2, "--cases", cf, "--no-depth1"])
        lines2 = lib.read_lines(obs2)
        l1b, driftb, chunksb, ts2 = fc.validate_parallel(PID, "KProtoFilterTrace", lines2, 1 if quick else 2, 1500, tag="b")
        off = len(chunks)
        l1 += [(ci + off, t) for ci, t in l1b]
        drift += [(ci + off, t) for ci, t in driftb]
        chunks += chunksb
        lines += lines2
        tstates += ts2
    for ci, t in l1:
        ln, sig = t[2], t[3]
        rec = json.loads(chunks[ci][ln - 1])
        R.violation(f"{sig} kind={rec['kind']} pf={json.dumps(rec['pf'], sort_keys=True)[:200]}",
                    f"{rec['kind']} filter {json.dumps(rec['pf'], sort_keys=True)[:400]} returned {rec['res']} err='{rec['err']}'; "
                    f"the standard's meaning selects a different set [{sig}]",
                    fc.replay_context(chunks[ci], ln))
    protos = [l for l in lines if l.startswith('{"a":"proto"')]
    stats = {}
    for l in protos:
        r = json.loads(l)
        k = r["kind"] + (":refused" if r["err"] else ":answered")
        stats[k] = stats.get(k, 0) + 1
    if not replay and not all(stats.get(k, 0) > 20 for k in ("ldap:answered", "scim:answered", "ldap:refused", "scim:refused")):
        lib.tool_error(f"observations are vacuous: {stats}")
    R.coverage = {
        "states": sum(m["distinct"] for m in mcs), "transitions": sum(m["generated"] for m in mcs),
        "traces_validated_against_impl": len(protos),
        "samples": lib.sample(protos),
        "exhaustive": True,
        "l2_drift": len(drift),
        "model_census": dict(zip(["states", "refused", "div_ldap_substring_split", "div_scim_order_string", "div_andnot_isolated",
                                  "div_andnot_partial", "div_unexplained"], tot)),   # andnot classes: pre-repair code only (regression witnesses)
        "mc_shards": [c[0] for c in census],
        "tlc_cases_replayed": len(cases),
        "observed": stats,
        "observed_l1_failures": len(l1),
        "trace_states": tstates,
        "model_only": ["SCIM gt/ge translation on a multi-valued ordered attribute (no such attribute can be stored with the shipped schema, and SCIM "
                       "refuses comparisons on integer / date syntaxes)"],
        "rule": "model: predicted real answer vs LdapMatch / ScimMatch for every (protocol filter, layout) state, divergences only in signed classes; "
                "implementation: every real LDAP / SCIM search answer is compared by TLC with the standard's meaning on the logged entries",
    }
    R.assumptions = ["results are judged on the model population (entries outside it are filtered by access control)",
                     "SCIM searches use an impersonated anonymous identity (unlimited resource limits); LDAP searches use a real anonymous bind",
                     "string ordering is compared through order-preserving value ids"]
    R.finish()
