"""C24 - Writes need matching grants; protected objects stay protected."""
import json
from kv import lib

PID = "C24"
META = {
    "level": "model_checking",
    "text": "TLC checks the transcription of the write-access decisions (modify_allow_operation_per_entry + apply_modify_access "
            "with protected-entry and sync constraints, apply_delete_access, apply_create_access; KAccess L2) against the write "
            "property written from the statement (KAccess L1: grants for everything added/removed, read-only and synchronisation "
            "identities never succeed, protected classes / tombstones / class purge / protected and built-in entries) on every "
            "combination of a bounded space; seeded random profile sets, identities and operations are then executed for real "
            "(ModifyEvent/CreateEvent/DeleteEvent::from_message, ModifyEvent::from_internal_parts with Modify::Set, BatchModifyEvent, "
            "ReviveRecycledEvent::from_parts on a real server whose profiles "
            "are ordinary entries) and each result with its observed post-state is judged by L1 in TLC; L2 must predict the result class.",
    "note": "exhaustive within 1 profile from a 144-profile pool (and pairs from a 32-profile pool in thorough) x 12 entry kinds x 5 "
            "identities x 14 modification lists; real-server operations: a scripted grant-all scenario (every modification list x every "
            "entry kind, creates, deletes, revives, repeated by ro/sync/Synch identities) + seeded random ones, each in its own dropped write "
            "transaction. Trusted: TLC, the projection of entries / profiles / identities, the backend candidate set (C01). "
            "Modify::Set (a Set of a counts as adding its new values AND removing every existing value of a) and batch_modify are driven, "
            "incl. a scripted scenario with asymmetric present/removed grants; Modify::Assert and the SCIM PUT front-end itself are not. "
            "'built-in' is read as 'uuid in the reserved range'.",
    "design_ref": "DESIGN.md section 6, C24",
    "technique": "TLA+ grant model (KAccess) model-checked by TLC; trace validation of real create/modify/delete/revive operations with post-state",
}
ARMS = {"class-added", "create-allowed", "delete-allowed", "entry-manager-allowed", "modify-allowed",
        "protected-entry-constrained-allowed", "revive-allowed", "sync-entry-yielded-allowed",
        "set-allowed", "set-refused-for-missing-removed-grant"}


def run(tier, replay):
    R = lib.Result(PID, tier, META["level"])
    wd = lib.workdir(PID)
    lib.build("access")
    states = trans = 0
    arms = set()
    for cfg in (["KAccessWMC"] if tier == "quick" else ["KAccessWMC", "KAccessWMC2"]):
        mc = lib.tlc("KAccessWMC", cfg=cfg, pid=PID, workers=4 if tier == "quick" else 8, timeout=3000)
        lib.tlc_must_pass(mc, f"{cfg}: write-access transcription (L2) vs write property (L1)")
        states += mc["distinct"]; trans += mc["generated"]
        arms |= {t[1] for t in mc["tuples"] if t[0] == "ARM"}
    if arms != ARMS:
        lib.tool_error(f"vacuity guard: arms not exercised by the exhaustive run: {sorted(ARMS - arms)}")
    obs = f"{wd}/obs.ndjson"
    if replay:
        lib.kverif("access", ["c24", "--out", obs, "--replay", replay])
    else:
        n, m = (20, 100) if tier == "quick" else (150, 150)
        lib.kverif("access", ["c24", "--out", obs, "--configs", n, "--ops", m, "--seed", lib.seed()])
    tv = lib.trace_validate("KAccessWTrace", obs, PID, timeout=3000)
    lines = lib.read_lines(obs)
    recs = [json.loads(l) for l in lines]
    cfg_of, cur = {}, None
    for i, r in enumerate(recs):
        if r["a"] == "cfg":
            cur = i
        cfg_of[i] = cur
    for t in tv["l1fail"]:
        ln, sig = t[2], t[3]
        r = recs[ln - 1]
        R.violation(f"{sig} op={r['op']} scope={r['id']['scope']} origin={r['id']['origin']}",
                    f"{r['op']} as {r['id']['u']} ({r['id']['scope']}/{r['id']['origin']}) filter {json.dumps(r['f'])} "
                    f"modlist {json.dumps(r['ml'] if r['op'] != 'batch' else r.get('mods'))} new {json.dumps(r['new']['attrs'])} succeeded: {sig}",
                    [lines[cfg_of[ln - 1]], lines[ln - 1]])
    ops = [r for r in recs if r["a"] == "op"]
    by = {}
    def uses_set(r):
        return any(m["k"] == "set" for m in r["ml"]) or any(m["k"] == "set" for ml in r.get("mods", {}).values() for m in ml)
    for r in ops:
        k = f"{r['op']}:{r['res'] if r['res'] in ('ok', 'denied', 'nomatch', 'panic') else 'error_after_access'}"
        by[k] = by.get(k, 0) + 1
    R.coverage = {
        "states": states, "transitions": trans,
        "traces_validated_against_impl": len(ops),
        "samples": lib.sample([l for l, r in zip(lines, recs) if r["a"] == "op" and r["res"] == "ok"] or lines),
        "l2_drift": len(tv["drift"]),
        "first_drift_line": tv["drift"][0][2] if tv["drift"] else None,
        "configurations": sum(1 for r in recs if r["a"] == "cfg"),
        "operations_by_kind_and_result": by,
        "successful_operations": sum(1 for r in ops if r["res"] == "ok"),
        "operations_using_set": sum(1 for r in ops if uses_set(r)),
        "set_operations_succeeded": sum(1 for r in ops if uses_set(r) and r["res"] == "ok"),
        "set_operations_denied": sum(1 for r in ops if uses_set(r) and r["res"] == "denied"),
        "batch_operations": sum(1 for r in ops if r["op"] == "batch"),
        "successful_on_protected_kind_entries": sum(1 for r in ops if r["res"] == "ok" and any(x in ("e7", "e8", "e9", "b1", "e4") for x in r["post"])),
        "attempts_by_ro_sync_or_synch_identity": sum(1 for r in ops if r["id"]["scope"] != "rw" or r["id"]["origin"] != "user"),
        "model_arms_exercised": sorted(ARMS),
        "rule": "each real operation is one validated trace line: when it succeeded, L1 (KAccess!L1Modify / L1Create / L1Delete) must accept "
                "the observed pre/post entries given the ACP entries, memberships and identity read back from the same server",
    }
    R.assumptions = ["operations run in separate write transactions that are dropped (kanidm applies plugins at operation time)",
                     "the backend candidate set of a request filter is taken from the real backend (C01 covers its correctness)",
                     "an attribute/class counts as added or removed by a request when the request names it and its value set changed"]
    R.finish()
