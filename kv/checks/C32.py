"""C32 - Bearer tokens are accepted only for live sessions."""
from kv.checks import tokcommon

PID = "C32"
META = {
    "level": "model_checking",
    "text": "TLC explores the transcription of bearer-token validation, of the delayed session record, of the session "
            "consistency plugin and of key rotation/revocation (L2) against the acceptance conditions of the statement (L1) "
            "on all interleavings of the bounded model; behaviours generated from the model and seeded random histories are "
            "executed on a real IdmServer, every issued token (login UATs incl. passkey and anonymous, API tokens in both "
            "encodings) is presented through validate_client_auth_info_to_ident after every event, and every verdict is judged "
            "in TLA+ against the state projected from the real account and domain-key entries.",
    "note": "reading of the statement (lead decision): the grace window excuses a session record that is NOT YET WRITTEN, it never "
            "makes a recorded-but-revoked (or expiry-mismatched) login session acceptable; API-token sessions are removed outright "
            "on destroy (no revoked marker is observable), so for them the grace window excuses an absent record; "
            "exhaustive within the MC constants (1 account, <=2 login sessions + 1 api token, time 0..4, <=2 keys per usage); "
            "beyond that simulated/random; trusted: TLC, the projection accessors in inlib/token.rs, unverified decoding of "
            "the token body for the claimed session id / expiry / kid",
    "design_ref": "DESIGN.md section 6, C32",
    "technique": "TLA+ state machine (KAuthTokens) model-checked by TLC; model behaviours and random histories replayed on the real IdmServer and validated by a TLC trace spec",
}


def run(tier, replay):
    tokcommon.run_hist(PID, META, tier, replay)
