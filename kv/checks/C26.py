"""C26 - Recycle bin lifecycle holds."""
import json
from kv import lib
from kv import dirsrv_common as dc

PID = "C26"
META = {
    "level": "model_checking",
    "text": "TLC explores a transcription of delete (recycle + cascade over `refers` dependents), revive (entry, cascade dependents, "
            "restore of direct memberships), purge_recycled (last modification older than the retention period) and purge_tombstones "
            "(tombstone older than the changelog window) over model time with scaled constants against the lifecycle as stated: "
            "recycled entries invisible to normal search and visible to recycle-bin search; recycled -> tombstone only after the "
            "retention period, tombstone -> gone only after the changelog window, tombstones never come back; a successful revive "
            "returns EVERY entry of the (possibly multi-entry) revive operation, its cascade-deleted dependents and its memberships of groups that stayed live; an unobstructed revive "
            "succeeds. Sampled model behaviours are replayed on a real server at the corresponding simulated times (real constants), "
            "seeded random delete/revive/purge histories jump around both windows; every commit is judged by the TLA+ action "
            "properties, the history summary (deletion / tombstone times, owed memberships, cascade sets) being derived from "
            "consecutive observed states only.",
    "note": "retention constants are read from the build (RECYCLEBIN_MAX_AGE / CHANGELOG_MAX_AGE, 7 days each in non-test builds) "
            "and time is driven through the curtime argument; 'groups that still exist' = static groups live continuously since "
            "the deletion; internal identity for delete/revive/search (hidden-entry masking, not access control, is what is "
            "observed); model bound 4 entries (two users sharing a group, a dependent), delete / revive over sets of 1..2 entries",
    "design_ref": "DESIGN.md section 6, C26",
    "technique": "TLA+ lifecycle automaton with timers model-checked by TLC; replay of model behaviours at simulated times and stateful trace validation of random histories on the real server",
}


def run(tier, replay):
    R = lib.Result(PID, tier, META["level"])
    wd = lib.workdir(PID)
    lib.build(dc.GROUP)
    quick = tier == "quick"
    res, cex, beh = dc.mc("KRecycleMC", "KRecycleMC" if quick else "KRecycleMCt", PID, 1, 3000, kinds=(1, 2, 3, 4, 5, 6))
    parts = []
    replayed = 0
    n_multi = 0
    if replay:
        parts.append(dc.hist_replay(f"{wd}/replay-obs.ndjson", replay))
    else:
        allb = [dc.triples(t) for t in beh]
        multi = [h for h in allb if dc.multi_revive(h)]
        if not multi:
            lib.tool_error("KRecycleMC printed no behaviour with a multi-entry revive (vacuous for set revives)")
        rest = [h for h in allb if not dc.multi_revive(h)]
        # behaviours that revive several entries with ONE operation first, then a sample of the others
        hs = [dc.triples(t) for t in cex[:200]] + multi[:: max(1, len(multi) // (50 if quick else 500))] + \
             rest[:: max(1, len(rest) // (40 if quick else 400))]
        n_multi = len(multi)
        replayed = len(hs)
        dc.write_replay(f"{wd}/model-histories.ndjson", [dc.ops_c26(h, dc.RMAX // 2) for h in hs])
        parts.append(dc.hist_replay(f"{wd}/obs-model.ndjson", f"{wd}/model-histories.ndjson"))
        parts.append(dc.hist(PID, f"{wd}/obs-hist.ndjson", "C26", 8 if quick else 60, 60 if quick else 200))
        parts.append(dc.hist(PID, f"{wd}/obs-mixed.ndjson", "mixed", 3 if quick else 20, 50 if quick else 150, seed_off=1))
    obs = dc.concat(f"{wd}/obs.ndjson", parts)
    tv, lines = dc.validate_sharded("KRecycleTrace", obs, PID, wd, shard=6000, timeout=2400)
    cnt = dc.judge(R, PID, tv, lines, "recycle-bin lifecycle broken")
    # measured transition coverage (pure counting, no judgement)
    trans = {}
    prev = None
    for l in lines:
        r = json.loads(l)
        cur = {k: v["lv"] for k, v in r["st"]["e"].items() if v["mdl"]}
        if prev is not None and r["a"] != "reset":
            for k in set(cur) | set(prev):
                a, b = prev.get(k, "absent"), cur.get(k, "absent")
                if a != b:
                    trans[f"{a}->{b}"] = trans.get(f"{a}->{b}", 0) + 1
        prev = cur
    c = dc.constants_of(lines)
    R.coverage = {
        "states": res["distinct"], "transitions": res["generated"],
        "model_counterexamples": len(cex), "model_behaviours_sampled": len(beh), "model_histories_replayed": replayed, "model_behaviours_with_multi_entry_revive": n_multi,
        "traces_validated_against_impl": sum(1 for l in lines if '"a":"reset"' in l),
        "observed_states_judged": len(lines), "liveness_transitions_observed": trans,
        "build_constants": c,
        "samples": dc.samples(lines),
        "l2_drift": len(tv["drift"]), "l2_drift_first": tv["drift"][:3],
        "l1": cnt, "ops": dc.op_counts(lines),
        "rule": "every commit: visibility by liveness class; every liveness transition allowed by the lifecycle and its timer "
                "(TLA+ KRecycle!TransOk); every successful revive complete (KRecycle!ReviveOk); every unobstructed revive succeeds",
    }
    R.assumptions = ["retention constants as built: rmax=%s cmax=%s" % (c.get("rmax"), c.get("cmax")),
                     "whole-second simulated time, one operation per transaction; single server"]
    if c and (c.get("rmax") != dc.RMAX or c.get("cmax") != dc.RMAX):
        R.assumptions.append("NOTE: build constants differ from the documented 7 days; model replays were scaled for 7 days")
    R.finish()
