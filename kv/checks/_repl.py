"""Shared machinery of the replication checks C08 C09 C19 (spec KRepl / KReplMC / KReplTrace, driver kv-repl hist)."""
import json, glob, os, re
from kv import lib

LETTER = {1: "A", 2: "B", 3: "C"}


def _unescape(s):
    return s.replace('\\"', '"').replace("\\\\", "\\")


TSCALE = {"KReplMC_trim": 302410, "KReplMC_trim_quick": 302410}   # 2 model units = the 7 day changelog / recycle windows


def model_hist_to_script(hist, n, ids, tscale=10):
    """Operation history exported by KReplMC -> driver script (see harness/repl/src/hist.rs)."""
    lines = [{"op": "init", "n": n, "tscale": tscale}]
    for u in ids:
        lines.append({"op": "create", "r": "A", "e": u, "name": f"m{u}", "kind": "person"})
    lines.append({"op": "mesh"})
    for op in hist:
        o = dict(op)
        for k in ("r", "from", "to"):
            if k in o:
                o[k] = LETTER[o[k]]
        if o["op"] in ("create", "rename"):
            o["name"] = "m" + str(o.get("name", o.get("e")))
        if o["op"] == "create":
            o["kind"] = "person"
        if o["op"] == "setdn":
            o["v"] = f"d{o['v']}"
        lines.append(o)
    lines.append({"op": "mesh"})
    return lines


def mc_runs(pid, cfgs, workers, timeout):
    """Exhaustive TLC runs; returns (states, transitions, list of (cfg, invariant, hist))."""
    states = trans = 0
    cex = []
    for cfg in cfgs:
        r = lib.tlc("KReplMC", cfg=cfg, pid=pid, workers=workers, timeout=timeout, xmx="8g")
        if r["error"] or "No error has been found" not in r["out"]:
            print("\n".join(r["out"].splitlines()[-30:]))
            lib.tool_error(f"TLC exhaustive run {cfg} failed (log {r['log']})")
        states += r["distinct"]
        trans += r["generated"]
        for t in r["tuples"]:
            if t[0] in ("CEX", "ARM"):
                cex.append((cfg, ("arm:" if t[0] == "ARM" else "") + t[1], json.loads(_unescape(t[2]))))
    return states, trans, cex


def simulate_behaviours(pid, cfg, num, depth, seed):
    r = lib.tlc("KReplMC", cfg=cfg, pid=pid, workers=1, timeout=600, simulate=f"num={num}", depth=depth,
                seed_val=seed, tag=cfg + "_sim")
    if r["error"]:
        print("\n".join(r["out"].splitlines()[-30:]))
        lib.tool_error(f"TLC simulation {cfg} failed (log {r['log']})")
    beh = []
    for t in r["tuples"]:
        if t[0] == "BEH":
            beh.append(json.loads(_unescape(t[1])))
    return beh


CFG_SHAPE = {  # cfg -> (replicas, initial ids)
    "KReplMC_chain": (3, [1]), "KReplMC_2r": (2, [1]), "KReplMC_2r_quick": (2, [1]),
    "KReplMC_2r_skew": (2, [1]), "KReplMC_sim": (3, [1, 2]), "KReplMC_life": (2, [1]), "KReplMC_life_quick": (2, [1]),
    "KReplMC_attr": (2, [1]),
    "KReplMC_uniq": (2, [1]), "KReplMC_uniq_quick": (2, [1]), "KReplMC_trim": (2, [1]), "KReplMC_trim_quick": (2, [1]),
}


def run_property(pid, tier, replay, meta, mode, witnesses, cfgs_quick=None, cfgs_thorough=None):
    R = lib.Result(pid, tier, meta["level"])
    wd = lib.workdir(pid)
    lib.build("repl")
    scripts = []          # list of (origin, [lines])
    states = trans = 0
    ncex = 0
    if replay:
        scripts.append(("replay", [json.loads(l) for l in lib.read_lines(replay)]))
    else:
        # (1) exhaustive exploration of the model; counterexamples become behaviours to replay
        cfgs = (cfgs_quick or ["KReplMC_chain", "KReplMC_2r_quick", "KReplMC_attr"]) if tier == "quick" else \
               (cfgs_thorough or ["KReplMC_chain", "KReplMC_2r", "KReplMC_2r_skew", "KReplMC_attr"])
        states, trans, cex = mc_runs(pid, cfgs, 4 if tier == "quick" else 8, 900 if tier == "quick" else 3000)
        seen = set()
        for cfg, inv, hist in cex:
            key = json.dumps(hist, sort_keys=True)
            if key in seen:
                continue
            seen.add(key)
            if sum(1 for s in scripts if s[0].startswith("cex:" + cfg + ":" + inv)) >= (2 if tier == "quick" else 12):
                continue
            n, ids = CFG_SHAPE[cfg]
            scripts.append((f"cex:{cfg}:{inv}", model_hist_to_script(hist, n, ids, TSCALE.get(cfg, 10))))
        ncex = len(scripts)
        # (2) complete model behaviours (simulation) replayed on the real servers
        beh = simulate_behaviours(pid, "KReplMC_sim", 12 if tier == "quick" else 400, 14, lib.seed())
        for h in beh:
            n, ids = CFG_SHAPE["KReplMC_sim"]
            scripts.append(("sim", model_hist_to_script(h, n, ids)))
        # (3) witnesses of listed findings (so that each is re-observed on every run)
        for w in witnesses:
            scripts.append((f"witness:{os.path.basename(w)}", [json.loads(l) for l in lib.read_lines(w)]))
    script_path = f"{wd}/scripts.ndjson"
    with open(script_path, "w") as f:
        for _, ls in scripts:
            for l in ls:
                f.write(json.dumps(l) + "\n")
    obs = f"{wd}/obs.ndjson"
    args = ["hist", "--out", obs, "--script", script_path, "--seed", lib.seed(), "--mode", mode]
    if not replay:
        args += ["--random", 10 if tier == "quick" else 160, "--minlen", 12, "--maxlen", 45 if tier == "quick" else 70]
        # scripted multi-step patterns with seeded variation: lag / trim (lifecycle) or uuid+name conflicts (converge)
        args += ["--patterns", 8 if tier == "quick" else 90]
    lib.kverif("repl", args, timeout=3000)
    tv = lib.trace_validate("KReplTrace", obs, pid, timeout=3000, xmx="8g")
    lines = lib.read_lines(obs)
    recs = [json.loads(l) for l in lines]
    starts = [i for i, r in enumerate(recs) if r["op"] == "init"]

    def history_of(ln):  # 1-based line -> script lines of its history up to that line
        i0 = max(s for s in starts if s <= ln - 1)
        out = []
        for r in recs[i0:ln]:
            if "mx" in r:
                continue   # exchanges generated by a mesh: the mesh line regenerates them on replay
            out.append(json.dumps({k: v for k, v in r.items() if k not in ("st", "res", "now", "skew")}))
        if "mx" in recs[ln - 1]:
            out.append(json.dumps({"op": "mesh"}))
        return out

    for t in tv["l1fail"]:
        if t[1] != pid:
            continue
        ln, sig = t[2], t[3]
        r = recs[ln - 1]
        R.violation(f"{sig}", f"{sig} at line {ln} (op {r['op']}) of the observed history; "
                    f"replicas {sorted(r['st'].keys())}", history_of(ln))
    nquiesc = sum(1 for r in recs if r["op"] == "mesh" and r["res"].get("q"))
    nnotq = sum(1 for t in tv["tuples"] if t[0] == "NOTQUIESCENT")
    drift = 0
    for r in recs:   # L2 expectation exported by the model for exchanges ("expect")
        if r["op"] == "repl" and "expect" in r and "sup" in r.get("res", {}):
            ok_obs = r["res"].get("sup") in ("changes", "no_changes")
            if (r["expect"] == "ok") != ok_obs:
                drift += 1
    ops = {}
    for r in recs:
        ops[r["op"]] = ops.get(r["op"], 0) + 1
    R.coverage = {
        "states": states if states else 1, "transitions": trans if trans else 1,
        "traces_validated_against_impl": len(starts),
        "observed_steps": len(recs),
        "model_counterexamples_replayed": ncex,
        "quiescent_points_judged": nquiesc, "non_quiescent_meshes": nnotq,
        "l2_drift": drift, "op_counts": ops,
        "samples": [{k: v for k, v in recs[i].items() if k != "st"} for i in range(min(len(recs), 6))],
        "rule": "TLC explores KRepl exhaustively within the configs' bounds; every counterexample history, simulated "
                "complete behaviours and seeded random histories are executed on 2-3 real in-memory servers; the projected "
                "state of every replica after every step is judged by the L1 predicates of KReplTrace.tla",
    }
    R.assumptions = [
        "random histories use one global simulated clock (no clock skew); skewed clocks appear only in replays of model behaviours",
        "projection compares the model population (uuids e000…) and conflict entries derived from it, not built-in entries",
        "mesh = rounds of all ordered pairs until one round supplies nothing (max 8 rounds)",
    ]
    R.finish()


def repl_stage(pid, tier, wd, mode="lifecycle"):
    """Replicated stage for properties owned by another group (e.g. C16): scripted patterns + seeded random histories on
    2-3 real replicas, judged by KReplTrace; returns (violations, n_histories, n_steps) where violations is a list of
    (signature, description, replay_lines) for L1FAIL tuples of `pid`."""
    lib.build("repl")
    obs = f"{wd}/repl-obs.ndjson"
    args = ["hist", "--out", obs, "--seed", lib.seed(), "--mode", mode,
            "--patterns", 10 if tier == "quick" else 120, "--random", 4 if tier == "quick" else 60,
            "--minlen", 12, "--maxlen", 40]
    lib.kverif("repl", args, timeout=3000)
    tv = lib.trace_validate("KReplTrace", obs, pid, timeout=3000, xmx="8g", tag="KReplTrace_stage")
    recs = [json.loads(l) for l in lib.read_lines(obs)]
    starts = [i for i, r in enumerate(recs) if r["op"] == "init"]
    out = []
    for t in tv["l1fail"]:
        if t[1] != pid:
            continue
        ln, sig = t[2], t[3]
        i0 = max(s for s in starts if s <= ln - 1)
        rl = [json.dumps({k: v for k, v in r.items() if k not in ("st", "res", "now", "skew")}) for r in recs[i0:ln] if "mx" not in r]
        if "mx" in recs[ln - 1]:
            rl.append(json.dumps({"op": "mesh"}))
        out.append((sig, f"{sig} at line {ln} (op {recs[ln-1]['op']}) of a replicated history", rl))
    return out, len(starts), len(recs)
