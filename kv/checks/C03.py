"""C03 - Indexes and lookup tables mirror the stored entries."""
import json, re
from kv import lib

PID = "C03"
META = {
    "level": "model_checking",
    "text": "KStore models index maintenance as the entry_index diff (L2) and TLC checks exhaustively (3 entry slots, 2 names; create, "
            "rename, recycle, revive, tombstone, reap, uuid-changing conflict replacement, reindex, backup+restore) that the diff-"
            "maintained tables always equal the tables recomputed from the stored entries (L1 IndexMirror). Seeded random histories "
            "(creates, renames, mail/displayname/membership edits, credentials, sessions, recycle, revive, purge to tombstone, reap, "
            "reindex, cache clears, aborted writes, backup+restore) run on a real QueryServer; after EVERY commit the entries are "
            "decoded from the raw id2entry rows and every raw equality/presence/substring index table of 12 attributes, rows read "
            "through the idl cache, and the name2uuid/externalid2uuid/uuid2spn/uuid2rdn lookups and name_to_uuid over the whole key "
            "pool are logged through a fresh read transaction; TLC recomputes each table from the logged entries and compares.",
    "note": "tables are compared on the rows of the history's own entries (built-in entries are never modified by the histories); "
            "equality keys are the proto strings (the harness aborts with TOOL-ERROR if the backend's key function disagrees); "
            "substring keys are transcribed per syntax in KStore!SubKeys; replication-apply steps (uuid-changing conflicts) are "
            "covered in the model only; trusted: raw row decoding (backup reader), TLC",
    "design_ref": "DESIGN.md section 6, C03",
    "technique": "TLC exhaustive model of diff-maintained indexes; random histories on the real server with per-commit index dumps recomputed in TLA+",
}

ACTIONS = ["Create", "Rename", "Recycle", "Revive", "Tombstone", "Reap", "Conflict", "Reindex", "Restore"]


def strip(r):
    return json.dumps({k: r[k] for k in r if k not in ("st", "orig", "rest")})


def replay_lines(recs, ln):
    """the history containing line ln (1-based), from its reset to ln, without the logged states"""
    i = ln - 1
    while i > 0 and recs[i]["a"] != "reset":
        i -= 1
    return [strip(r) for r in recs[i:ln] if r["a"] in ("reset", "op", "bakver")]


def model_check(pid):
    mc = lib.tlc("KStoreMC", cfg="KStoreMC", pid=pid, workers=4, timeout=900, extra=["-coverage", "1"])
    lib.tlc_must_pass(mc, "KStore: diff-maintained tables (L2) against IndexMirror / RestoreKeeps (L1)")
    hit = {}
    for l in mc["out"].splitlines():
        m = re.match(r"^<(\w+) line .*>: (\d+):(\d+)", l)
        if m:
            hit[m.group(1)] = int(m.group(2))
    missing = [a for a in ACTIONS if hit.get(a, 0) == 0]
    if missing:
        lib.tool_error(f"KStoreMC vacuous: actions never taken {missing}")
    return mc, hit


def drive(pid, tier, replay, wd, extra):
    obs = f"{wd}/obs.ndjson"
    if replay:
        lib.kverif("store", ["c03", "--out", obs, "--replay", replay], timeout=3000)
    else:
        lib.kverif("store", ["c03", "--out", obs, "--seed", lib.seed()] + extra, timeout=3000)
    tv = lib.trace_validate("KStoreTrace", obs, pid, timeout=3000, xmx="8g")
    lines = lib.read_lines(obs)
    return obs, tv, lines, [json.loads(l) for l in lines]


def small_samples(lines):
    out = []
    for r in lib.sample(lines):
        if isinstance(r, dict):
            r = dict(r)
            st = r.pop("st", None)
            if st:
                r["st_summary"] = {"entries": [f"{e['e']}:{e['live']}:{e['a'].get('name', [''])[0] if e['a'].get('name') else ''}" for e in st["ents"]],
                                   "tables": len(st["idx"]), "n2u": {k: v for k, v in st["n2u"].items() if v != "-"}}
            for k in ("orig", "rest"):
                if k in r:
                    r[k] = {"entries": len(r[k].get("ents", {})), "ids": r[k].get("ids"), "ruv_cids": len(r[k].get("ruv", []))}
        out.append(r)
    return out


def run(tier, replay):
    R = lib.Result(PID, tier, META["level"])
    wd = lib.workdir(PID)
    lib.build("store")
    mc, hit = model_check(PID)
    extra = ["--histories", 8 if tier == "quick" else 30, "--len", 25 if tier == "quick" else 80, "--restore-pct", 3]
    obs, tv, lines, recs = drive(PID, tier, replay, wd, extra)
    for t in tv["l1fail"]:
        if t[1] != PID:
            continue
        ln, what = t[2], t[3]
        r = recs[ln - 1]
        opk = r.get("op", {}).get("op", r["a"])
        R.violation(f"mirror-broken {what} after={opk}",
                    f"after committed operation {json.dumps(r.get('op', r['a']))} ({r['res']}): {what} does not equal the table computed "
                    f"from the stored entries", replay_lines(recs, ln))
    ops = {}
    for r in recs:
        if r["a"] == "op":
            k = f"{r['op']['op']}:{r['res'].split(':')[0]}"; ops[k] = ops.get(k, 0) + 1
    states = [r for r in recs if r["a"] in ("reset", "op")]
    verify_nonempty = sum(1 for r in states if r["st"]["verify"])
    R.coverage = {
        "states": mc["distinct"], "transitions": mc["generated"], "model_action_distinct_states": hit,
        "traces_validated_against_impl": len([r for r in recs if r["a"] == "reset"]),
        "states_validated_against_impl": len(states),
        "samples": small_samples(lines),
        "l2_drift": len([d for d in tv["drift"] if d[1] == PID]),
        "op_result_counts": ops,
        "index_tables_per_state": len(states[0]["st"]["meta"]) if states else 0,
        "server_verify_nonempty_states": verify_nonempty,
    }
    R.assumptions = ["index tables are compared on the rows of the history's own entries e1..e8",
                     "lookup tables are probed over the finite key pool (every name, spn, gid number and external id the histories can ever use)"]
    R.finish()
