"""C19 - Unique values stay unique."""
import glob
from kv.checks import _repl
PID = "C19"
META = {
    "level": "model_checking",
    "text": "Random creates and renames drawn from a 3-name pool on 2-3 real servers with random replication schedules, plus replayed "
            "model behaviours with the same uuid created on several replicas; after every step TLC checks on every replica that no two "
            "live entries share a uuid, a name or an spn, and at quiescence that conflict states are identical everywhere (shared "
            "Converged predicate).",
    "note": "the attrunique conflict resolution itself is exercised on the real servers, KRepl models uuid add-conflicts only; "
            "uniqueness is judged on the projected model population",
    "design_ref": "DESIGN.md section 6, C19",
    "technique": "TLA+ spec KRepl model-checked by TLC; histories with a tiny name pool replayed on real servers and validated by KReplTrace (UniqueLive)",
}
def run(tier, replay):
    _repl.run_property(PID, tier, replay, META, "converge", sorted(glob.glob("/verif/spec/witness/C19-*.ndjson")))
