"""C19 - Unique values stay unique."""
import glob
from kv.checks import _repl
PID = "C19"
META = {
    "level": "model_checking",
    "text": "Random creates and renames drawn from a 3-name pool on 2-3 real servers with random replication schedules, plus replayed "
            "model behaviours with the same uuid created on several replicas; after every step TLC checks on every replica that no two "
            "live entries share a uuid, a name or an spn, and at quiescence that conflict states are identical everywhere (shared "
            "Converged predicate).",
    "note": "KRepl models uuid add-conflicts and the post-replication attrunique rule (every party to a name clash goes to the conflict "
            "state) in KReplMC_uniq; model hypotheses are replayed, only observations of the real servers are judged; uniqueness is "
            "judged on the projected model population (names, spns, uuids)",
    "design_ref": "DESIGN.md section 6, C19",
    "technique": "TLA+ spec KRepl model-checked by TLC; histories with a tiny name pool replayed on real servers and validated by KReplTrace (UniqueLive)",
}
def run(tier, replay):
    _repl.run_property(PID, tier, replay, META, "converge", sorted(glob.glob("/verif/spec/witness/C19-*.ndjson")),
                       cfgs_quick=["KReplMC_uniq_quick"], cfgs_thorough=["KReplMC_uniq", "KReplMC_2r"])
