"""C08 - Replicas converge."""
import glob
from kv.checks import _repl
PID = "C08"
META = {
    "level": "model_checking",
    "text": "KRepl (per-attribute change ids, supplier window filtering, merge_state incl. mergeable valuesets, uuid add-conflicts, "
            "tombstones, RUV) is explored exhaustively by TLC within small bounds (2 replicas / 3 replicas chain); every model "
            "counterexample, simulated complete behaviours and seeded random concurrent histories are executed on 2-3 real servers "
            "and the Converged predicate is evaluated by TLC on the projected state at every quiescent full mesh.",
    "note": "bounded model (<=3 replicas, <=2 entries, <=3 writes exhaustively); implementation side sampled beyond that; post-replication "
            "plugins (attrunique/refint/memberof) are exercised on the real servers but not modelled in KRepl; in-memory SQLite servers; "
            "random histories use a single global clock",
    "design_ref": "DESIGN.md section 6, C08",
    "technique": "TLA+ spec KRepl model-checked by TLC; counterexample/simulated/random histories replayed on real servers and validated by KReplTrace",
}
def run(tier, replay):
    _repl.run_property(PID, tier, replay, META, "converge", sorted(glob.glob("/verif/spec/witness/C08-*.ndjson")))
