"""C01 - Search returns exactly the matching entries, whatever is indexed."""
import json
from concurrent.futures import ThreadPoolExecutor
from kv import lib
from kv.checks import filter_common as fc

PID = "C01"
META = {
    "level": "model_checking",
    "text": "TLC checks the arm-by-arm transcription of resolve/anchor/optimise/filter2idl/search (L2, the code as repaired by commit "
            "b91e119; the pre-repair transcription is kept and its divergences are replayed as regression witnesses) against the boolean reference "
            "semantics Match (L1) for every filter of depth<=2/width<=2 over the model alphabet, wrapped and raw, under the stated "
            "index layouts and databases; cases chosen by TLC, every depth<=1 filter and seeded random deeper/wider filters are run "
            "through the real QueryServer (internal_search cold/warm, internal_exists, raw filter2idl) under overridden index "
            "metadata, and every real answer is judged by Match evaluated in TLC on the entries read back from the server.",
    "note": "exhaustive within: 5 leaves (quick) / 6 leaves and the 11-leaf alphabet at depth 1 (thorough), 4 / 32 index layouts, "
            "the 16 entry shapes over 2 attributes x 2 values; depth 3 and beyond sampled. The real population has a single-valued "
            "ordered attribute (no multi-valued one is shipped). Trusted: TLC, the in-lib accessor that swaps the backend index "
            "metadata and reindexes, index tables mirroring entries (C03).",
    "design_ref": "DESIGN.md section 6, C01",
    "technique": "TLA+ operator spec (KFilter) model-checked exhaustively by sharded TLC; TLC-chosen and random cases replayed on a real "
                 "server, observations validated by the TLC trace spec KFilterTrace",
}


def run(tier, replay):
    R = lib.Result(PID, tier, "model_checking")
    wd = lib.workdir(PID)
    lib.build(fc.GROUP)
    quick = tier == "quick"
    # (1) exhaustive: transcription (L2) vs reference semantics (L1) in the model, sharded over processes;
    #     runs in the background while the first batch of real observations is produced and judged
    # a replay only re-judges the given observations: one small model shard keeps the run short
    shards = [fc.shard("r16", [16], depth=1, leaf="full")] if replay else fc.filter_shards(tier)
    pool = ThreadPoolExecutor(max_workers=1)
    mcf = pool.submit(fc.run_mc, PID, "KFilterMC", fc.MC_TEMPLATE, shards, 4 if quick else 8,
                      600 if quick else 2400, lib.seed())
    # (2) the real code, batch 1: every depth<=1 filter and seeded random filters (B)
    obs = f"{wd}/obs.ndjson"
    if replay:
        lib.kverif(fc.GROUP, ["c01", "--out", obs, "--replay", replay])
    else:
        lib.kverif(fc.GROUP, ["c01", "--out", obs, "--seed", lib.seed(),
                              "--layouts", "16,17" if quick else "16,17,4,22,1,6,11,28",
                              "--random", 1200 if quick else 24000, "--random-groups", 4 if quick else 24,
                              "--depth", 4 if quick else 5, "--width", 3 if quick else 4])
    lines = lib.read_lines(obs)
    l1, drift, chunks, tstates = fc.validate_parallel(PID, "KFilterTrace", lines, 2 if quick else 6, 1500, tag="a")
    try:
        mcs, cases, census = mcf.result()
    except lib.ToolError as e:
        lib.tool_error(str(e))
    states = sum(m["distinct"] for m in mcs)
    trans = sum(m["generated"] for m in mcs)
    tot = [sum(c[1][i] for c in census) for i in range(9)]
    if tot[3] != 0:
        lib.tool_error("model: the pre-repair transcription diverges outside its two signed classes (CENSUS unexplained > 0)")
    # vacuity guards: both defect classes and the candidate-set classes are reached in the model
    if not replay and (tot[1] == 0 or tot[5] == 0 or tot[6] == 0 or tot[8] == 0 or (not quick and tot[7] == 0)):
        lib.tool_error(f"model census is vacuous: {tot}")
    # (3) the real code, batch 2: the cases TLC chose (one per outcome class + counterexamples) (A)
    if not replay and cases:
        cf, obs2 = f"{wd}/cases.ndjson", f"{wd}/obs_cases.ndjson"
        with open(cf, "w") as f:
            for c in cases:
                f.write(json.dumps(c) + "\n")
        lib.kverif(fc.GROUP, ["c01", "--out", obs2, "--cases", cf, "--no-depth1", "--case-groups", 8 if quick else 40])
        lines2 = lib.read_lines(obs2)
        l1b, driftb, chunksb, ts2 = fc.validate_parallel(PID, "KFilterTrace", lines2, 1 if quick else 4, 1500, tag="b")
        off = len(chunks)
        l1 += [(ci + off, t) for ci, t in l1b]
        drift += [(ci + off, t) for ci, t in driftb]
        chunks += chunksb
        lines += lines2
        tstates += ts2
    for ci, t in l1:
        if t[1] != PID:
            continue
        ln, sig = t[2], t[3]
        rec = json.loads(chunks[ci][ln - 1])
        R.violation(f"{sig} w={int(rec['w'])} f={fc.compact(rec['f'])}",
                    f"search for {fc.compact(rec['f'])} ({'filter!' if rec['w'] else 'filter_all!'}) returned {rec['res']} others={rec['ro']} "
                    f"err='{rec['rerr']}' exists={rec['ex']} (candidate set {rec['ik']}); the boolean semantics disagrees [{sig}]",
                    fc.replay_context(chunks[ci], ln))
    searches = [l for l in lines if l.startswith('{"a":"search"')]
    kinds, errs = {}, 0
    for l in searches:
        r = json.loads(l)
        kinds[r["ik"]] = kinds.get(r["ik"], 0) + 1
        errs += 1 if r["rerr"] else 0
    if not replay and (len(searches) < 500 or len(kinds) < 3):
        lib.tool_error(f"driver produced too few / too uniform observations: {len(searches)} {kinds}")
    R.coverage = {
        "states": states, "transitions": trans,
        "traces_validated_against_impl": len(searches),
        "samples": lib.sample(searches),
        "exhaustive": True,
        "l2_drift": len([d for d in drift if d[1][1] == PID]),
        "model_census": {"states": tot[0], "pre_repair_diverging_andnot_isolated": tot[1], "pre_repair_diverging_andnot_partial": tot[2],
                         "pre_repair_diverging_unexplained": tot[3], "with_pre_repair_defect_signature": tot[4],
                         "allids": tot[5], "partial": tot[6], "partial_threshold": tot[7], "indexed": tot[8]},
        "mc_shards": [c[0] for c in census],
        "tlc_cases_replayed": len(cases),
        "observed_candidate_classes": kinds,
        "observed_errors": errs,
        "observed_l1_failures": len([1 for _, t in l1 if t[1] == PID]),
        "server_groups": len([l for l in lines if l.startswith('{"a":"reset"')]),
        "trace_states": tstates,
        "rule": "model: every (filter, wrapper, index layout, database) of the bounded space is one TLC state, the L2 search (repaired code) must "
                "equal the Match scan everywhere, the pre-repair L2 may differ only in its two signed classes (those states are replayed as "
                "regression witnesses); implementation: every "
                "logged search / exists result of the real server is compared by TLC with Match on the logged entries",
    }
    R.assumptions = ["index tables mirror the stored entries (C03)",
                     "entries outside the model population carry neither model attribute and are live (checked by the driver at every snapshot)",
                     "the real ordered attribute is single-valued (shipped schema); multi-valued ordered values are covered in the model only",
                     "filter-test threshold is the shipped constant 0 on the real code; thresholds 1 and 2 are covered in the model only (thorough)"]
    R.finish()
