"""C29 - TOTP accepts exactly the current and previous code."""
import json, hmac, hashlib, struct, random
from kv import lib

PID = "C29"
META = {
    "level": "model_checking",
    "text": "TLC checks the window arithmetic of Totp::verify (integer division, counter and counter-1) against the property "
            "(the step containing the time, or the one before) for every step/time/candidate-counter combination of the bounded model; "
            "every model case is concretised (real steps >= 30 s, times near the epoch and near 1.7e9, secrets of 0-200 bytes, "
            "SHA1/256/512, 6/8 digits) and run through the real Totp::verify, and the TLA+ window rule judges each real verdict. "
            "The digest part (HMAC, dynamic truncation) is exploration: random secrets/times and every code in a numeric neighbourhood, "
            "compared through the same trace spec against code tables computed by an independent RFC 6238 implementation.",
    "note": "the value Code(k) of a counter is abstract in TLA+ and concretised by the independent RFC 6238 implementation in this "
            "file (python hmac/hashlib, dynamic truncation): that implementation, not TLA+, carries the HMAC fidelity; the window "
            "arithmetic is exhaustive for Step in {2,3}, t in Step..5*Step, codes of counters 0..6 + junk; times below one step are "
            "outside the property",
    "design_ref": "DESIGN.md section 6, C29",
    "technique": "TLA+ window spec (KAuthTotp) model-checked by TLC; model cases concretised with an independent RFC 6238 oracle and replayed on Totp::verify; TLC trace validation",
}

ALGOS = {"sha1": (hashlib.sha1, 64), "sha256": (hashlib.sha256, 64), "sha512": (hashlib.sha512, 128)}


def rfc6238(secret: bytes, counter: int, algo: str, digits: int) -> int:
    """HOTP value (RFC 4226 5.3 dynamic truncation) of `counter`; TOTP = HOTP(floor(t/step)) is NOT applied here:
    the TLA+ spec decides which counters matter."""
    mac = hmac.new(secret, struct.pack(">Q", counter), ALGOS[algo][0]).digest()
    off = mac[-1] & 0x0F
    binv = struct.unpack(">I", mac[off:off + 4])[0] & 0x7FFFFFFF
    return binv % (10 ** digits)


def selftest():
    # RFC 6238 appendix B vectors (8 digits)
    s1 = b"12345678901234567890"
    s256 = b"12345678901234567890123456789012"
    s512 = b"1234567890123456789012345678901234567890123456789012345678901234"
    assert rfc6238(s1, 59 // 30, "sha1", 8) == 94287082
    assert rfc6238(s256, 59 // 30, "sha256", 8) == 46119246
    assert rfc6238(s512, 59 // 30, "sha512", 8) == 90693936
    assert rfc6238(s1, 1111111109 // 30, "sha1", 8) == 7081804
    assert rfc6238(s512, 20000000000 // 30, "sha512", 8) == 47863826


SECRET_LENS = [0, 1, 10, 16, 20, 32, 63, 64, 65, 100, 127, 128, 129, 200]


def mk_case(rng, cid, kind, secret, algo, digits, step, t, code, around):
    k0 = max(0, around - 4)
    codes = [rfc6238(secret, k, algo, digits) for k in range(k0, around + 5)]
    return {"id": cid, "kind": kind, "secret": secret.hex(), "klen": len(secret), "algo": algo, "digits": digits,
            "step": step, "t": t, "code": code, "k0": k0, "codes": codes}


def gen_cases(model_cases, tier, seed):
    rng = random.Random(seed)
    quick = tier == "quick"
    out = []
    cid = 0
    combos = [(a, d) for a in ALGOS for d in (6, 8)]
    # (A) every model case, concretised
    reps = 1 if quick else 4
    for (S, t, c) in model_cases:
        q, r = t // S, t % S            # position of the model time inside its step (input generation only)
        for rep in range(reps):
            for (algo, digits) in combos:
                step = rng.choice([30, 30, 60, 31, 45, 97, 300, 3600])
                klen = rng.choice(SECRET_LENS) if rng.random() < 0.6 else rng.randint(0, 200)
                secret = bytes(rng.getrandbits(8) for _ in range(klen))
                rr = 0 if r == 0 else (step - 1 if r == S - 1 else rng.randint(1, step - 2))
                for base in ((0,) if (rep % 2 == 0) else (rng.randint(min(10 ** 6, 1_700_000_000 // step // 2), 1_700_000_000 // step),)):
                    counter = base + q
                    tt = counter * step + rr
                    if tt > 2_100_000_000:
                        continue
                    if c < 0:
                        code = rng.randrange(10 ** digits)
                    else:
                        kk = base + c   # model counter c -> real counter
                        code = rfc6238(secret, kk, algo, digits)
                    cid += 1
                    out.append(mk_case(rng, cid, "model", secret, algo, digits, step, tt, code, counter))
    # (B) exploration: random configurations, every code in a numeric neighbourhood of current/previous
    n_rand = 60 if quick else 600
    for _ in range(n_rand):
        algo, digits = rng.choice(combos)
        step = rng.choice([30, 60]) if rng.random() < 0.5 else rng.randint(30, 7200)
        klen = rng.choice(SECRET_LENS) if rng.random() < 0.5 else rng.randint(0, 200)
        secret = bytes(rng.getrandbits(8) for _ in range(klen))
        tt = rng.randint(step, 2_000_000_000)
        if rng.random() < 0.3:
            tt = (tt // step) * step + rng.choice([0, step - 1])
        counter = tt // step
        mod = 10 ** digits
        cands = set()
        for k in (counter - 2, counter - 1, counter, counter + 1):
            if k >= 0:
                v = rfc6238(secret, k, algo, digits)
                for d in (-2, -1, 0, 1, 2):
                    cands.add((v + d) % mod)
        cands.add(rng.randrange(mod))
        for code in sorted(cands):
            cid += 1
            out.append(mk_case(rng, cid, "nbr", secret, algo, digits, step, tt, code, counter))
    return out


def run(tier, replay):
    selftest()
    R = lib.Result(PID, tier, META["level"])
    wd = lib.workdir(PID)
    lib.build("auth")
    # (1) window arithmetic, exhaustively, in the model; the run also prints every state as a CASE
    mc = lib.tlc("KAuthTotpMC", cfg="KAuthTotpMC", pid=PID, workers=1, timeout=600)
    lib.tlc_must_pass(mc, "window arithmetic L2 vs L1")
    for cfg in ("KAuthTotpMCReach1", "KAuthTotpMCReach2"):
        g = lib.tlc("KAuthTotpMC", cfg=cfg, pid=PID, workers=1, timeout=300)
        if not g["violated"]:
            lib.tool_error(f"vacuity guard {cfg} not reachable (log {g['log']})")
    model_cases = sorted(set((t[1], t[2], t[3]) for t in mc["tuples"] if t[0] == "CASE"))
    if len(model_cases) != mc["distinct"]:
        lib.tool_error(f"expected one CASE per model state, got {len(model_cases)} for {mc['distinct']} states")
    cases = f"{wd}/cases.ndjson"
    obs = f"{wd}/obs.ndjson"
    if replay:
        src = [json.loads(l) for l in lib.read_lines(replay)]
        with open(cases, "w") as f:
            for c in src:
                # recompute the oracle table: never trust a table stored in a replay file
                secret = bytes.fromhex(c["secret"])
                c["codes"] = [rfc6238(secret, k, c["algo"], c["digits"]) for k in range(c["k0"], c["k0"] + len(c["codes"]))]
                for k in ("res", "cls", "a"):
                    c.pop(k, None)
                f.write(json.dumps(c) + "\n")
    else:
        cs = gen_cases(model_cases, tier, lib.seed())
        with open(cases, "w") as f:
            for c in cs:
                f.write(json.dumps(c) + "\n")
    lib.kverif("auth", ["c29", "--cases", cases, "--out", obs])
    tv = lib.trace_validate("KAuthTotpTrace", obs, PID, timeout=1500)
    if any(t[0] == "BADTABLE" for t in tv["tuples"]):
        lib.tool_error("oracle table does not cover the step of a case")
    lines = lib.read_lines(obs)
    recs = [json.loads(l) for l in lines]
    for t in tv["l1fail"]:
        ln, kind = t[2], t[3]
        r = recs[ln - 1]
        block = ALGOS[r["algo"]][1]
        if r["klen"] > block:
            sig = f"{kind} algo={r['algo']} key-longer-than-block klen={r['klen']}"
        else:
            sig = f"{kind} algo={r['algo']} digits={r['digits']} klen={r['klen']} step={r['step']} t={r['t']} code={r['code']}"
        R.violation(sig, f"Totp::verify {r['cls']}s code {r['code']} at t={r['t']} step={r['step']} ({r['algo']}, {r['digits']} digits, "
                         f"{r['klen']}-byte secret) but RFC 6238 codes of the surrounding counters from {r['k0']} are {r['codes']}",
                    [lines[ln - 1]])
    acc = sum(1 for r in recs if r["res"] == 1)
    combos = sorted(set((r["algo"], r["digits"]) for r in recs))
    R.coverage = {
        "states": mc["distinct"], "transitions": mc["generated"],
        "traces_validated_against_impl": len(lines),
        "model_cases": len(model_cases),
        "model_case_replays": sum(1 for r in recs if r["kind"] == "model"),
        "exploration_evaluations": sum(1 for r in recs if r["kind"] == "nbr"),
        "accepted": acc, "rejected": len(recs) - acc,
        "panics": sum(1 for r in recs if r["cls"] == "panic"),
        "algo_digit_combinations": [f"{a}/{d}" for a, d in combos],
        "secret_lengths": sorted(set(r["klen"] for r in recs))[:40],
        "samples": lib.sample(lines),
        "l2_drift": len(tv["drift"]),
        "exploration_part": "digest agreement (HMAC + truncation) is sampled: random secrets/steps/times, all codes within +-2 of the "
                            "RFC codes of counters c-2..c+1; the window arithmetic is exhaustive in the model",
        "rule": "each model state (step, time, candidate counter) is replayed with concrete secrets; the TLA+ window rule with the "
                "RFC 6238 table decides every real verdict",
    }
    R.assumptions = ["Code(k) is concretised by the independent RFC 6238 implementation in kv/checks/C29.py (self-tested on the RFC's vectors)",
                     "times >= one step (the property's domain); whole seconds"]
    R.finish()
