"""C34 - Revoked keys never verify."""
import json
from kv import lib
from kv.checks import tokcommon

PID = "C34"
META = {
    "level": "model_checking",
    "text": "TLC explores the transcription of the key object (stored key map + in-memory signer map keyed by valid_from, "
            "rotate / revoke / assert / load, plugin stage-then-store, reload at commit, restart, valueset merge AND trim of old "
            "revoked keys on replication, with the status change id of every key) "
            "on one and two replicas against the statement (revoked never verifies again, signatures use a newest started "
            "non-revoked key, unrevoked keys keep verifying, nothing is un-revoked); the scenarios derived from the model's "
            "counterexample for a stale signer map plus seeded random histories run on two REAL servers (one restarted on its "
            "database file, one a replica) over the domain key object and a stand-alone key object for es256 / hs256 / rs256 / "
            "jwe, through key_action_rotate / key_action_revoke, the loaded key objects, real login and API tokens; every sign, "
            "verify, restart and replication is judged in TLA+.",
    "note": "exhaustive within <=3 keys (1 replica) / <=2 keys (2 replicas), time 0..2, one usage (usages are independent in the "
            "code); hkdf keys are not covered (no verifiable artefact); trusted: TLC, the key_produce / key_consume accessors "
            "that call the loaded KeyObject exactly as the token paths do",
    "design_ref": "DESIGN.md section 6, C34",
    "technique": "TLA+ state machine (KKeys) model-checked by TLC; counterexample-derived scenarios and random histories replayed on two real servers and validated by a TLC trace spec",
}


def run(tier, replay):
    R = lib.Result(PID, tier, META["level"])
    wd = lib.workdir(PID)
    lib.build(tokcommon.GROUP)
    quick = tier == "quick"
    cfgs = ["KKeysMC", "KKeysMC1q"] if quick else ["KKeysMC", "KKeysMC1q", "KKeysMC1b", "KKeysMC3", "KKeysMC2"]
    states, trans, per = tokcommon.mc_runs("KKeysMC", cfgs, PID, 4 if quick else 8, 300 if quick else 2400)
    hyp = None
    if not quick:
        # the DESIGN section 8 hypothesis, in the model only: without the reload at commit the signer map goes stale
        h = lib.tlc("KKeysMC", cfg="KKeysHyp", pid=PID, workers=4, timeout=600)
        if h["error"]:
            lib.tool_error("KKeysHyp run failed")
        hyp = bool(h["violated"])
        # seeded hypothesis in the model only: a revocation that keeps the key's old status change id is trimmed by the merge
        h2 = lib.tlc("KKeysMC", cfg="KKeysHyp2", pid=PID, workers=4, timeout=900)
        if h2["error"] or not h2["violated"]:
            lib.tool_error("KKeysHyp2: the model without revocation stamping is no longer rejected")
    obs = f"{wd}/obs.ndjson"
    db = f"{wd}/keys.db"
    if replay:
        lib.kverif(tokcommon.GROUP, ["keys", "--out", obs, "--db", db, "--replay", replay])
    else:
        args = ["keys", "--out", obs, "--db", db, "--scenarios", "--random", 3 if quick else 60,
                "--len", 30 if quick else 50, "--seed", lib.seed()]
        if not quick:
            args.append("--rs256")
        lib.kverif(tokcommon.GROUP, args, timeout=3000)
    tv = lib.trace_validate("KKeysTrace", obs, PID, timeout=2400, xmx="8g")
    lines = lib.read_lines(obs)
    parsed = [json.loads(l) for l in lines]
    for t in tv["l1fail"]:
        ln, sig = t[2], t[3]
        rec = parsed[ln - 1]
        R.violation(sig, f"line {ln}: {json.dumps({k: rec[k] for k in rec if k != 'st'})}", tokcommon.history_upto(lines, ln))
    st_hits = None
    if not replay and not R.violations:
        def mutate(ps):
            for i, r in enumerate(ps):
                if r["a"] == "verify" and "Revoked" in r["res"]:
                    j = i
                    while ps[j]["a"] != "reset":
                        j -= 1
                    out = [dict(x) for x in ps[j:i + 1]]
                    out[-1]["res"] = "ok"
                    return out
            return None
        st_hits = tokcommon.selftest("KKeysTrace", PID, lines, mutate, PID)
    cnt = {}
    for r in parsed:
        k = r["a"] + ":" + ("ok" if r.get("res") == "ok" else ("-" if "res" not in r else "err"))
        cnt[k] = cnt.get(k, 0) + 1
    same_second = 0
    for r in parsed:
        if r["a"] == "rotate" and r.get("res") == "ok":
            ks = r["st"][r["srv"]][r["obj"]]
            vfs = [v["vf"] for v in ks.values() if v["u"] == "es256" and v["st"] == "valid"]
            if len(vfs) != len(set(vfs)):
                same_second += 1
    R.coverage = {
        "states": states, "transitions": trans, "mc_configs": per,
        "traces_validated_against_impl": sum(1 for r in parsed if r["a"] == "reset"),
        "observed_lines": len(lines), "line_counts": cnt,
        "verifications_of_revoked_keys": sum(1 for r in parsed if r["a"] == "verify" and "Revoked" in r["res"]),
        "rotations_sharing_a_valid_from": same_second,
        "usages": sorted({r["u"] for r in parsed if r["a"] == "sign"}),
        "sign_via": sorted({r.get("via", "key_object") for r in parsed if r["a"] == "sign"}),
        "hypothesis_counterexample_in_model_without_reload": hyp,
        "l2_drift": len(tv["drift"]), "first_drift_lines": [t[2] for t in tv["drift"][:5]],
        "binding_selftest_rejections": st_hits,
        "samples": lib.sample([l for l in lines if '"st"' not in l] or lines),
    }
    R.assumptions = [
        "sign / verify call the loaded KeyObject of the server (get_key_object_handle) as the token paths do; login and API tokens go through the IdmServer",
        "reload = the server is dropped and the database FILE is opened again; replicate = consumer_get_state / supplier_provide_changes / consumer_apply_changes between the two servers",
        "keys ever seen revoked are tracked per server from the stored key set projected after every change",
        "hkdf_s256 keys are not covered",
    ]
    R.finish()
