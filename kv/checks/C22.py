"""C22 - SPNs are always name@domain."""
import json
from kv import lib
from kv import dirsrv_common as dc

PID = "C22"
META = {
    "level": "model_checking",
    "text": "TLC explores a transcription of kanidm's spn plugin (generation in pre-create / pre-modify from the transaction's "
            "domain name, regeneration over every live entry when the domain entry's domain_name changes, recycled entries fixed "
            "by the revive's modify path, name uniqueness refusals) against 'every live account or group has exactly one spn = "
            "name@current domain'; sampled model behaviours are replayed on a real server and seeded random histories of creates, "
            "renames (persons, groups, service accounts, dynamic groups, OAuth2 clients), domain renames, deletes and revives are "
            "recorded; after every commit every projected live account/group - and after every domain rename, reset and 25th step "
            "EVERY live account or group of the database - is judged by the TLA+ predicate.",
    "note": "current domain = stored domain_name of the domain entry; model bound 3 entries, 3 names, 2 domains, 5 (quick) / 7 "
            "(thorough) edits; single server",
    "design_ref": "DESIGN.md section 6, C22",
    "technique": "TLA+ transcription of the spn plugin model-checked by TLC; replay of model behaviours and trace validation of random histories with domain renames on the real server",
}


def run(tier, replay):
    R = lib.Result(PID, tier, META["level"])
    wd = lib.workdir(PID)
    lib.build(dc.GROUP)
    quick = tier == "quick"
    res, cex, beh = dc.mc("KSpnMC", "KSpnMC" if quick else "KSpnMCt", PID, 1, 3000, kinds=(1, 2, 3, 4, 5, 6))
    parts = []
    replayed = 0
    if replay:
        parts.append(dc.hist_replay(f"{wd}/replay-obs.ndjson", replay))
    else:
        hs = [dc.triples(t) for t in cex[:200]] + [dc.triples(t) for t in beh[:: max(1, len(beh) // (60 if quick else 600))]]
        replayed = len(hs)
        dc.write_replay(f"{wd}/model-histories.ndjson", [dc.ops_c22(h) for h in hs])
        parts.append(dc.hist_replay(f"{wd}/obs-model.ndjson", f"{wd}/model-histories.ndjson"))
        parts.append(dc.hist(PID, f"{wd}/obs-hist.ndjson", "C22", 8 if quick else 60, 60 if quick else 200))
        parts.append(dc.hist(PID, f"{wd}/obs-mixed.ndjson", "mixed", 3 if quick else 20, 50 if quick else 150, seed_off=1))
    obs = dc.concat(f"{wd}/obs.ndjson", parts)
    tv, lines = dc.validate_sharded("KSpnTrace", obs, PID, wd, shard=6000, timeout=2400)
    cnt = dc.judge(R, PID, tv, lines, "a live account or group does not have exactly one spn equal to name@domain")
    full = judged = renames = 0
    doms = set()
    for l in lines:
        r = json.loads(l)
        st = r["st"]
        doms.add(st["domattr"])
        full += 1 if st["spnx"] else 0
        judged += len(st["spnx"]) + sum(1 for e in st["e"].values() if e["lv"] == "live" and (e["acct"] or e["isg"]))
        renames += 1 if r["a"] == "domain_rename" and r["res"] == "ok" else 0
    R.coverage = {
        "states": res["distinct"], "transitions": res["generated"],
        "model_counterexamples": len(cex), "model_behaviours_sampled": len(beh), "model_histories_replayed": replayed,
        "traces_validated_against_impl": sum(1 for l in lines if '"a":"reset"' in l),
        "observed_states_judged": len(lines), "full_database_states": full, "entry_spn_judgements": judged,
        "domain_renames": renames, "domains_seen": sorted(doms),
        "samples": dc.samples(lines),
        "l2_drift": len(tv["drift"]), "l2_drift_first": tv["drift"][:3],
        "l1": cnt, "ops": dc.op_counts(lines),
        "rule": "every observed state: every live entry with class account or group has exactly one name n and exactly one spn = n@domain_name "
                "(TLA+ KSpnTrace!OkEntry)",
    }
    R.assumptions = ["single server; trust-domain spns do not exist in this code base"]
    R.finish()
