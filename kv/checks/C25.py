"""C25 - Default roles cannot act on high-privilege accounts."""
import json, os
from kv import lib

PID = "C25"
META = {
    "level": "model_checking",
    "text": "The access-control configuration is not invented: `kv-access acp-extract` starts a fresh default server on the tree under test "
            "and writes every shipped profile (receiver groups, target filter AST, attribute/class sets), the built-in group graph and the "
            "target entries; TLC enumerates every subset of the built-in role groups that do not lead into idm_high_privilege (plus every "
            "single role and role pairs as a vacuity guard) against every target and checks that the transcribed modify decision grants no "
            "credential-, session-, detail- or membership-bearing attribute of a high-privilege target, and that grants are monotone in "
            "membership. The same role sets are then lived on a REAL default server: a real user is placed in the groups and attempts real "
            "modifies of every sensitive attribute on admin, idm_admin, a person, a service account and a group placed in the HP group, "
            "idm_admins and the HP group itself; TLC judges every observed result and requires the model to predict it.",
    "note": "exhaustive over all 2^k subsets of the k non-HP built-in role groups in the model (k is measured, 6 on this tree); on the real "
            "server subsets up to size 2 + the full set (quick) / all subsets (thorough). The extractor and the sensitive-attribute list "
            "(KAccessDef!SensAcct, 'member' for groups) are trusted inputs; the extraction is cross-checked by the replay (an unexplained "
            "success or a wrong membership closure is drift). Delegated (non-HP entry manager) targets are excluded as the statement says.",
    "design_ref": "DESIGN.md section 6, C25",
    "technique": "TLC enumeration of role subsets over the extracted default ACP set; trace validation of real modify attempts on a default server",
}
ARMS = {"hp-filter-decides", "hp-free-user-checked-on-hp-target", "hp-user-can-change-hp-target", "hp-user-can-change-ordinary-target"}


def run(tier, replay):
    R = lib.Result(PID, tier, META["level"])
    wd = lib.workdir(PID)
    lib.build("access")
    # (1) extract the shipped configuration from the tree under test (regenerated on every run)
    defacp = f"{wd}/defacp.json"
    if os.path.exists(defacp):
        os.remove(defacp)
    lib.kverif("access", ["acp-extract", "--out", defacp])
    d = json.loads(lib.read_lines(defacp)[0])
    # (2) exhaustive enumeration of role subsets over the extracted data
    mc = lib.tlc("KAccessDefMC", cfg="KAccessDefMC", pid=PID, workers=4, timeout=1800, env={"DEFACP": defacp})
    # A violation of Inv on the extracted data is a counterexample of the MODEL: a hypothesis about the tree under test.
    # It is never an alarm by itself; the replay below lives the role sets on the real server and L1 judges the observations.
    model_cex = mc["violated"] == ["Inv"] and not mc["error"]
    if not model_cex:
        lib.tlc_must_pass(mc, "KAccessDefMC: no sensitive grant on high-privilege targets for users outside HP; monotonicity; known filter constructs")
        arms = {t[1] for t in mc["tuples"] if t[0] == "ARM"}
        if arms != ARMS:
            lib.tool_error(f"vacuity guard: arms not exercised by the exhaustive run: {sorted(ARMS - arms)}")
    else:
        print("[C25] the exhaustive model run found a grant on a high-privilege target for a user outside HP; replaying on the real server")
    # (3) the role sets on a real default server
    obs = f"{wd}/obs.ndjson"
    if replay:
        lib.kverif("access", ["c25", "--out", obs, "--replay", replay])
    else:
        sub, hp = (2, 6) if tier == "quick" and not model_cex else (99, 40)
        lib.kverif("access", ["c25", "--out", obs, "--subsets", sub, "--hproles", hp, "--seed", lib.seed()], timeout=3000)
    tv = lib.trace_validate("KAccessDefTrace", obs, PID, timeout=3000)
    lines = lib.read_lines(obs)
    recs = [json.loads(l) for l in lines]
    for t in tv["l1fail"]:
        ln, sig = t[2], t[3]
        r = recs[ln - 1]
        names = [d["names"].get(x, x) for x in r["roles"]]
        R.violation(f"{sig} target={r['t']} attr={','.join(sorted(m['a'] for m in r['ml']))} roles={','.join(sorted(names))}",
                    f"user in role groups {names} (not high-privilege) changed {json.dumps(r['ml'])} on high-privilege target {r['t']}",
                    [lines[ln - 1]])
    ops = [r for r in recs if r["a"] == "op"]
    hpfree = [r for r in ops if d["hp"] not in r["id"]["mo"]]
    by = {}
    for r in ops:
        k = r["res"] if r["res"] in ("ok", "denied", "nomatch", "panic") else "error_after_access"
        by[k] = by.get(k, 0) + 1
    rolesets = {tuple(r["roles"]) for r in ops}
    R.coverage = {
        "states": mc["distinct"], "transitions": mc["generated"],
        "traces_validated_against_impl": len(ops),
        "samples": lib.sample([l for l, r in zip(lines, recs) if r["a"] == "op"]),
        "l2_drift": len(tv["drift"]),
        "first_drift_line": tv["drift"][0][2] if tv["drift"] else None,
        "extracted_profiles": len(d["acps"]), "extracted_modify_profiles": sum(1 for p in d["acps"] if p["mod"]),
        "builtin_role_groups": len(d["roles"]), "non_hp_role_groups": sorted(d["names"][x] for x in d["nonhp"]),
        "role_sets_lived_on_real_server": len(rolesets),
        "attempts_by_users_outside_hp": len(hpfree),
        "attempts_on_hp_targets_by_users_outside_hp": sum(1 for r in hpfree if r["t"] in d["thp"]),
        "results": by,
        "successes_by_hp_users": sum(1 for r in ops if r["res"] == "ok" and d["hp"] in r["id"]["mo"]),
        "model_arms_exercised": sorted(ARMS),
        "model_counterexample": model_cex,
        "model_counterexample_reproduced_on_real_server": bool(model_cex and tv["l1fail"]),
        "rule": "model: every (role subset, target) is a state; real server: every attempt is a validated trace line",
    }
    R.assumptions = ["the extracted configuration is that of the tree under test at the target domain level (regenerated each run)",
                     "sensitive attributes are those listed in KAccessDef (credentials, sessions, account details; member for groups)"]
    R.finish()
