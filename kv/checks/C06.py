"""C06 - Read transactions see one consistent committed state."""
import json
from kv import lib
from kv.checks import txn_common

PID = "C06"
META = {
    "level": "model_checking",
    "text": "TLC explores every interleaving of the reader's snapshot-acquisition steps (IdmServer::proxy_read -> "
            "QueryServer::read -> Backend::read -> IdlArcSqlite::read, SQLite snapshot fixed at the first statement) with the "
            "writer's publication steps (IDM commit -> QueryServer commit -> backend commit), at the granularity of the H3 pause "
            "points and, model-only, of the individual statements, and returns every reachable snapshot vector. Witness "
            "schedules for every distinct vector of probe versions, plus the two 'atomic' families (whole reader between any two "
            "writer steps, whole writer between any two reader steps), are replayed on a real file-backed server (pool 4) with "
            "two OS threads and the pause controller; the reader evaluates eight probes (schema, domain name, access decision, OAuth2 "
            "client, a cached entry, an uncached entry, name lookup, index search) twice; TLC judges each observation with L1 "
            "(one version everywhere, repeatable) and checks that the step model explains it.",
    "note": "schedules are exhaustive in the model (one reader, one committing writer); on the real code one to a few witness "
            "schedules per reachable vector are replayed; vectors that need a pause inside a struct literal or a method chain "
            "are model-only (hooks are add-only statements). Trusted: TLC, the H3 pause dispatcher, concread's snapshot "
            "contract. Three genuine defects are reproduced and listed as known findings (signatures carry the commit order observed).",
    "design_ref": "DESIGN.md section 6, C06",
    "technique": "TLA+ interleaving model (KTxn section C) exhaustively explored by TLC; witness schedule per reachable snapshot "
                 "vector replayed on the real server through hook H3 pause points, observations validated by a TLC trace spec",
}

PROBES = ["sch", "dn", "acp", "oa", "ea", "eb", "n2u", "idx"]


def aspects(o1, o2, order):
    rr = ("ok" if o1 == o2 else "fail") + (" ord=sf" if order == "storage_first" else " ord=pf")
    cfg = [o1[k] for k in ("sch", "dn", "acp", "oa")]
    data = [o1[k] for k in ("ea", "eb", "n2u", "idx")]
    out = []
    if len(set(data)) > 1:
        out.append((f"data-mixed ea={o1['ea']} eb={o1['eb']} n2u={o1['n2u']} idx={o1['idx']} rr={rr}",
                    "entries / lookups of different versions inside one read transaction"))
    if len(set(cfg)) > 1:
        out.append((f"config-mixed sch={o1['sch']} dn={o1['dn']} acp={o1['acp']} oa={o1['oa']} rr={rr}",
                    "server-wide settings of different versions inside one read transaction"))
    if len(set(cfg)) == 1 and len(set(data)) == 1 and cfg[0] != data[0]:
        out.append((f"config-vs-data cfg={cfg[0]} data={data[0]} rr={rr}",
                    "settings of one version with data of the other inside one read transaction"))
    if not out:
        out.append((f"not-repeatable o1={''.join(str(o1[p]) for p in PROBES)} o2={''.join(str(o2[p]) for p in PROBES)}",
                    "the same query answered differently inside one read transaction"))
    return out


def pick(scheds, n):
    """n witnesses spread over the list (deterministic): shortest, longest, evenly spaced."""
    s = sorted(set(scheds), key=lambda x: (len(x), x))
    if len(s) <= n:
        return s
    step = (len(s) - 1) / (n - 1) if n > 1 else 0
    return [s[round(i * step)] for i in range(n)] if n > 1 else [s[0]]


def run(tier, replay):
    R = lib.Result(PID, tier, META["level"])
    wd = lib.workdir(PID)
    lib.build("txn")
    quick = tier == "quick"
    order, sfx, order_labels = txn_common.commit_order()
    mc = lib.tlc("KTxnSnapMC", cfg="KTxnSnapMC" + sfx, pid=PID, workers=1, timeout=900)
    lib.tlc_must_pass(mc, "KTxnSnapMC: reader/writer interleavings at pause-point granularity")
    fine = lib.tlc("KTxnSnapMC", cfg="KTxnSnapFine" + sfx, pid=PID, workers=1, timeout=900, tag="KTxnSnapFine")
    lib.tlc_must_pass(fine, "KTxnSnapFine: reader/writer interleavings at statement granularity")
    byvec = {}
    for t in mc["tuples"]:
        if t[0] == "SCHED":
            byvec.setdefault(tuple(int(ch) for ch in t[1]), []).append(t[2])
    finevec = set(tuple(int(ch) for ch in t[1]) for t in fine["tuples"] if t[0] == "VEC")
    if len(byvec) < 2:
        lib.tool_error("no witness schedules from KTxnSnapMC")
    obs = f"{wd}/obs.ndjson"
    db = txn_common.dbroot(PID)
    if replay:
        lib.kverif("txn", ["c06", "--out", obs, "--db", db, "--schedules", replay], timeout=3000)
    else:
        # (i) "atomic" families: the whole reader between two writer steps (W^j R^NR, every j) and the whole
        #     writer between two reader steps (R^i W^NW R^(NR-i), every i): every reader step is executed at
        #     every writer position at least once, so a change of either order shows up as a new vector;
        # (ii) per reachable vector, witnesses found by TLC (shortest, longest, evenly spaced in between).
        nr = max(s.count("R") for v in byvec.values() for s in v)
        nw = max(s.count("W") for v in byvec.values() for s in v)
        fam = ["W" * j + "R" * nr for j in range(nw + 1)] + ["R" * i + "W" * nw + "R" * (nr - i) for i in range(nr)]
        allsched = {s: vec for vec, ss in byvec.items() for s in ss}
        chosen = []
        for s in fam:
            if s not in chosen:
                chosen.append(s)
        covered = set(allsched[s] for s in chosen if s in allsched)
        per = 1 if quick else 12
        for vec in sorted(byvec):
            if quick and vec in covered:
                continue
            for s in pick(byvec[vec], per):
                if s not in chosen:
                    chosen.append(s)
        with open(f"{wd}/schedules.ndjson", "w") as f:
            for s in chosen:
                rec = {"s": s}
                if s in allsched:
                    rec["pv"] = dict(zip(PROBES, allsched[s]))
                f.write(json.dumps(rec) + "\n")
        lib.kverif("txn", ["c06", "--out", obs, "--db", db, "--schedules", f"{wd}/schedules.ndjson"], timeout=3000)
    txn_common.cleanup(db)
    tv = lib.trace_validate("KTxnSnapTrace", obs, PID, cfg="KTxnSnapTrace" + sfx, timeout=1800)
    lines = lib.read_lines(obs)
    recs = [json.loads(l) for l in lines]
    for t in tv["l1fail"]:
        ln = t[2] - 1
        r = recs[ln]
        found = []
        if len(set(r["o1"].values())) > 1 or r["o1"] != r["o2"]:
            found += aspects(r["o1"], r["o2"], order)
        if len(set(r["fin"].values())) > 1:
            found.append(("after-commit-mixed " + " ".join(f"{p}={r['fin'][p]}" for p in PROBES),
                          "a reader that began AFTER the writer's commit returned sees " +
                          " ".join(f"{p}={r['fin'][p]}" for p in PROBES) + ": settings and data of different versions"))
        for sig, what in found:
            R.violation(sig, f"schedule {r['s']}: {what}; the reader saw " +
                        " ".join(f"{p}={r['o1'][p]}" for p in PROBES) + f" (raw {r['raw1']})",
                        [json.dumps({"s": r["s"]})])
    seen = {}
    for r in recs:
        v = "".join(str(r["o1"][p]) for p in PROBES)
        seen[v] = seen.get(v, 0) + 1
    R.coverage = {
        "commit_order_of_tree_under_test": order,
        "states": mc["distinct"] + fine["distinct"], "transitions": mc["generated"] + fine["generated"],
        "traces_validated_against_impl": len(recs),
        "samples": [{k: r[k] for k in ("s", "o1", "o2", "raw1")} for r in recs[:1] + recs[len(recs) // 2:len(recs) // 2 + 1] + recs[-1:]],
        "vectors_reachable_in_model_at_pause_granularity": len(byvec),
        "vectors_reachable_in_model_at_statement_granularity": len(finevec),
        "vectors_model_only": sorted("".join(map(str, v)) for v in finevec - set(byvec)),
        "vectors_observed_on_real_code": seen,
        "predicted_equals_observed": len(recs) - len(tv["drift"]),
        "mixed_vectors_observed": sorted(v for v in seen if len(set(v)) > 1),
        "l1_fail_lines": len(tv["l1fail"]),
        "l2_drift": len(tv["drift"]),
        "first_drift_line": (tv["drift"][0][2] if tv["drift"] else None),
        "probe_order": PROBES,
    }
    R.assumptions = [
        "one reader against one committing writer; file-backed database, connection pool 4, domain level 14 (so that the schema "
        "probe is live: from level 1.11 on the schema is compiled in)",
        "a thread released at a pause point runs alone until its next pause point: the replayed interleavings are a subset of "
        "the real ones (a violation observed is real; finer interleavings exist only in the model)",
        "entry A is made resident in the entry cache and entry B is not, so that cache and SQLite snapshots are told apart",
    ]
    R.finish()
