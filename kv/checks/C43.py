"""C43 - PAM fails closed."""
import json
from kv import lib, unixlib

PID = "C43"
META = {
    "level": "model_checking",
    "text": "TLC enumerates every scripted resolver-daemon conversation (continuing replies then one deciding or faulty reply, "
            "length <= 3 quick / 4 thorough, incl. the eight non-authentication replies, undecodable and truncated frames and "
            "disconnects) x module options x the PAM application's answers that matter, and every fallback situation (passwd/shadow "
            "presence x 9 hash kinds x 7 expiry classes incl. 1 s / 12 h / 24 h - 1 s after expiry x typed password x options), and checks the transcription of sm_authenticate_connected / "
            "sm_authenticate_fallback (L2) against the property (L1: SUCCESS only after an explicit daemon Success, or on the "
            "fallback path with a supported hash that verifies and an unexpired account). Every enumerated case runs on the real "
            "pam_sparkle_common core: a real DaemonClientBlocking over a real unix socket to a scripted daemon thread, resp. "
            "passwd/shadow text through the real parsers and CryptPw::check_pw; every real result is judged by the TLA+ property.",
    "note": "core.rs is compiled into the driver from the working tree by #[path] (no repository hook); the libpam FFI glue "
            "(PamHandle, conversation functions) is replaced by a scripted PamHandler; slow faults (client waits for its socket "
            "timeout) and MFAPollWait without preceding MFAPoll are enumerated with default options only; daemon-unreachable "
            "dispatch through sm_authenticate is exercised for an account absent from the sandbox's system files only; hashes of "
            "the known password come from the system libcrypt; trusted: TLC, the scripted daemon / handler",
    "design_ref": "DESIGN.md section 6, C43",
    "technique": "TLA+ operator spec (KUnix.Pam) model-checked by TLC; model-generated conversations replayed over a real unix "
                 "socket through the real PAM core, observations validated by a TLC trace spec",
}


def run(tier, replay):
    R = lib.Result(PID, tier, "model_checking")
    wd = lib.workdir(PID)
    lib.build("unix")
    quick = tier == "quick"
    cfg = "KUnixPamMCq" if quick else "KUnixPamMC"
    mc = lib.tlc("KUnixPamMC", cfg=cfg, pid=PID, workers=4 if quick else 8, timeout=1800)
    lib.tlc_must_pass(mc, f"{cfg}: transcription of the PAM core vs fail-closed property")
    cases = unixlib.cases_from(mc)
    sp = unixlib.space(mc)
    if len(cases) != sp[0] or len(cases) != mc["distinct"]:
        lib.tool_error(f"case extraction incomplete: {len(cases)} cases, model space {sp[0]}")
    obs = f"{wd}/obs.ndjson"
    if replay:
        lib.kverif("unix", ["c43", "--out", obs, "--replay", replay])
        ncases = 0
    else:
        unixlib.write_ndjson(f"{wd}/cases.ndjson", cases)
        lib.kverif("unix", ["c43", "--out", obs, "--cases", f"{wd}/cases.ndjson", "--random", 300 if quick else 5000,
                            "--dispatch", "--seed", lib.seed()], timeout=3000)
        ncases = len(cases)
    tv = lib.trace_validate("KUnixPamTrace", obs, PID, timeout=1800)
    lines = lib.read_lines(obs)
    if not replay and len(lines) < ncases:
        lib.tool_error(f"driver observed {len(lines)} lines for {ncases} model cases")
    for t in tv["l1fail"]:
        rec = json.loads(lines[t[2] - 1])
        if rec["a"] == "pam_fb":
            sig = f"{t[3]} hash={rec['hash']} exp={rec['exp']} typed={rec['typed']} authtok={rec['authtok']} user={rec['user']} shadow={rec['shadow']}"
        else:
            sig = f"{t[3]} script={json.dumps(rec.get('script'))} n={rec.get('n')}"
        R.violation(sig, f"real PAM core returned {rec['res']} for {rec}", [lines[t[2] - 1]])
    byk = {}
    for l in lines:
        r = json.loads(l); byk.setdefault(r["a"], {}); byk[r["a"]][r["res"]] = byk[r["a"]].get(r["res"], 0) + 1
    R.coverage = {
        "states": mc["distinct"], "transitions": mc["generated"],
        "traces_validated_against_impl": len(lines),
        "samples": lib.sample(lines),
        "exhaustive": True,
        "model_cases": len(cases), "model_conversations": sp[1], "model_fallback_cases": sp[2],
        "model_success_cases": {"connected": sp[3], "fallback": sp[4]},
        "model_cases_replayed": ncases, "extra_cases": max(0, len(lines) - ncases),
        "observed_result_counts": byk,
        "l2_drift": len(tv["drift"]),
        "trace_states": tv["distinct"],
        "rule": "every conversation / fallback situation of the model space is one TLC state and one execution of the real PAM core; "
                "judged by KUnix!PamConnL1 / PamFbL1 in TLC",
    }
    R.assumptions = ["the scripted PamHandler stands in for libpam's conversation; prompts answer per fixed mode for a whole call",
                     "crypt(3) hashes of the known password were produced by the system libcrypt",
                     "socket timeouts: 1 s for conversations whose daemon goes away (result independent of its length), 60 s otherwise"]
    R.finish()
