"""C17 - Group membership closure is always exact."""
import json, os
from kv import lib
from kv import dirsrv_common as dc

PID = "C17"
META = {
    "level": "model_checking",
    "text": "TLC explores the transcription of kanidm's memberof fixpoint (apply_memberof / do_group_memberof / "
            "do_leaf_memberof and the create, modify, delete-after-refint and revive call sites) from EVERY member graph "
            "over the bounded node set (cycles and self loops included) through every edit, against the closure "
            "definition of the property; every model counterexample and every (graph, edit) pair of the bound is then "
            "executed on the real plugin (transactions as backtracking) and seeded random histories on up to 12 groups "
            "with dynamic groups are recorded; every observed state is judged by the TLA+ closure (L1) and compared "
            "with the transcription (L2 drift).",
    "note": "exhaustive within 3 groups (+1 leaf in the thorough tier) and 2-3 edits; beyond that sampled by seeded histories; "
            "single server only (replicated membership changes belong to the repl group); trusted: TLC, the projection "
            "of stored entries (inlib/dirsrv.rs), whole-second simulated time",
    "design_ref": "DESIGN.md section 6, C17",
    "technique": "TLA+ transcription of the memberof fixpoint model-checked by TLC against the closure; exhaustive replay of model cases on the real plugin; trace validation of random histories",
}


def cases_from_cex(cex, ng, nl):
    out = []
    for t in cex:
        mask, n = t[0], t[1]
        acts = [[t[2 + 3 * i], t[3 + 3 * i], t[4 + 3 * i]] for i in range(n)]
        out.append({"ng": ng, "nl": nl, "mask": mask, "acts": acts})
    return out


def run(tier, replay):
    R = lib.Result(PID, tier, META["level"])
    wd = lib.workdir(PID)
    lib.build(dc.GROUP)
    quick = tier == "quick"
    # (1) exhaustive: L2 (transcription) against L1 (closure) in the model; CEX = hypotheses about the code
    if quick:
        mcs = [("KMemberOfMCq", 3, 0)]
    else:
        mcs = [("KMemberOfMC", 3, 0), ("KMemberOfMC4", 3, 1)]
    states = trans = 0
    cases = []
    n_cex = 0
    n_beh = 0
    for cfg, ng, nl in mcs:
        res, cex, beh = dc.mc("KMemberOfMC", cfg, PID, 1, 3000, kinds=(1, 2, 3, 4, 5))
        states += res["distinct"]; trans += res["generated"]
        n_cex += len(cex)
        cs = cases_from_cex(cex, ng, nl)
        # replay every counterexample with >= 2 edits and a deterministic sample of the single-edit ones
        # (the walk below executes EVERY single edit of the bound anyway)
        cap = 250 if quick else 4000
        multi = [c for c in cs if len(c["acts"]) >= 2]
        single = [c for c in cs if len(c["acts"]) == 1]
        step = max(1, (len(multi) + len(single)) // cap)
        cases += multi[::step] + single[::max(1, step * 4)]
        # plus sampled full-length model behaviours that stay exact (delete / revive sequences included)
        bs = cases_from_cex(beh, ng, nl)
        cases += bs[:: max(1, len(bs) // (120 if quick else 1500))]
        n_beh += len(beh)
    parts = []
    if replay:
        first = json.loads(lib.read_lines(replay)[0])
        out = f"{wd}/replay-obs.ndjson"
        if first.get("a") == "reset":
            dc.hist_replay(out, replay)
        else:
            lib.kverif(dc.GROUP, ["c17", "--out", out, "--replay", replay])
        parts.append(out)
    else:
        # (2) direction A: model counterexamples and every (graph, edit) of the bound on the REAL plugin
        cf = f"{wd}/cex-cases.ndjson"
        with open(cf, "w") as f:
            for c in cases:
                f.write(json.dumps(c) + "\n")
        if cases:
            lib.kverif(dc.GROUP, ["c17", "--out", f"{wd}/obs-cex.ndjson", "--cases", cf])
            parts.append(f"{wd}/obs-cex.ndjson")
        if quick:
            lib.kverif(dc.GROUP, ["c17", "--out", f"{wd}/obs-walk.ndjson", "--walk", "3:0", "--stride", 5, "--seed", lib.seed()])
        else:
            lib.kverif(dc.GROUP, ["c17", "--out", f"{wd}/obs-walk.ndjson", "--walk", "3:1", "--deep", "--stride", 12, "--seed", lib.seed()], timeout=3000)
        parts.append(f"{wd}/obs-walk.ndjson")
        # (3) direction B: seeded random histories (up to 12 groups, dynamic groups, delete / revive)
        dc.hist(PID, f"{wd}/obs-hist.ndjson", "C17", 5 if quick else 24, 50 if quick else 150)
        dc.hist(PID, f"{wd}/obs-mixed.ndjson", "mixed", 2 if quick else 12, 40 if quick else 150, seed_off=1)
        parts += [f"{wd}/obs-hist.ndjson", f"{wd}/obs-mixed.ndjson"]
    obs = dc.concat(f"{wd}/obs.ndjson", parts)
    tv, lines = dc.validate_sharded("KMemberOfTrace", obs, PID, wd, shard=9000, timeout=2400)
    cnt = dc.judge(R, PID, tv, lines, "stored memberof/directmemberof differ from the closure over member/dynmember")
    n_cases = sum(1 for l in lines if '"first":true' in l)
    n_hist = sum(1 for l in lines if '"a":"reset"' in l)
    R.coverage = {
        "states": states, "transitions": trans,
        "model_counterexamples": n_cex, "model_behaviours_sampled": n_beh, "model_histories_replayed": len(cases) if not replay else 0,
        "traces_validated_against_impl": n_cases + n_hist,
        "observed_states_judged": len(lines),
        "cases_on_real_plugin": n_cases, "random_histories": n_hist,
        "samples": dc.samples(lines),
        "l2_drift": len(tv["drift"]), "l2_drift_first": tv["drift"][:3],
        "l1": cnt, "ops": dc.op_counts(lines),
        "rule": "every observed state: for every live entry whose ancestors are projected, memberof = live groups reaching it "
                "through >= 1 member/dynmember link between live groups, directmemberof = live groups listing it (TLA+ KMemberOf!ExactAt)",
    }
    R.assumptions = ["single server; replicated membership changes are covered by the repl group",
                     "quick: 3 groups, 2 edits in the model, every 5th graph x every single edit on the real plugin; "
                     "thorough: 3 groups + 1 leaf, 3 edits, every 12th graph x single edits and delete/revive sequences",
                     "model counterexamples are hypotheses: only L1 on the replayed observation counts"]
    R.finish()
