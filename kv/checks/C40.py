"""C40 - The LDAP gateway is read-only and no more privileged than its bind."""
import json, re
from kv import lib

PID = "C40"
META = {
    "level": "model_checking",
    "text": "TLC explores the transcribed LDAP connection machine (bind decision table of bind_target_from_bind_dn / auth_ldap / "
            "application_auth_ldap / token_auth_ldap, do_op dispatch with the server's session handling, do_search request mapping "
            "and Entry::to_ldap on an abstract directory) exhaustively against the property's clauses over bind kinds x secrets x "
            "domain flag x group membership x has-password and all operation sequences up to the stated depth; the same clauses, "
            "evaluated by TLC, then judge every observed operation of the REAL LdapServer::do_op on a real IdmServer: the model's "
            "whole bind case space, a filter/attribute-request pool on every connection kind, and seeded random histories, each "
            "search compared with the native search_ext of the same effective identity and with a fresh anonymous bind, with a "
            "digest of the full database before and after every operation.",
    "note": "exhaustive only within the model bound (operation sequences of depth 2 quick / up to 4 thorough, abstract 4-entry directory); the real code is "
            "sampled (fixed population, pools, seeded histories). Trusted: TLC, the harness projection (attribute NAMES are "
            "compared, not values), kanidmd_core's session handling transcribed in the driver, the wall clock read by ldap.rs "
            "(no expiry is configured near now). Protocol write operations are shown not to convert to ServerOps at all.",
    "design_ref": "DESIGN.md section 6, C40",
    "technique": "TLA+ connection-machine spec (KLdap) model-checked by TLC; model case space, pools and seeded random histories "
                 "run through the real LdapServer::do_op and judged by a TLC trace spec against native search results",
}

ACTIONS = ["BindBound", "BindInvalid", "BindErr", "SearchBound", "SearchAuto", "CompareBound", "CompareAuto",
           "WhoamiBound", "WhoamiUnbound", "Unbind", "WriteOp", "CfgFlag", "CfgMem"]
HIDDEN = ("classtype", "attributetype", "access_control_profile")


def mc_run(cfg, workers, timeout):
    mc = lib.tlc("KLdapMC", cfg=cfg, pid=PID, workers=workers, timeout=timeout, extra=["-coverage", "1"])
    lib.tlc_must_pass(mc, f"{cfg}: L2 connection machine vs L1 clauses")
    # vacuity guard: every action (every bind outcome) of the machine was taken
    for a in ACTIONS:
        m = re.search(r"<%s line [^>]*>: (\d+):(\d+)" % a, mc["out"])
        if not m or int(m.group(1)) == 0:
            lib.tool_error(f"{cfg}: action {a} never taken in the model (vacuous exploration)")
    return mc


def history_start(recs, ln):
    i = ln - 1
    while i > 0 and recs[i]["a"] != "reset":
        i -= 1
    return i


def conn_kind(recs, ln):
    """how the token in hand before line ln (1-based) was obtained (same bookkeeping as KLdapTrace.NextCn)"""
    k = "none"
    for r in recs[history_start(recs, ln):ln - 1]:
        if r["a"] == "reset":
            k = "none"
        elif r["a"] == "bind" and r["res"] == "bound":
            k = r["k"]
        elif r["a"] == "unbind" and r["res"] == "closed":
            k = "none"
        elif r["a"] in ("search", "compare") and r.get("ab"):
            k = "auto"
    return k


def signature(sig, r, ck):
    a = r["a"]
    if a == "bind":
        return f"{sig} bind k={r['k']} sec={r['sec']} flag={r['flag']} mem={r['mem']} res={r['res']} eid={r['eid']} sc={r['sc']}"
    if a == "search":
        return (f"{sig} search conn={ck} bk={r['bk']} scp={r['scp']} f={r['f']} req={','.join(r['req'])} "
                f"n_ldap={len(r['ents'])} n_native={len(r['nat'])} nres={r['nres'][:20]}")
    if a == "compare":
        return f"{sig} compare conn={ck} at={r['at']} res={r['res']} anon={r['ares']}"
    return f"{sig} {a} conn={ck} res={r.get('res')}"


def run(tier, replay):
    R = lib.Result(PID, tier, META["level"])
    wd = lib.workdir(PID)
    lib.build("oauth")
    quick = tier == "quick"
    # (1) the model: L2 connection machine against the L1 clauses
    # KLdapMCReq: depth 2, full attribute-request pool; KLdapMC / KLdapMC4: depth 3 / 4, reduced request pool
    cfgs = ["KLdapMCReq"] if quick else ["KLdapMCReq", "KLdapMC", "KLdapMC4"]
    states = trans = 0
    mc_detail = {}
    model_cases = None
    for cfg in cfgs:
        mc = mc_run(cfg, 4 if quick else 8, 600 if quick else 1500)
        states += mc["distinct"]; trans += mc["generated"]
        mc_detail[cfg] = {"distinct": mc["distinct"], "generated": mc["generated"], "wall_s": round(mc["wall_s"], 1)}
        model_cases = {tuple(t[1:7]): t[7] for t in mc["tuples"] if t[0] == "CASE"}
    if not model_cases:
        lib.tool_error("the model printed no bind cases")
    # (2) the real gateway
    obs = f"{wd}/obs.ndjson"
    if replay:
        obs = f"{wd}/replay-obs.ndjson"
        lib.kverif("oauth", ["c40", "--out", obs, "--replay", replay])
    else:
        lib.kverif("oauth", ["c40", "--out", obs, "--seed", lib.seed(), "--tier", tier], timeout=2400)
    tv = lib.trace_validate("KLdapTrace", obs, PID, timeout=2400, xmx="8g")
    lines = lib.read_lines(obs)
    recs = [json.loads(l) for l in lines]
    for t in tv["l1fail"]:
        ln, sig = t[2], t[3]
        r = recs[ln - 1]
        ck = conn_kind(recs, ln)
        h0 = history_start(recs, ln)
        R.violation(signature(sig, r, ck),
                    f"line {ln}: {sig}: real LdapServer::do_op observation violates the C40 clause "
                    f"({json.dumps({k: v for k, v in r.items() if k not in ('ents', 'nat', 'anon')})[:600]})",
                    lines[h0:ln])
    # (3) coverage, measured on the observations
    nact = {}
    seen_cases = {}
    hidden_native = {c: 0 for c in HIDDEN}
    hidden_leaked = 0
    pos_control = 0
    pw_searches = pw_nonempty = 0
    judged_entries = judged_attr_sets = 0
    dbchanged = 0
    hist = 0
    ck = "none"
    for r in recs:
        a = r["a"]
        nact[a] = nact.get(a, 0) + 1
        if a == "reset":
            hist += 1; ck = "none"
            continue
        if "dg0" in r and r["dg0"] != r["dg1"]:
            dbchanged += 1
        if a == "bind":
            b2s = lambda b: "T" if b else "F"
            seen_cases[(r["k"], r["sec"], r["flag"], b2s(r["mem"]), b2s(r["hpw"]), b2s(r["ex"]))] = r["res"]
            if r["res"] == "bound":
                ck = r["k"]
        elif a == "unbind":
            ck = "none"
        elif a == "search":
            if r["res"] == "ok" and r["nres"] == "ok" and r["bk"] != "root":
                judged_entries += 1
                judged_attr_sets += len(r["ents"])
                ldns = {e["dn"] for e in r["ents"]}
                for e in r["nat"]:
                    for c in HIDDEN:
                        if c in e["c"]:
                            hidden_native[c] += 1
                            if e["dn"] in ldns:
                                hidden_leaked += 1
            if ck in ("unix", "app") and r["res"] == "ok":
                pw_searches += 1
                pw_nonempty += 1 if r["ents"] else 0
            if ck == "tok" and r["res"] == "ok" and r["ares"] == "ok":
                an = {e["dn"]: set(e["at"]) for e in r["anon"]}
                if any(e["dn"] not in an or not set(e["at"]) <= an[e["dn"]] for e in r["ents"]):
                    pos_control += 1
            if r.get("ab"):
                ck = "auto"
        elif a == "compare" and r.get("ab"):
            ck = "auto"
    missing = sorted(c for c in model_cases if c not in seen_cases)
    if not replay:
        # the observations must not be vacuous: otherwise the run says nothing -> tool error, not a pass
        if missing:
            lib.tool_error(f"driver did not cover the model's bind case space: {len(missing)} cases missing, e.g. {missing[:3]}")
        if pos_control == 0:
            lib.tool_error("positive control missing: no token-bound search returned more than the anonymous bind")
        if any(v == 0 for v in hidden_native.values()):
            lib.tool_error(f"no native result contained schema / access-control entries ({hidden_native}): 'minus hidden' is vacuous")
        if pw_nonempty == 0:
            lib.tool_error("no search on a password-bound connection returned entries")
    R.coverage = {
        "states": states, "transitions": trans, "model_runs": mc_detail,
        "traces_validated_against_impl": hist,
        "observed_lines": len(lines),
        "observed_actions": nact,
        "samples": [{k: v for k, v in s.items() if k not in ("nat", "anon", "ents")} | {"n_ldap": len(s.get("ents", [])), "n_native": len(s.get("nat", []))}
                    if isinstance(s, dict) else s for s in lib.sample(lines)],
        "l2_drift": len(tv["drift"]),
        "l2_drift_first_line": tv["drift"][0][2] if tv["drift"] else 0,
        "bind_cases_model": len(model_cases),
        "bind_cases_model_observed": len(model_cases) - len(missing),
        "bind_cases_observed_total": len(seen_cases),
        "searches_judged_against_native": judged_entries,
        "entry_attribute_sets_compared": judged_attr_sets,
        "native_hidden_class_entries_seen": hidden_native,
        "hidden_class_entries_returned_by_ldap": hidden_leaked,
        "password_bound_searches": pw_searches,
        "password_bound_searches_nonempty": pw_nonempty,
        "positive_control_token_reads_more_than_anonymous": pos_control,
        "ops_with_db_digest_change": dbchanged,
        "trace_states": tv["distinct"],
        "rule": "every LDAP operation line is judged by TLC (KLdapTrace) against the C40 clauses; searches against the native "
                "search_ext result of the same effective identity, filter and mapped attribute request",
    }
    R.assumptions = [
        "ldap.rs reads the wall clock; nothing in the population expires or becomes valid near now, the one valid user-auth-token "
        "is issued at a constant far-future simulated time",
        "freshly set unix passwords need no hash upgrade, so no delayed action (a legitimate write) follows a bind; dl is logged and expected 0",
        "unix binds with a wrong/empty secret use dedicated accounts (wall-clock soft lock), see notes/oauth-c40.md",
        "attribute NAMES are compared, not values; the DN of a native entry is uuid_to_rdn + base DN",
        "kanidmd_core's handling of LdapResponseState (which response replaces the session) is transcribed in the driver",
    ]
    R.finish()
