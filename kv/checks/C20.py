"""C20 - UUIDs are immutable and the system range is protected."""
import json
from kv import lib

PID = "C20"
META = {
    "level": "model_checking",
    "text": "The finite request alphabet of KDirUuid (modify and batch-modify kinds present/removed/purged/set/assert on uuid with "
            "same/other/reserved/ill-typed values, alone or combined with a benign modify, on user and built-in targets; creates with "
            "reserved, boundary, dynamic, absent, duplicate and multi-valued uuids; deletes of built-in entries, user entries, mixed and "
            "whole-database filters) is checked exhaustively by TLC on the abstract store (L2 decision table against L1) and every "
            "request is replayed on a real server by a real user identity whose group holds a grant-everything access control profile "
            "built from real ACP entries; the store inside the write transaction after every request is judged by the TLA+ L1 "
            "(uuid per entry identity unchanged, no new reserved uuid, no built-in entry not live).",
    "note": "built-in = uuid in the reserved system range (< 00000000-0000-0000-0001-000000000000); entry identity = backend id; "
            "quick tier deletes every 4th built-in entry individually, thorough every one; trusted: projection of (backend id, uuid, liveness), TLC",
    "design_ref": "DESIGN.md section 6, C20",
    "technique": "TLC over the request alphabet x abstract store; full replay of the alphabet under a grant-all ACP, trace-validated by TLC",
}


def run(tier, replay):
    R = lib.Result(PID, tier, META["level"])
    wd = lib.workdir(PID)
    lib.build("store")
    mc = lib.tlc("KDirUuidMC", cfg="KDirUuidMC", pid=PID, workers=2, timeout=300)
    lib.tlc_must_pass(mc, "KDirUuid: decision table (L2) against uuid immutability / system range protection (L1)")
    alpha = [t[1] for t in mc["tuples"] if t[0] == "ALPHABET"]
    if not alpha:
        lib.tool_error("TLC did not report the alphabet size")
    obs = f"{wd}/obs.ndjson"
    args = ["c20", "--out", obs]
    if tier == "thorough":
        args.append("--all-builtins")
    if replay:
        args += ["--replay", replay, "--all-builtins"]
    lib.kverif("store", args)
    tv = lib.trace_validate("KDirUuidTrace", obs, PID, timeout=1800)
    if any(t[0] == "NOTINALPHABET" for t in tv["tuples"]):
        lib.tool_error("harness issued a request outside KDirUuid!Alphabet")
    lines = lib.read_lines(obs)
    recs = [json.loads(l) for l in lines]
    base = recs[0]
    strip = lambda r: json.dumps({k: r[k] for k in ("a", "r", "detail")})
    seen = set()
    for t in tv["l1fail"]:
        ln, what = t[2], t[3]
        r = recs[ln - 1]
        a = r["r"]
        if isinstance(what, int) or (isinstance(what, str) and not what.startswith("#")):
            pre = base["st"].get(str(what), {})
            post = r["st"].get(str(what)) if r["res"] == "ok" else pre
            if post is None:
                kind = "entry-vanished"
            elif post["u"] != pre.get("u"):
                kind = "uuid-changed"
            else:
                kind = f"builtin-{post['live']}"
        else:
            kind = what.lstrip("#")
        sig = f"{kind} op={a['op']} " + " ".join(f"{k}={a[k]}" for k in sorted(a) if k != "op")
        if (ln, kind) in seen:
            continue
        seen.add((ln, kind))
        R.violation(sig, f"user request {a} ({r['detail']}) under a grant-everything ACP -> {r['res']} {r['err']}: {kind}", [strip(r)])
    distinct = set(json.dumps(r["r"], sort_keys=True) for r in recs if r["a"] == "req")
    if not replay and len(distinct) != alpha[0]:
        lib.tool_error(f"alphabet not covered: {len(distinct)} distinct abstract requests replayed, model has {alpha[0]}")
    resc = {}
    for r in recs[1:]:
        k = f"{r['r']['op']}:{r['res']}:{r['err'].split('(')[0]}"; resc[k] = resc.get(k, 0) + 1
    small = []
    for r in lib.sample(lines):
        r = dict(r); r["st_entries"] = len(r.get("st", {})); r["st"] = dict(list(r.get("st", {}).items())[:2]); small.append(r)
    R.coverage = {
        "states": mc["distinct"], "transitions": mc["generated"],
        "traces_validated_against_impl": len(recs) - 1, "samples": small,
        "alphabet_size": alpha[0], "distinct_abstract_requests_replayed": len(distinct),
        "exhaustive": not replay, "l2_drift": len(tv["drift"]),
        "result_counts": resc, "entries_in_base_state": len(base["st"]),
    }
    R.assumptions = ["the acting identity is a real user entry (Identity::from_impersonate_entry_readwrite) member of the ACP receiver group",
                     "requests are judged inside the write transaction (plugins and access checks run at operation time)"]
    R.finish()
