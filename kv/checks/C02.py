"""C02 - Filter rewriting preserves meaning."""
import json
from concurrent.futures import ThreadPoolExecutor
from kv import lib
from kv.checks import filter_common as fc

PID = "C02"
META = {
    "level": "model_checking",
    "text": "TLC checks, for every filter of depth<=2/width<=2 over the model alphabet (wrapped and raw) and every stated index layout, "
            "that the transcription of Filter::resolve (resolve_idx + optimise: flatten, unwrap, slope-first sort, dedup; and "
            "resolve_no_idx + fast_optimise) matches exactly the entries the original matches on all 16 entry shapes, and that the "
            "comparator is a total preorder consistent with PartialEq; TLC-chosen cases, every depth<=1 filter (with Self) and random "
            "deeper/wider filters with random index keys and tied slopes go through the REAL Filter::resolve and the REAL per-entry "
            "test; TLC judges the real verdicts with Match on the original filter and compares the real rewritten structure with L2.",
    "note": "exhaustive within 5 (quick) / 6 leaves at depth 2, the 4-leaf substring family (contains / starts-with / ends-with sharing "
            "attribute and value) at depth 2, and 12 leaves at depth 1, 4 / 32 layouts; deeper and wider sampled; starts-with / "
            "ends-with terms reach the real resolver through the SCIM translation (FC has no constructor for them); "
            "sort_unstable is modelled as the insertion sort it is for short slices (a different permutation of Equal terms would show "
            "as L2 drift, not as an alarm). Trusted: TLC, the in-lib accessor that builds IdxMeta with chosen slopes.",
    "design_ref": "DESIGN.md section 6, C02",
    "technique": "TLA+ operator spec (KFilter) model-checked exhaustively by sharded TLC; real Filter::resolve + entry_match_no_index "
                 "observations validated by the TLC trace spec KFilterTrace",
}


def run(tier, replay):
    R = lib.Result(PID, tier, "model_checking")
    wd = lib.workdir(PID)
    lib.build(fc.GROUP)
    quick = tier == "quick"
    shards = [fc.shard("r16", [16], depth=1, leaf="full")] if replay else [s for s in fc.filter_shards(tier) if not s["name"].startswith("tth")]
    if not replay:
        # the substring family (Cnt / Stw / Enw with shared attribute and value), depth <= 2, every entry shape
        if quick:
            shards = [s for s in shards if s["name"] != "q22"] + [fc.shard("sf16", [16], leaf="subfam", casecap=10)]
        else:
            shards += [fc.shard("sf16", [16, 17], leaf="subfam", casecap=10), fc.shard("sf4", [4, 22], leaf="subfam", casecap=10)]
    pool = ThreadPoolExecutor(max_workers=1)
    mcf = pool.submit(fc.run_mc, PID, "KFilterMC", fc.MC_TEMPLATE, shards, 4 if quick else 8,
                      600 if quick else 2400, lib.seed())
    obs = f"{wd}/obs.ndjson"
    if replay:
        lib.kverif(fc.GROUP, ["c02", "--out", obs, "--replay", replay])
    else:
        args = ["c02", "--out", obs, "--seed", lib.seed(), "--random", 1500 if quick else 20000,
                "--depth", 4 if quick else 6, "--width", 3 if quick else 5]
        if not quick:
            args.append("--depth2-all")
        lib.kverif(fc.GROUP, args)
    lines = lib.read_lines(obs)
    l1, drift, chunks, tstates = fc.validate_parallel(PID, "KFilterTrace", lines, 2 if quick else 8, 1500, tag="a")
    try:
        mcs, cases, census = mcf.result()
    except lib.ToolError as e:
        lib.tool_error(str(e))
    states = sum(m["distinct"] for m in mcs)
    trans = sum(m["generated"] for m in mcs)
    if not replay and cases:
        cf, obs2 = f"{wd}/cases.ndjson", f"{wd}/obs_cases.ndjson"
        with open(cf, "w") as f:
            for c in cases:
                f.write(json.dumps(c) + "\n")
        lib.kverif(fc.GROUP, ["c02", "--out", obs2, "--cases", cf, "--no-depth1"])
        lines2 = lib.read_lines(obs2)
        l1b, driftb, chunksb, ts2 = fc.validate_parallel(PID, "KFilterTrace", lines2, 1 if quick else 2, 1500, tag="b")
        off = len(chunks)
        l1 += [(ci + off, t) for ci, t in l1b]
        drift += [(ci + off, t) for ci, t in driftb]
        chunks += chunksb
        lines += lines2
        tstates += ts2
    for ci, t in l1:
        if t[1] != PID:
            continue
        ln = t[2]
        rec = json.loads(chunks[ci][ln - 1])
        R.violation(f"rewrite-changes-meaning mode={rec['mode']} f={fc.compact(rec['f'])}",
                    f"Filter::resolve ({rec['mode']}, index metadata {rec['ix']}) turned {fc.compact(rec['f'])} into {fc.compact(rec['rf']) if rec['rf'].get('k') not in ('err', 'panic') else rec['rf']}, "
                    f"which the real entry test matches on {rec['m']} (others={rec['mo']}); the original filter matches a different set",
                    fc.replay_context(chunks[ci], ln))
    rew = [l for l in lines if l.startswith('{"a":"rewrite"')]
    changed, modes = 0, {}
    for l in rew:
        r = json.loads(l)
        modes[r["mode"]] = modes.get(r["mode"], 0) + 1
        # the rewrite did something: structure differs from a plain resolution (different node count or top kind)
        if json.dumps(r["rf"]).count('"k"') != json.dumps(r["f"]).count('"k"') or r["rf"].get("k") != r["f"].get("k"):
            changed += 1
    if not replay and (len(rew) < 500 or changed < 50):
        lib.tool_error(f"driver produced too few observations / rewrites that change structure: {len(rew)} {changed}")
    R.coverage = {
        "states": states, "transitions": trans,
        "traces_validated_against_impl": len(rew),
        "samples": lib.sample(rew),
        "exhaustive": True,
        "l2_drift": len([d for d in drift if d[1][1] == PID]),
        "mc_shards": [c[0] for c in census],
        "tlc_cases_replayed": len(cases),
        "observed_modes": modes,
        "observed_rewrites_changing_structure": changed,
        "trace_states": tstates,
        "rule": "model: for every (filter, wrapper, layout) state the rewritten filter (both resolve paths) must match exactly the entries of "
                "all 16 shapes that the original matches, and Ord/PartialEq must form a consistent total preorder on sibling terms; "
                "implementation: the set matched by the real entry test on the real rewritten filter is compared by TLC with Match on the original",
    }
    R.assumptions = ["caller identity for Self is an impersonated model entry",
                     "values are compared through the bijection model id <-> concrete value fixed in harness/filter/src/fmodel.rs (order preserving)"]
    R.finish()
