"""C36 - Removing a credential revokes its sessions."""
from kv.checks import tokcommon

PID = "C36"
META = {
    "level": "model_checking",
    "text": "TLC checks, on every step of the bounded model, that a change which removes a credential leaves no live login "
            "session issued with it (action property over the transcription of the session-consistency plugin, including "
            "session records that arrive late through the delayed queue); on a real IdmServer credentials (password, passkey) "
            "are added, replaced and removed through credential-update sessions and administrative purges between logins with "
            "each credential, and every observed change of the account is judged by the same action property in TLA+.",
    "note": "exhaustive within the MC constants (<=3 credential ids, <=2 sessions, time 0..4); OAuth2 child sessions are "
            "modelled (plugin + L1O2Usable) but replayed on the real server only as far as notes/token.md states",
    "design_ref": "DESIGN.md section 6, C36",
    "technique": "TLA+ action property (KAuthTokens.L1CredRemoval) model-checked by TLC; real credential-update histories validated step by step by a TLC trace spec",
}


def run(tier, replay):
    tokcommon.run_hist(PID, META, tier, replay)
