"""C13 - Backup then restore reproduces the database."""
import json
from kv import lib
from kv.checks import C03 as base

PID = "C13"
META = {
    "level": "model_checking",
    "text": "In the KStore model (checked exhaustively by TLC) backup+restore is a transition that renumbers entry ids and rebuilds all "
            "tables; L1 requires the content by uuid to be unchanged and all tables to mirror it. On the real code, at random points of "
            "seeded random server histories (users, groups, posix, external ids, imported credentials, sessions, memberships, recycled "
            "entries, tombstones, reaped entries) the running server is backed up with and without gzip, restored into a fresh file-backed "
            "backend and reindexed as `kanidmd database restore` does, the database is reopened (next process start) and observed "
            "BEFORE any server start (every entry by uuid as a digest of all attributes in proto and DB form plus change state, server and "
            "domain uuid, max change time, RUV change-id set, backend consistency check), then a server is started on it (consistency "
            "check, 90 probe searches); TLC requires everything to equal the original. Backups whose version tag is rewritten or "
            "removed must be refused (an untouched control copy must be accepted). The history continues on the restored server.",
    "note": "probe searches are over stored user-level attributes; attributes a server start recomputes (dynmember of built-in dynamic "
            "groups, last_modified_cid of re-asserted system entries) are outside the comparison made after the server start - the "
            "pre-start comparison covers every attribute; trusted: raw row decoding, TLC",
    "design_ref": "DESIGN.md section 6, C13",
    "technique": "TLC model with a restore transition; real backup/restore at random points of random histories, both compressions, version-tag mutation, judged by TLA+",
}


def run(tier, replay):
    R = lib.Result(PID, tier, META["level"])
    wd = lib.workdir(PID)
    lib.build("store")
    mc, hit = base.model_check(PID)
    extra = ["--histories", 5 if tier == "quick" else 20, "--len", 24 if tier == "quick" else 60, "--restore-pct", 22, "--vermut"]
    obs, tv, lines, recs = base.drive(PID, tier, replay, wd, extra)
    for t in tv["l1fail"]:
        if t[1] != PID:
            continue
        ln, what = t[2], t[3]
        r = recs[ln - 1]
        if r["a"] == "bak":
            detail = ""
            if r["res"] == "ok":
                o, n = r["orig"], r["rest"]
                if what == "entries":
                    d = sorted(k for k in set(o["ents"]) | set(n["ents"]) if o["ents"].get(k) != n["ents"].get(k))
                    detail = f" differing entries {d[:6]}"
                elif what == "probes":
                    d = sorted(k for k in o["probes"] if o["probes"][k] != n["probes"].get(k))
                    detail = f" differing probes {[(k, o['probes'][k], n['probes'].get(k)) for k in d[:4]]}"
                elif what == "verify":
                    detail = f" {n['verify']} {n['beverify']}"
                elif what == "identifiers":
                    detail = f" {o['ids']} -> {n['ids']}"
            R.violation(f"restore-differs {what} gz={r['gz']}", f"backup(gz={r['gz']}) -> restore: {what}{detail} (result {r['res']})",
                        base.replay_lines(recs, ln - 1) + [])
        else:
            R.violation(f"{what}", f"a backup with version tag mutation '{r['mut']}' was accepted by restore ({r['res']})",
                        base.replay_lines(recs, ln))
    ctl = [r for r in recs if r["a"] == "bakctl"]
    if not replay and (not ctl or any(r["res"] != "ok" for r in ctl)):
        lib.tool_error("version-tag control (untouched backup) was not accepted: refusal observations are vacuous")
    baks = [r for r in recs if r["a"] == "bak"]
    if not replay and len(baks) < 3:
        lib.tool_error("too few backup points were generated")
    R.coverage = {
        "states": mc["distinct"], "transitions": mc["generated"], "model_action_distinct_states": hit,
        "traces_validated_against_impl": len([r for r in recs if r["a"] == "reset"]),
        "backup_restore_points": len(baks),
        "backup_restore_points_gzip": len([r for r in baks if r["gz"] == 1]),
        "points_with_tombstones_or_recycled": len([r for r in baks if r["res"] == "ok" and (r["orig"]["probes"]["rec:class=recycled"]["m"] or r["orig"]["probes"]["all:class=tombstone"]["m"])]),
        "version_mutations_refused": len([r for r in recs if r["a"] == "bakver" and r["res"] != "ok"]),
        "version_mutations_tried": len([r for r in recs if r["a"] == "bakver"]),
        "probe_searches_per_point": len(baks[0]["orig"]["probes"]) if baks and baks[0]["res"] == "ok" else 0,
        "samples": base.small_samples([l for l in lines if '"a":"bak' in l] or lines),
        "l2_drift": 0,
    }
    R.assumptions = ["the restored database is observed after reopening the file (as the next kanidmd start does) and before the server's "
                     "start-up migrations touch it; searches and the server consistency check are observed after the start"]
    R.finish()
