"""C42 - SCIM filter text round-trips and honours precedence."""
import json
from concurrent.futures import ThreadPoolExecutor
from kv import lib
from kv.checks import filter_common as fc

PID = "C42"
META = {
    "level": "model_checking",
    "text": "TLC checks the token-level transcription of the peg grammar (precedence climbing with ordered choice, depth limiter; L2) "
            "against the reference reading of infix filters (split at the last top-level OR, else AND, else NOT(..), group, leaf; L1) "
            "on every token string up to 6 (quick) / 7 (thorough) tokens over {A, B, and, or, not, (, )} and on the printed form of "
            "every AST of connective depth <= 2 (with complex filters), with the limiter scaled to 2 / 4; the real Display and the real "
            "peg parser are then run on every AST of depth <= 2 over concrete leaves, all ten operators, the spelled-out token strings "
            "of the model alphabet, deep chains on both sides of the real limit 128, every string value of up to 3 / 4 characters over "
            "{a, blank, ( ) [ ] backslash quote tab} (through BOTH grammar copies, kanidm_proto::scim_v1 and scim_proto::filter; the "
            "quoted-value scanning rule is transcribed and model-checked against 'ends at the first quote after an even run of "
            "backslashes'), and seeded random ASTs / infix strings; TLC judges "
            "every real parse result (round trip, precedence against the reference reading, rejection beyond the limit).",
    "note": "the grammar design (parenthesisation, precedence, limiter) is decided at model_checking level; lexical fidelity of literals "
            "(escapes, numbers) is exploration by seeded random values. 'nesting' counts the whole filter as level 1 and every group, "
            "not(..) and attr[..] as one more (the limiter's arithmetic): 128 levels are accepted, 129 rejected. Trusted: TLC, the "
            "token <-> text spacing convention of the driver for precedence strings.",
    "design_ref": "DESIGN.md section 6, C42",
    "technique": "TLA+ operator spec (KScimText: printer, peg transcription, reference reader) model-checked by TLC; real printer/parser "
                 "observations validated by the TLC trace spec KScimTextTrace",
}

MC_T = """CONSTANTS
  Mode = "{mode}"
  Lim = {lim}
  MaxLen = {maxlen}
INIT Init
NEXT Next
INVARIANT MCInv
POSTCONDITION Census
CHECK_DEADLOCK FALSE
"""


def leaf_diffs(a, b, out):
    """Collect (va, vb) of leaves whose literal differs; returns False if the trees differ anywhere else."""
    if not isinstance(a, dict) or not isinstance(b, dict) or a.get("k") != b.get("k"):
        return False
    k = a["k"]
    if k == "leaf":
        if a["p"] != b["p"] or a["op"] != b["op"]:
            return False
        if a["v"] != b["v"]:
            out.append((a["v"], b["v"]))
        return True
    if k in ("and", "or"):
        return leaf_diffs(a["l"], b["l"], out) and leaf_diffs(a["r"], b["r"], out)
    if k == "not":
        return leaf_diffs(a["e"], b["e"], out)
    if k == "cx":
        return a["a"] == b["a"] and leaf_diffs(a["e"], b["e"], out)
    return False


def rt_signature(rec):
    """float-ulp: same tree, only float literals differ, each by a relative error below 1e-15."""
    diffs = []
    if rec["parsed"].get("k") in ("err", "panic") or not leaf_diffs(rec["ast"], rec["parsed"], diffs) or not diffs:
        return "roundtrip other"
    for va, vb in diffs:
        try:
            fa, fb = float(va), float(vb)
        except ValueError:
            return "roundtrip other"
        if not (any(c in va for c in ".eE") and fa != 0 and abs(fa - fb) / abs(fa) < 1e-15):
            return "roundtrip other"
    return "roundtrip float-ulp"


def run(tier, replay):
    R = lib.Result(PID, tier, "model_checking")
    wd = lib.workdir(PID)
    lib.build(fc.GROUP)
    quick = tier == "quick"
    shards = [dict(name="ast", mode="ast", lim=4, maxlen=1), dict(name="str", mode="str", lim=2, maxlen=6 if quick else 7),
              # lexical layer: every string value over {a, blank, ( ) [ ] backslash quote tab} up to 3 / 4 characters x 6 trailers
              dict(name="lex", mode="lex", lim=4, maxlen=3 if quick else 4)]
    if not quick:
        shards.append(dict(name="str3", mode="str", lim=3, maxlen=7))
    pool = ThreadPoolExecutor(max_workers=1)
    mcf = pool.submit(fc.run_mc, PID, "KScimTextMC", MC_T, shards, 3, 1500)
    obs = f"{wd}/obs.ndjson"
    if replay:
        lib.kverif(fc.GROUP, ["c42", "--out", obs, "--replay", replay])
    else:
        lib.kverif(fc.GROUP, ["c42", "--out", obs, "--seed", lib.seed(), "--adepth", 2, "--plen", 4 if quick else 5, "--vlen", 3 if quick else 4,
                              "--random", 600 if quick else 20000, "--depth", 5 if quick else 7])
    lines = lib.read_lines(obs)
    l1, drift, chunks, tstates = fc.validate_parallel(PID, "KScimTextTrace", lines, 4 if quick else 8, 1500)
    try:
        mcs, _cases, census = mcf.result()
    except lib.ToolError as e:
        lib.tool_error(str(e))
    for name, c in census:
        if c[0] == 0 or c[1] == 0 or c[2] == 0:
            lib.tool_error(f"KScimTextMC {name} census is vacuous: {c}")
    for ci, t in l1:
        ln, kind = t[2], t[3]
        rec = json.loads(chunks[ci][ln - 1])
        if kind == "roundtrip":
            sig = rt_signature(rec)
            R.violation(f"{sig} text={rec['text'][:120]}",
                        f"printing then parsing changed the filter: text {rec['text'][:300]!r} parsed back as {json.dumps(rec['parsed'])[:300]}",
                        [chunks[ci][ln - 1]])
        else:
            R.violation(f"precedence text={rec['text'][:120]}",
                        f"text {rec['text'][:300]!r} was parsed as {json.dumps(rec['parsed'])[:300]}: not the reading with AND above OR, or nesting beyond the limit was accepted",
                        [chunks[ci][ln - 1]])
    acc = {"rt": 0, "prec": 0}
    rej = {"rt": 0, "prec": 0}
    for l in lines:
        r = json.loads(l)
        (rej if r["parsed"].get("k") == "err" else acc)[r["a"]] += 1
    # vacuity guard (only meaningful when nothing was flagged: a broken limiter shows up as violations, not as vacuity)
    if not replay and not R.violations and not R.known_hits and (acc["rt"] < 200 or acc["prec"] < 50 or rej["rt"] == 0 or rej["prec"] == 0):
        lib.tool_error(f"observations are vacuous: accepted {acc} rejected {rej}")
    R.coverage = {
        "states": sum(m["distinct"] for m in mcs), "transitions": sum(m["generated"] for m in mcs),
        "traces_validated_against_impl": len(lines),
        "samples": [s if len(json.dumps(s)) < 3000 else {"a": s["a"], "text": s["text"][:300]} for s in lib.sample(lines)],
        "exhaustive": True,
        "l2_drift": len(drift),
        "model_census": {n: dict(zip(["values", "ending_in_backslash", "other"] if n == "lex" else ["cases", "accepted", "rejected_by_limit_only"], c))
                         for n, c in census},
        "observed_accepted": acc, "observed_rejected": rej,
        "real_limit": 128,
        "trace_states": tstates,
        "rule": "model: peg transcription = reference reading on every token string / printed AST of the bounded space (accepts the same strings "
                "within the limit, builds the same tree, nothing deeper accepted); implementation: each real print->parse and each real parse "
                "of a token string is judged by TLC (round trip, Skel(parse) = Skel(reference reading), rejection beyond 128 levels)",
    }
    R.assumptions = ["attribute names are built with Attribute::from / SubAttribute::from (canonical forms)",
                     "precedence strings are rendered from tokens with the grammar's spacing (no blank after an opening or before a closing bracket)"]
    R.finish()
