"""Helpers shared by the txn group's checks (C04 C05 C06 C07)."""
import hashlib, os, shutil
from kv import lib


def dbroot(pid):
    """Directory for the FILE-backed SQLite databases of a run.

    tmpfs when available: every kanidm commit fsyncs, which on the (shared, busy) disk costs more than
    everything else together (measured 119 s vs 37 s for the C07 quick replay). The databases are still
    real files opened through SQLite's file VFS with WAL; what tmpfs removes is the physical sync, which
    none of the txn properties relies on (C05 is process-kill only, SQLite's durability is trusted).
    The name is derived from the work directory so that kv/mutrun.sh sandboxes do not collide."""
    wd = lib.workdir(pid)
    tag = hashlib.md5(wd.encode()).hexdigest()[:8]
    root = f"/dev/shm/txn-{pid}-{tag}" if os.access("/dev/shm", os.W_OK) else f"{wd}/db"
    shutil.rmtree(root, ignore_errors=True)
    os.makedirs(root, exist_ok=True)
    return root


def cleanup(root):
    shutil.rmtree(root, ignore_errors=True)


# H2 storage point name -> step of KTxn!CommitSteps (mirror of KTxn!StepOfPoint, used only to key evidence classes:
# which name-table write comes k-th follows hash-map iteration order, the step it belongs to does not)
STEP_OF = {"set_db_ts_max": "ts_max", "write_db_ruv": "ruv_del", "write_db_ruv_add": "ruv_add", "write_identry": "entries",
           "delete_identry": "entries", "write_idl": "idl", "sql_commit": "sql_commit", "none": "none",
           "purge_idxs": "idx_purge", "create_table": "idx_create", "create_idx": "idx_create",
           "store_idx_slopes": "idx_slopes", "set_db_version": "idx_version", "post_sql_commit": "post_commit"}


def step_of(point):
    return STEP_OF.get(point, "names")


_order = None


def commit_order():
    """Which commit order the tree under test has, read off the real code: `kv-txn order` commits one transaction with a
    recording H3 pause handler. Returns (CommitOrder constant of KTxn, cfg suffix, labels)."""
    global _order
    if _order is None:
        import json
        rc, out, dt = lib.kverif("txn", ["order"], timeout=600)
        labels = None
        for l in out.splitlines():
            if l.startswith("ORDER "):
                labels = json.loads(l[6:])
        if not labels or "w.sql_commit" not in labels or "w.cfg" not in labels:
            lib.tool_error("could not read the commit order off the pause points (kv-txn order)")
        sf = labels.index("w.sql_commit") < labels.index("w.cfg")
        _order = ("storage_first", "_sf", labels) if sf else ("publish_first", "", labels)
    return _order
