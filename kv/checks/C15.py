"""C15 - Every stored entry satisfies the schema."""
import json
from kv import lib

PID = "C15"
META = {
    "level": "model_checking",
    "text": "KDirSchema defines Valid(entry, schema) (only allowed attributes, required attributes present, single-valued attributes "
            "hold one value, stored syntax = schema syntax, classes known) and TLC checks exhaustively on a 2-class/3-attribute schema "
            "(growing to 3 classes/4 attributes) that a server accepting exactly the valid candidates keeps every live entry valid and "
            "that refusals leave nothing behind. On the real code, seeded random histories on two replicating servers mix valid and "
            "deliberately invalid creates / modifies / batch modifies (missing required, not allowed, too many values, wrong syntax, "
            "unknown class or attribute), schema additions through real attributetype/classtype entries, uses of the new class, "
            "recycle/revive, and concurrent individually-valid edits merged by replication. Because classtype / attributetype entries "
            "only enter the schema in force below domain level 1.11 (from then on the schema is compiled in), part of the histories "
            "run on servers kept at DOMAIN_LEVEL_14: there four attributes (single/multi, utf8/uint32/iname) and two classes with their "
            "own `must` and `may` are added at run time and committed, and creates / modifies / batch modifies of entries of those classes "
            "omit or purge the required attribute, add an attribute no class allows, give two values to a single-valued one, store a wrong "
            "syntax, etc. After every operation all harness-made "
            "entries, and after every schema change or replication all stored entries (built-in included), are judged by the TLA+ Valid "
            "against the schema projected from each server's own schema tables - independent of Entry::validate.",
    "note": "value-level well-formedness beyond the syntax tag (e.g. a valid e-mail address string) is not re-implemented in TLA+; "
            "schema deletions / narrowing are excluded as the property says; trusted: projection of classes/attributes and of the schema, TLC",
    "design_ref": "DESIGN.md section 6, C15",
    "technique": "TLC exhaustive small-schema model; random valid/invalid request histories on two real replicas judged by a TLA+ validity predicate",
}


def strip(r):
    return json.dumps({k: r[k] for k in r if k not in ("st", "schema")})


def run(tier, replay):
    R = lib.Result(PID, tier, META["level"])
    wd = lib.workdir(PID)
    lib.build("store")
    cfg = "KDirSchemaMC" if tier == "quick" else "KDirSchemaMC2"
    mc = lib.tlc("KDirSchemaMC", cfg=cfg, pid=PID, workers=4 if tier == "quick" else 8, timeout=1500)
    lib.tlc_must_pass(mc, "KDirSchema: accept-iff-valid server keeps all live entries valid; refusals leave nothing behind")
    obs = f"{wd}/obs.ndjson"
    if replay:
        lib.kverif("store", ["c15", "--out", obs, "--replay", replay], timeout=3000)
    else:
        lib.kverif("store", ["c15", "--out", obs, "--seed", lib.seed(), "--histories", 3 if tier == "quick" else 14,
                             "--dyn-histories", 2 if tier == "quick" else 10, "--len", 34 if tier == "quick" else 80], timeout=3000)
    tv = lib.trace_validate("KDirSchemaTrace", obs, PID, timeout=3000, xmx="8g")
    lines = lib.read_lines(obs)
    recs = [json.loads(l) for l in lines]
    for t in tv["l1fail"]:
        ln, what = t[2], t[3]
        r = recs[ln - 1]
        i = ln - 1
        while i > 0 and recs[i]["a"] != "reset":
            i -= 1
        why = what.split(" ")[-1]
        opk = r.get("op", {}).get("op", r["a"])
        R.violation(f"invalid-entry {why} after={opk} defect={r.get('defect', '')}",
                    f"after {json.dumps(r.get('op', r['a']))} -> {r['res']} {r.get('err', '')}: {what}", [strip(x) for x in recs[i:ln]])
    ops = {}
    ents_judged = 0
    for r in recs:
        for s in ("A", "B"):
            ents_judged += len(r["st"][s]["ents"])
        if r["a"] == "op":
            o = r["op"]
            kind = "create3" if (o["op"] == "create" and o.get("kind", 0) % 4 == 3) else o["op"]
            k = f"{kind}:{r.get('defect', '') if o['op'] in ('create', 'modify', 'cmodify') else ''}:{r['res']}"
            ops[k] = ops.get(k, 0) + 1
    small = []
    for r in lib.sample(lines):
        if isinstance(r, dict):
            r = dict(r); st = r.pop("st", {}); r.pop("schema", None)
            r["entries_logged"] = {s: len(st.get(s, {}).get("ents", [])) for s in ("A", "B")}
        small.append(r)
    R.coverage = {
        "states": mc["distinct"], "transitions": mc["generated"],
        "traces_validated_against_impl": len([r for r in recs if r["a"] == "reset"]),
        "operations_observed": len([r for r in recs if r["a"] == "op"]),
        "entry_validity_judgements": ents_judged,
        "schema_projections_logged": len([r for r in recs if "schema" in r]),
        "histories_at_level_14_with_runtime_classes": len([r for r in recs if r["a"] == "reset" and r.get("dyn") == 1]),
        "runtime_class_requests": {k: v for k, v in ops.items() if k.startswith("cmodify") or k.startswith("create3")},
        "conflict_entries_observed": sum(1 for r in recs for s in ("A", "B") for e in r["st"][s]["ents"] if e["live"] == "conflict"),
        "op_defect_result_counts": ops,
        "samples": small, "l2_drift": len(tv["drift"]),
    }
    R.assumptions = ["every stored syntax tag is compared to the schema's; per-value well-formedness inside a syntax is not re-checked",
                     "live = not recycled, not tombstone, not a conflict entry"]
    R.finish()
