"""C46 - RADIUS secrets go only to members of required groups."""
import json
from kv import lib, unixlib

PID = "C46"
META = {
    "level": "model_checking",
    "text": "TLC enumerates every required-group list x every ordered user group list (length <= 3) x every VLAN mapping subset "
            "(plus unknown-user cases) and checks the transcription of rlm_kanidm Module::authorise (L2) against the property (L1: "
            "release only to members by uuid or spn; VLAN of the last mapped group else default; own secret only). Every enumerated "
            "case is executed on the real Module::authorise, whose real kanidm client fetches /v1/account/<id>/_radius/_token from a "
            "scripted HTTP endpoint, and every real answer is judged by the TLA+ property.",
    "note": "finite space fully replayed: 3 groups, lists without repetition and 4 required identifiers (quick) / with repetition "
            "and 5 identifiers (thorough); beyond that seeded random configurations over 6 groups with VLAN collisions; "
            "rlm_kanidm's logic.rs/error.rs are compiled into the driver from the working tree by #[path] (no repository hook); "
            "trusted: TLC, identifier bijection, the scripted endpoint; FreeRADIUS FFI glue is not exercised",
    "design_ref": "DESIGN.md section 6, C46",
    "technique": "TLA+ operator spec (KUnix.Radius) model-checked by TLC; model-generated cases replayed through the real "
                 "Module::authorise over HTTP, observations validated by a TLC trace spec",
}


def run(tier, replay):
    R = lib.Result(PID, tier, "model_checking")
    wd = lib.workdir(PID)
    lib.build("unix")
    cfg = "KUnixRadiusMCq" if tier == "quick" else "KUnixRadiusMC"
    mc = lib.tlc("KUnixRadiusMC", cfg=cfg, pid=PID, workers=4, timeout=900)
    lib.tlc_must_pass(mc, f"{cfg}: transcription of Module::authorise vs property")
    cases = unixlib.cases_from(mc)
    sp = unixlib.space(mc)
    if len(cases) != sp[0] or len(cases) != mc["distinct"]:
        lib.tool_error(f"case extraction incomplete: {len(cases)} cases, model space {sp[0]}")
    obs = f"{wd}/obs.ndjson"
    if replay:
        lib.kverif("unix", ["c46", "--out", obs, "--replay", replay])
        ncases = 0
    else:
        unixlib.write_ndjson(f"{wd}/cases.ndjson", cases)
        nrand, per = (100, 8) if tier == "quick" else (1500, 12)
        lib.kverif("unix", ["c46", "--out", obs, "--cases", f"{wd}/cases.ndjson", "--random", nrand,
                            "--per-config", per, "--seed", lib.seed()])
        ncases = len(cases)
    tv = lib.trace_validate("KUnixRadiusTrace", obs, PID)
    lines = lib.read_lines(obs)
    if not replay and len(lines) < ncases:
        lib.tool_error(f"driver observed {len(lines)} lines for {ncases} model cases")
    for t in tv["l1fail"]:
        rec = json.loads(lines[t[2] - 1])
        gl = [g["id"] for g in rec["groups"]]
        R.violation(f"{t[3]} req={json.dumps(rec['req'])} groups={json.dumps(gl)} maps={json.dumps(rec['maps'], sort_keys=True)} "
                    f"dflt={rec['dflt']} vlan={rec['vlan']}",
                    f"real Module::authorise answered {rec['res']} vlan={rec['vlan']} secret={rec['secret']} for required groups "
                    f"{rec['req']}, user groups {gl}, mappings {rec['maps']}, default {rec['dflt']} ({t[3]})",
                    [lines[t[2] - 1]])
    R.coverage = {
        "states": mc["distinct"], "transitions": mc["generated"],
        "traces_validated_against_impl": len(lines),
        "samples": lib.sample(lines),
        "exhaustive": True,
        "model_cases": len(cases), "model_cases_replayed": ncases, "random_cases": max(0, len(lines) - ncases),
        "model_result_counts": {"release": sp[1], "reject": sp[2], "notfound": sp[3], "release_vlan_not_from_last_group": sp[4]},
        "observed_result_counts": unixlib.classes(lines),
        "observed_vlans": unixlib.classes([l for l in lines if '"res":"release"' in l], "vlan"),
        "l2_drift": len(tv["drift"]),
        "trace_states": tv["distinct"],
        "rule": "every (required list, ordered group list, mapping set, presence) of the model space is one TLC state and one "
                "execution of the real Module::authorise over HTTP; a case is judged by KUnix!RadL1 in TLC",
    }
    R.assumptions = ["identifiers sK/uK map to the spn and uuid string of group K; xK to an unrelated string",
                     "the scripted HTTP endpoint answers /v1/account/<id>/_radius/_token as the server would (404 for unknown users)",
                     "user id taken from User-Name (TLS SAN/CN precedence is not part of the property)"]
    R.finish()
