"""C37 - Credential reset links are single use."""
import json, bisect
from kv import lib

PID = "C37"
META = {
    "level": "model_checking",
    "text": "TLC explores all interleavings of exchange / commit / cancel over two reset links of one account and up to three update "
            "sessions at strictly increasing times (link lifetimes 1200 s and 600 s, session lifetime 900 s, time unit 300 s = the real "
            "constants) and checks on every step that at most one change commits per link, that a link cannot be exchanged after its "
            "commit or expiry, that a superseded session cannot commit and that the stored credential changes only by a successful "
            "commit. Every maximal behaviour of the bounded model is printed by TLC and executed on a real IdmServer "
            "(init_credential_update_intent, exchange_intent_credential_update, commit/cancel_credential_update, one write "
            "transaction per call), plus seeded random longer histories at 1 s resolution; TLC judges every observed step.",
    "note": "model: 2 links, <=3 sessions, depth 6 / times 1..7 (quick) or depth 7 / times 1..8 (thorough); replayed: all maximal behaviours of depth 4 / times <=5, gaps <=2 (quick) or depth 5 / "
            "times <=7 (thorough), random histories of 4-14 steps with <=6 sessions; each session sets a distinct primary password right "
            "after its exchange so that a commit is an observable credential change; links are created by idm_admin; the session id "
            "contains 4 random bytes per transaction besides the time, so the stated assumption (strictly increasing time between "
            "exchanges) is kept by construction",
    "design_ref": "DESIGN.md section 6, C37",
    "technique": "TLA+ state machine (KAuthReset) model-checked by TLC; every TLC-generated behaviour replayed on the real IdmServer; TLC trace validation",
}


def cases_from(mc):
    return [json.loads(json.loads('"' + t[1] + '"')) for t in mc["tuples"] if t[0] == "CASE"]


def judge(R, tv, lines):
    starts = [i for i, l in enumerate(lines) if l.startswith('{"a":"reset"')]
    for t in tv["l1fail"]:
        ln, kind = t[2], t[3]
        h = starts[bisect.bisect_right(starts, ln - 1) - 1]
        end = next((s for s in starts if s > h), len(lines))
        rec = json.loads(lines[ln - 1])
        prev = json.loads(lines[ln - 2]) if ln - 2 > h else {"links": "initial", "cred": 0}
        sig = f"{kind} links-before={json.dumps(prev['links'])} cred {prev['cred']}->{rec['cred']}"
        R.violation(sig, f"reset-link step {rec['a']}(link={rec['i']}, session={rec['k']}, t={rec['t']}) answered {rec['res']} with links "
                         f"{prev['links']} -> {rec['links']} and stored credential {prev['cred']} -> {rec['cred']}", lines[h:end])
    return starts


def run(tier, replay):
    R = lib.Result(PID, tier, META["level"])
    wd = lib.workdir(PID)
    lib.build("auth")
    quick = tier == "quick"
    mc = lib.tlc("KAuthResetMC", cfg="KAuthResetMCQ" if quick else "KAuthResetMC", pid=PID, workers=4 if quick else 8, timeout=1500)
    lib.tlc_must_pass(mc, "reset-link machine L2 vs L1")
    for g in (("ReachSuperseded", "ReachReExchange") if quick else ("ReachSuperseded", "ReachTwoCommits", "ReachExpired", "ReachReExchange")):
        r = lib.tlc("KAuthResetMC", cfg=f"KAuthResetMC{g}", pid=PID, workers=2, timeout=300)
        if not r["violated"]:
            lib.tool_error(f"vacuity guard {g}: not reachable in the model (log {r['log']})")
    obs, obsr = f"{wd}/obs.ndjson", f"{wd}/obs-random.ndjson"
    nbeh = 0
    if replay:
        lib.kverif("auth", ["c37", "--out", obs, "--replay", replay])
        unit = json.loads(lib.read_lines(replay)[0]).get("unit", 300)
        tv = lib.trace_validate("KAuthResetTrace", obs, PID, cfg="KAuthResetTrace" if unit == 300 else "KAuthResetTraceSec", timeout=1500)
        lines = lib.read_lines(obs)
        starts = judge(R, tv, lines)
        drift = len(tv["drift"]); nrand = 0; allines = lines
    else:
        gen = lib.tlc("KAuthResetMC", cfg="KAuthResetGenQ" if quick else "KAuthResetGenT", pid=PID, workers=1, timeout=1500, tag="gen")
        lib.tlc_must_pass(gen, "behaviour generation")
        beh = cases_from(gen)
        nbeh = len(beh)
        if nbeh < 500:
            lib.tool_error("behaviour generator produced too few cases")
        bf = f"{wd}/behaviours.ndjson"
        with open(bf, "w") as f:
            for b in beh:
                f.write(json.dumps(b) + "\n")
        lib.kverif("auth", ["c37", "--out", obs, "--behaviours", bf], timeout=7000)
        lib.kverif("auth", ["c37", "--out", obsr, "--random", 40 if quick else 600, "--len", 14, "--seed", lib.seed()], timeout=3000)
        tv = lib.trace_validate("KAuthResetTrace", obs, PID, timeout=1500)
        tvr = lib.trace_validate("KAuthResetTrace", obsr, PID, cfg="KAuthResetTraceSec", timeout=1500, tag="KAuthResetTraceSec")
        lines, rl = lib.read_lines(obs), lib.read_lines(obsr)
        starts = judge(R, tv, lines)
        rstarts = judge(R, tvr, rl)
        drift = len(tv["drift"]) + len(tvr["drift"]); nrand = len(rstarts); allines = lines + rl
    kinds = {}
    for l in allines:
        if l.startswith('{"a":"reset"'):
            continue
        r = json.loads(l)
        k = f"{r['a']}:{r['res']}"; kinds[k] = kinds.get(k, 0) + 1
    R.coverage = {
        "states": mc["distinct"], "transitions": mc["generated"],
        "traces_validated_against_impl": len(starts) + nrand,
        "model_behaviours_replayed": nbeh, "random_histories": nrand,
        "observed_steps": sum(kinds.values()), "steps_by_kind_and_result": kinds,
        "samples": lib.sample([l for l in allines if not l.startswith('{"a":"reset"')]),
        "l2_drift": drift,
        "rule": "every maximal behaviour of the replay model is executed on the real server and every step is judged by the TLA+ property; "
                "the larger model run covers all interleavings to depth 7",
    }
    R.assumptions = ["time strictly increases between operations (in particular between exchanges of one link)",
                     "one server; one write transaction per request, dropped when the request fails",
                     "sessions carry one pending change (a primary password) so that commits are observable"]
    R.finish()
