"""C49 - Accounts outside their validity window cannot authenticate anywhere."""
import json
from kv import lib
from kv.checks import tokcommon

PID = "C49"
META = {
    "level": "model_checking",
    "text": "TLC evaluates the transcription of every authentication / credential-release port (which entry each port reads "
            "the window from, under the shipped access profiles of each asker) against the statement over the whole bounded "
            "matrix port x asker x valid-from x expiry x time; the same matrix at real times (valid-from and expiry absent / "
            "past / exactly now / future) plus seeded random windows is executed on a real default server - interactive "
            "password, passkey and generated-password login, LDAP bind / bound session / token bind, unix password check, "
            "RADIUS secret release, unix token, bearer use of previously issued tokens of EVERY account kind (person, "
            "service account login token and API token, anonymous), anonymous login / LDAP anonymous bind / bound session / token "
            "bind with the window put on the anonymous account AFTER issue, client certificate, OAuth2 authorise / refresh / "
            "introspect - as the end user, a member of idm_radius_servers, a member of idm_unix_authentication_read, anonymous "
            "and the internal identity, and every outcome is judged in TLA+ against the window stored on the account.",
    "note": "finite matrix fully replayed; boundary instants (t = valid-from, t = expiry) may go either way; the OAuth2 "
            "authorise port is reached through the front-end path (token -> identity -> authorise); trusted: TLC, the "
            "harness's classification of 'released' per port (token returned / secret non-empty / unix token valid flag)",
    "design_ref": "DESIGN.md section 6, C49",
    "technique": "TLA+ operator spec (KValidity) checked exhaustively by TLC; full port x asker x window matrix replayed on a real default server and validated by a TLC trace spec",
}


def run(tier, replay):
    R = lib.Result(PID, tier, META["level"])
    wd = lib.workdir(PID)
    lib.build(tokcommon.GROUP)
    quick = tier == "quick"
    mc = lib.tlc("KValidityMC", cfg="KValidityMC" if quick else "KValidityMC2", pid=PID, workers=4, timeout=900)
    lib.tlc_must_pass(mc, "KValidityMC: L2Rel against L1Ok")
    # the transcription of the RADIUS port BEFORE fix 9e5c126 must still be rejected by L1 (vacuity guard)
    allr = lib.tlc("KValidityMC", cfg="KValidityAll", pid=PID, workers=2, timeout=600)
    if allr["error"] or not allr["violated"]:
        lib.tool_error("KValidityAll: the pre-fix RADIUS transcription is no longer rejected by L1")
    obs = f"{wd}/obs.ndjson"
    if replay:
        lib.kverif(tokcommon.GROUP, ["valid", "--out", obs, "--replay", replay])
    else:
        lib.kverif(tokcommon.GROUP, ["valid", "--out", obs, "--random", 20 if quick else 600, "--seed", lib.seed()], timeout=3000)
    tv = lib.trace_validate("KValidityTrace", obs, PID, timeout=1800)
    lines = lib.read_lines(obs)
    parsed = [json.loads(l) for l in lines]
    for t in tv["l1fail"]:
        ln, sig = t[2], t[3]
        rec = parsed[ln - 1]
        R.violation(sig, f"at t={rec['t']} port {rec['port']} asked by {rec['asker']} released / authenticated account {rec['acct']} "
                         f"whose stored window is valid_from={rec['vf']} expire={rec['ex']} (result {rec['res']})",
                    [json.dumps({"a": "reset"}), lines[ln - 1]])
    st_hits = None
    cells = {}
    for r in parsed:
        if r["a"] != "port":
            continue
        outside = (r["vf"] >= 0 and r["t"] < r["vf"]) or (r["ex"] >= 0 and r["ex"] < r["t"])
        k = f"{r['port']}/{r['asker']}/{r['acct']}"
        c = cells.setdefault(k, {"outside": 0, "outside_released": 0, "inside_or_edge": 0, "released": 0})
        c["outside" if outside else "inside_or_edge"] += 1
        c["released"] += int(r["rel"])
        c["outside_released"] += int(r["rel"] and outside)
    if not replay and not R.violations:
        need = 28  # distinct port x asker x account cells of the matrix (person, service account, anonymous)
        if len(cells) < need or any(c["outside"] == 0 or c["inside_or_edge"] == 0 for c in cells.values()):
            lib.tool_error(f"matrix not covered: {len(cells)} cells")
        def mutate(ps):
            for r in ps:
                if r["a"] == "port" and r["port"] == "auth_pw" and not r["rel"] and r["ex"] >= 0 and r["ex"] < r["t"]:
                    x = dict(r); x["rel"] = True
                    return [{"a": "reset"}, x]
            return None
        st_hits = tokcommon.selftest("KValidityTrace", PID, lines, mutate, PID)
    R.coverage = {
        "states": mc["distinct"], "transitions": mc["generated"],
        "model_of_prefix_radius_port_rejected": bool(allr["violated"]),
        "traces_validated_against_impl": sum(1 for r in parsed if r["a"] == "port"),
        "cells_port_asker": cells,
        "l2_drift": len(tv["drift"]), "first_drift_lines": [t[2] for t in tv["drift"][:5]],
        "binding_selftest_rejections": st_hits,
        "samples": lib.sample([l for l in lines if '"port"' in l[:12]] or lines),
    }
    R.assumptions = [
        "outside the window = valid-from not yet arrived or expiry strictly passed (whole seconds); boundary instants are not judged",
        "'released' per port: token / identity returned, RADIUS secret non-empty, unix token returned with valid=true, introspection active",
        "service identities are service accounts added to the shipped groups idm_radius_servers / idm_unix_authentication_read and identified by their API tokens, so the shipped access profiles apply",
        "the window is set by an internal modify of account_valid_from / account_expire and read back from the stored entry",
    ]
    R.finish()
