"""C23 - Searches never disclose what the caller may not read."""
import json
from concurrent.futures import ThreadPoolExecutor
from kv import lib

PID = "C23"
META = {
    "level": "model_checking",
    "text": "TLC checks the transcription of the search access path (search_related_acp, apply_search_access, filter_entries, "
            "attribute reduction; KAccess L2) against the disclosure property written from the statement (KAccess L1) on every "
            "configuration of a bounded space (profile sets x worlds x identities x filters x requested attributes x request kinds); "
            "seeded random profile sets / data / identities / requests are then run against a REAL server (profiles are ordinary "
            "entries parsed by reload_accesscontrols at commit; search_ext, recycle-bin search and exists through the public event "
            "constructors, LDAP search and compare through the real LdapServer::do_op with a bound token) and every real answer is "
            "judged by L1 in TLC, with L2 required to predict it exactly (drift otherwise).",
    "note": "exhaustive within <=2 profiles from a 24-profile pool, 6 (quick) / 36 (thorough) worlds of 4 entries; real-server runs are "
            "sampled (seeded). Trusted: TLC, the projection of stored entries / ACP entries / identities to JSON, the backend candidate "
            "set of a request filter (property C01). LDAP requests use unix-bind sessions (which the gateway bounds to the anonymous "
            "identity) with explicit native attribute lists; internal (system) identities are outside the statement. Reading memberof "
            "implies reading directmemberof (documented rule). The DN of an LDAP result names the entry by spn: counted as a remark only.",
    "design_ref": "DESIGN.md section 6, C23",
    "technique": "TLA+ grant model (KAccess) model-checked by TLC; trace validation of real search_ext / exists observations",
}
ARMS = {"builtin-rule-only", "discloses", "entry-manager", "exists-true", "filter-attr-refused", "recycled-disclosed", "trimmed-to-nothing"}


def model_check(tier):
    if tier == "quick":
        runs = [lib.tlc("KAccessMC", cfg="KAccessMC", pid=PID, workers=4, timeout=900)]
    else:
        with ThreadPoolExecutor(max_workers=3) as ex:
            futs = [ex.submit(lib.tlc, "KAccessMC", f"KAccessMCt_{k}", PID, 2, 3000) for k in ("ext", "recycle", "exists")]
            runs = [f.result() for f in futs]
    arms = set()
    for mc in runs:
        lib.tlc_must_pass(mc, "KAccessMC: search path transcription (L2) vs disclosure property (L1)")
        arms |= {t[1] for t in mc["tuples"] if t[0] == "ARM"}
    if arms != ARMS:
        lib.tool_error(f"vacuity guard: arms not exercised by the exhaustive run: {sorted(ARMS - arms)}")
    return sum(m["distinct"] for m in runs), sum(m["generated"] for m in runs)


def run(tier, replay):
    R = lib.Result(PID, tier, META["level"])
    wd = lib.workdir(PID)
    lib.build("access")
    states, trans = model_check(tier)
    obs = f"{wd}/obs.ndjson"
    if replay:
        lib.kverif("access", ["c23", "--out", obs, "--replay", replay])
    else:
        n, m = (24, 120) if tier == "quick" else (160, 170)
        lib.kverif("access", ["c23", "--out", obs, "--configs", n, "--searches", m, "--seed", lib.seed()])
    tv = lib.trace_validate("KAccessTrace", obs, PID, timeout=3000)
    lines = lib.read_lines(obs)
    recs = [json.loads(l) for l in lines]
    cfg_of, cur = {}, None
    for i, r in enumerate(recs):
        if r["a"] == "cfg":
            cur = i
        cfg_of[i] = cur
    for t in tv["l1fail"]:
        ln, sig = t[2], t[3]
        r = recs[ln - 1]
        R.violation(f"{sig} kind={r['kind']} scope={r['id']['scope']} origin={r['id']['origin']}",
                    f"{r['kind']} as {r['id']['u']} ({r['id']['scope']}) with filter {json.dumps(r['f'])} disclosed "
                    f"{json.dumps(r['out']) if r['kind'] not in ('exists', 'ldapcmp') else 'existence'}: {sig}",
                    [lines[cfg_of[ln - 1]], lines[ln - 1]])
    srch = [r for r in recs if r["a"] == "search"]
    R.coverage = {
        "states": states, "transitions": trans,
        "traces_validated_against_impl": len(srch),
        "samples": lib.sample([l for l, r in zip(lines, recs) if r["a"] == "search"]),
        "l2_drift": len(tv["drift"]),
        "first_drift_line": tv["drift"][0][2] if tv["drift"] else None,
        "configurations": sum(1 for r in recs if r["a"] == "cfg"),
        "requests_by_kind": {k: sum(1 for r in srch if r["kind"] == k) for k in ("ext", "recycle", "exists", "ldap", "ldapcmp")},
        "ldap_searches_disclosing_entries": sum(1 for r in srch if r["kind"] == "ldap" and r["out"]),
        "ldap_compare_true_or_false": sum(1 for r in srch if r["kind"] == "ldapcmp" and r.get("ex2")),
        "remark_ldap_dn_names_spn_without_spn_grant": sum(1 for t in tv["tuples"] if t[0] == "REMARK"),
        "requests_disclosing_entries": sum(1 for r in srch if r["out"]),
        "entries_disclosed": sum(len(r["out"]) for r in srch),
        "exists_true": sum(1 for r in srch if r["ex"]),
        "recycled_disclosed": sum(1 for r in srch if r["kind"] == "recycle" and r["out"]),
        "refused_non_user_or_sync_scope": sum(1 for r in srch if r["id"]["origin"] != "user" or r["id"]["scope"] == "sync"),
        "model_arms_exercised": sorted(ARMS),
        "rule": "each real request is one validated trace line: L1 (KAccess!L1Search / L1Exists) must accept the returned entries and "
                "attribute names given the ACP entries, memberships and entries read back from the same server",
    }
    R.assumptions = ["the backend candidate set of a request filter is taken from the real backend (C01 covers its correctness)",
                     "profiles, entries and identities are projected from the stored entries of the server under test",
                     "a profile granting memberof also grants directmemberof (AccessControlSearch::try_from)"]
    R.finish()
