"""C39 - OAuth2 tokens are redeemable only as issued."""
import json
from kv import lib

PID = "C39"
GROUP = "oauth"
META = {
    "level": "model_checking",
    "text": "TLC explores the transcription of kanidm's token endpoint (authorisation-code exchange, refresh with rotation and "
            "reuse detection), introspection, userinfo and revocation (L2) as a state machine over one grant with real lifetimes "
            "(60 s code, 900 s access, 16 h refresh, 300 s grace) and a coarse alphabet of time jumps, judging every transition "
            "with the property (L1: code redeemable only at its authenticated client, in time, with the same redirect URI and the "
            "matching PKCE verifier; refresh never widens the grant; a rotated refresh token is never accepted again and its "
            "otherwise valid reuse kills the session; tokens of a revoked session / expired account / past their expiry are "
            "rejected by refresh, introspection and userinfo). L1 failures of the transcription are hypotheses: their behaviours, "
            "the covering set of behaviours chosen by TLC and seeded random longer histories are executed on a real IdmServer and "
            "every observed step is judged by the same L1 predicates in a TLC trace spec.",
    "note": "one grant per history, refresh chain <= 3 in the model (longer in random histories), time jumps from a fixed alphabet in "
            "the model (finer in random histories); 'session revoked' in L1 means revoked through the revoke endpoint or by reuse "
            "detection (logout of the parent login session and lazy expiry of login sessions are modelled in L2 only); user login "
            "sessions are given a 400-day lifetime so that they outlive every history; trusted: TLC, the harness's bookkeeping of "
            "which token handle it presents",
    "design_ref": "DESIGN.md section 6, C39",
    "technique": "TLA+ state machine (KOAuth2 Tokens / KOAuth2TokMC) model-checked by TLC with L1 evaluated on every transition; "
                 "counterexample + covering behaviours and seeded random histories replayed on the real IdmServer, validated by a "
                 "stateful TLC trace spec",
}


def _behaviours(mc):
    beh, cex = [], []
    for t in mc["tuples"]:
        if t[0] == "BEH":
            beh.append(json.loads(json.loads('"' + t[1] + '"')))
        elif t[0] == "CEX":
            cex.append((t[1], json.loads(json.loads('"' + t[2] + '"'))))
    return beh, cex


def _lean(lines, path):
    with open(path, "w") as f:
        for l in lines:
            r = json.loads(l)
            r.pop("act", None)
            f.write(json.dumps(r) + "\n")


def run(tier, replay):
    R = lib.Result(PID, tier, META["level"])
    wd = lib.workdir(PID)
    lib.build(GROUP)
    obs = f"{wd}/obs.ndjson"
    cfg = "KOAuth2TokMC" if (tier == "quick" or replay) else "KOAuth2TokMCT"
    # (1) exhaustive exploration of the transcription, L1 judged on every transition
    mc = lib.tlc("KOAuth2TokMC", cfg=cfg, pid=PID, workers=1, timeout=2400, xmx="6g")
    lib.tlc_must_pass(mc, f"{cfg}: token lifecycle transcription")
    beh, cex = _behaviours(mc)
    if len(beh) < 50:
        lib.tool_error(f"KOAuth2TokMC produced only {len(beh)} covering behaviours")
    if replay:
        lib.kverif(GROUP, ["c39", "--out", obs, "--replay", replay])
    else:
        with open(f"{wd}/beh.ndjson", "w") as f:
            for _, b in cex:      # hypotheses first
                f.write(json.dumps(b) + "\n")
            for b in beh:
                f.write(json.dumps(b) + "\n")
        # (2) behaviours of the model + seeded random histories on the real code
        lib.kverif(GROUP, ["c39", "--out", obs, "--behaviours", f"{wd}/beh.ndjson",
                           "--random", 60 if tier == "quick" else 3000, "--len", 25 if tier == "quick" else 40,
                           "--seed", lib.seed()], timeout=3000)
    lines = lib.read_lines(obs)
    _lean(lines, f"{wd}/obs-lean.ndjson")
    tv = lib.trace_validate("KOAuth2TokTrace", f"{wd}/obs-lean.ndjson", PID, timeout=2400)
    recs = [json.loads(l) for l in lines]
    starts = [i for i, r in enumerate(recs) if r["a"] == "reset"]

    def history_upto(ln):
        i = ln - 1
        s = max(x for x in starts if x <= i)
        return lines[s:i + 1]

    for t in tv["l1fail"]:
        ln, clause = t[2], t[3]
        r = recs[ln - 1]
        sig = f"{clause} action={r['a']} res={r.get('res')}"
        what = {
            "exchange": "an authorisation code was redeemed although client / time / redirect URI / PKCE verifier do not match its issue",
            "refresh-scope": "a refresh granted scopes beyond the original grant",
            "reuse-samesec": "an already rotated refresh token was accepted again (or its reuse did not kill the session); the rotation "
                             "had happened within the same second as the token's issue",
            "reuse": "an already rotated refresh token was accepted again (or its reuse did not kill the session)",
            "dead-revoked": "a token of a revoked session was accepted",
            "dead-account": "a token of an account outside its validity window was accepted",
            "dead-expired": "an expired token was accepted",
        }.get(clause, clause)
        R.violation(sig, f"{what}: step {r['a']} g={r.get('g')} at t={r.get('t')} answered {r.get('res')}", history_upto(ln))
    by_action, by_src = {}, {}
    for r in recs:
        k = r["a"] + ":" + (r.get("res", "-").split(":")[0] if r["a"] not in ("reset", "tick", "expire", "restore", "logout") else "-")
        by_action[k] = by_action.get(k, 0) + 1
        if r["a"] == "reset":
            by_src[r.get("src", "?")] = by_src.get(r.get("src", "?"), 0) + 1
    R.coverage = {
        "states": mc["distinct"], "transitions": mc["generated"],
        "traces_validated_against_impl": len(starts),
        "steps_validated": len(recs),
        "samples": lib.sample(lines),
        "model_behaviours_replayed": len(beh), "model_hypotheses": sorted(set(s for s, _ in cex)),
        "histories_by_source": by_src, "observed_step_counts": by_action,
        "l2_drift": len(tv["drift"]), "first_drift_lines": [t[2] for t in tv["drift"][:5]],
        "trace_states": tv["distinct"],
        "rule": "model: every reachable state of the token machine within the stated bounds, L1 on every transition; "
                "implementation: first behaviour per transition signature + hypotheses + seeded random histories, every step judged by L1 in TLC",
    }
    R.assumptions = [
        "time is the ct argument of every call (whole seconds); model time jumps are taken from a fixed alphabet",
        "the harness follows the server's request handler: a token-endpoint transaction is committed on success and on invalid_grant, dropped otherwise",
        "'would the newest refresh token still be accepted' is probed in a write transaction that is dropped",
        "authorisation codes are not single-use in kanidm; only the first successful exchange of a history is followed",
    ]
    R.finish()
