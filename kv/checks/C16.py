"""C16 - No dangling references."""
import json
from kv import lib
from kv import dirsrv_common as dc

PID = "C16"
META = {
    "level": "model_checking",
    "text": "TLC explores a transcription of kanidm's referential-integrity handling (existence check of newly added targets exactly as implemented - one f_inc query under the hidden-entry mask -, "
            "delete with cascade over `refers` dependents and removal of references from every entry, revive with restore of "
            "`refers`, purge, and the dynamic-group re-evaluation that writes the reference attribute dynmember) against "
            "'no reference of a live entry targets a non-live entry'; model counterexamples and sampled model behaviours are "
            "replayed on a real server and seeded random histories over groups, accounts, client certificates (dependents), "
            "OAuth2 clients (scope-map keys) and entry managers are recorded; every committed state is judged by the TLA+ "
            "invariant on ALL reference-typed attributes (by schema syntax) of the projected entries.",
    "note": "model bound: 4 entries, 3 reference attributes, 4 (quick) / 6 (thorough) edits; observations: the model-range "
            "entries, every entry referencing them and their member ancestors after every commit, the whole database on reset "
            "and every 25th step; plus a replicated stage (scripted lag / purge patterns and random lifecycle histories on 2-3 real "
            "replicas) judged by KReplTrace!NoDanglingRef on member / memberof / directmemberof",
    "design_ref": "DESIGN.md section 6, C16",
    "technique": "TLA+ transcription of refint/delete/revive model-checked by TLC; replay of model histories and trace validation of random histories on the real server",
}


def run(tier, replay):
    R = lib.Result(PID, tier, META["level"])
    wd = lib.workdir(PID)
    lib.build(dc.GROUP)
    quick = tier == "quick"
    res, cex, beh = dc.mc("KRefintMC", "KRefintMC" if quick else "KRefintMCt", PID, 1, 3000, kinds=(1, 2, 3, 4, 5, 6, 7, 8))
    parts = []
    replayed = 0
    if replay:
        parts.append(dc.hist_replay(f"{wd}/replay-obs.ndjson", replay))
    else:
        hs = [dc.triples(t) for t in cex[:: max(1, len(cex) // (60 if quick else 600))]] + \
             [dc.triples(t) for t in beh[:: max(1, len(beh) // (60 if quick else 600))]]
        replayed = len(hs)
        dc.write_replay(f"{wd}/model-histories.ndjson", [dc.ops_c16(h) for h in hs])
        parts.append(dc.hist_replay(f"{wd}/obs-model.ndjson", f"{wd}/model-histories.ndjson"))
        parts.append(dc.hist(PID, f"{wd}/obs-hist.ndjson", "C16", 8 if quick else 60, 50 if quick else 200))
        parts.append(dc.hist(PID, f"{wd}/obs-mixed.ndjson", "mixed", 3 if quick else 20, 50 if quick else 150, seed_off=1))
    obs = dc.concat(f"{wd}/obs.ndjson", parts)
    tv, lines = dc.validate_sharded("KRefintTrace", obs, PID, wd, shard=6000, timeout=2400)
    cnt = dc.judge(R, PID, tv, lines, "a live entry holds a reference to an entry that is not live")
    # replicated stage (2-3 real replicas, driver of the repl group): member / memberof references after replication of
    # deletes, recycle-bin purges and tombstones, judged by KReplTrace!NoDanglingRef
    rviol, rhist, rsteps = ([], 0, 0)
    if not replay:
        from kv.checks import _repl
        rviol, rhist, rsteps = _repl.repl_stage(PID, tier, wd, "lifecycle")
        for sig, desc, rl in rviol:
            R.violation(sig, desc, rl)
    R.coverage = {
        "states": res["distinct"], "transitions": res["generated"],
        "model_counterexamples": len(cex), "model_behaviours_sampled": len(beh), "model_histories_replayed": replayed,
        "traces_validated_against_impl": sum(1 for l in lines if '"a":"reset"' in l),
        "observed_states_judged": len(lines),
        "samples": dc.samples(lines),
        "l2_drift": len(tv["drift"]), "l2_drift_first": tv["drift"][:3],
        "l1": cnt, "ops": dc.op_counts(lines),
        "replicated_histories": rhist, "replicated_steps_judged": rsteps,
        "rule": "every observed state: every value of every reference-typed attribute (schema syntax reference / oauth scope map / "
                "claim map) of every live projected entry targets a live entry (TLA+ KRefintTrace!DanglingObs = {})",
    }
    R.assumptions = ["the replicated stage projects member / memberof / directmemberof of the model population only",
                     "references among built-in entries that never involve a model entry are checked on full projections only "
                     "(reset, domain rename, every 25th step)"]
    R.finish()
