"""C33 - Write privilege is bounded in time and by login type."""
import json
from kv import lib
from kv.checks import tokcommon

PID = "C33"
LOGINS = ["anon", "pw", "mfa", "passkey", "genpw", "ldap", "cert", "apiro", "apirw"]
META = {
    "level": "model_checking",
    "text": "TLC evaluates the transcription of the scope rules (issue_uat / to_userauthtoken / to_reissue_userauthtoken / "
            "process_uat_to_identity) against the statement for every login type x privileged flag x issue kind x policy value x "
            "(authentication time, use time) of the bounded space; the same case space at the real constants - every "
            "constructible login type (anonymous, password, password+TOTP, passkey via a software authenticator, generated "
            "password, LDAP unix-password bind, client certificate, API tokens ro/rw), both privileged flags, re-authentication "
            "(grant and verify-only, early, late and chained) and use at every boundary offset - plus seeded random schedules is "
            "executed on a real IdmServer and every observed AccessScope / token expiry is judged by the same TLA+ predicate.",
    "note": "OAuth2-trust logins (upstream provider needed) are model-only; generated-password (service account) logins are "
            "treated as privileged-by-type (rw inside a bounded window from authentication), 'ordinary' = password / MFA / passkey "
            "person logins; privilege window bound PrivMax = 3600 s (MAXIMUM_AUTH_PRIVILEGE_EXPIRY = DEFAULT_AUTH_SESSION_LIMITED_EXPIRY)",
    "design_ref": "DESIGN.md section 6, C33",
    "technique": "TLA+ operator spec (KAuthTokens L1Scope/L2Scope) checked exhaustively by TLC; full case space replayed on the real IdmServer and validated by a TLC trace spec",
}


def run(tier, replay):
    R = lib.Result(PID, tier, META["level"])
    wd = lib.workdir(PID)
    lib.build(tokcommon.GROUP)
    quick = tier == "quick"
    mc = lib.tlc("KAuthPrivMC", cfg="KAuthPrivMC" if quick else "KAuthPrivMC2", pid=PID, workers=4 if quick else 8, timeout=900)
    lib.tlc_must_pass(mc, "KAuthPrivMC: L2Scope against L1Scope")
    obs = f"{wd}/obs.ndjson"
    policies = ["86400:600"] if quick else ["86400:600", "1800:300", "7200:120", "900:60"]
    if replay:
        lib.kverif(tokcommon.GROUP, ["priv", "--out", obs, "--replay", replay])
    else:
        lib.kverif(tokcommon.GROUP, ["priv", "--out", obs, "--policies", ",".join(policies),
                                     "--random", 6 if quick else 60, "--len", 80, "--seed", lib.seed()], timeout=3000)
    tv = lib.trace_validate("KAuthPrivTrace", obs, PID, timeout=1800)
    lines = lib.read_lines(obs)
    parsed = [json.loads(l) for l in lines]
    for t in tv["l1fail"]:
        ln, sig = t[2], t[3]
        rec = parsed[ln - 1]
        R.violation(sig, f"observed {json.dumps({k: rec[k] for k in rec if k != 'st'})}", tokcommon.history_upto(lines, ln))
    # completeness of the systematic case space (first len(policies) histories)
    cover = {}
    for r in parsed:
        if r["a"] == "use":
            k = f"{r['login']}/{int(r['priv'])}/{r['issue']}"
            cover.setdefault(k, {}).setdefault(r["scope"], 0)
            cover[k][r["scope"]] += 1
    if not replay and not R.violations:
        missing = [f"{lg}/{p}/login" for lg in LOGINS for p in (0, 1) if f"{lg}/{p}/login" not in cover]
        missing += [f"{lg}/0/{i}" for lg in ("pw", "mfa", "passkey") for i in ("reauth_rw", "reauth_ro") if f"{lg}/0/{i}" not in cover]
        if missing:
            lib.tool_error(f"case space not covered on the real server: {missing}")
        def mutate(ps):
            for i, r in enumerate(ps):
                if r["a"] == "use" and r["login"] == "pw" and not r["priv"] and r["issue"] == "login" and r["scope"] == "ro":
                    x = dict(r); x["scope"] = "rw"
                    return [ps[0], x]
            return None
        st_hits = tokcommon.selftest("KAuthPrivTrace", PID, lines, mutate, PID)
    else:
        st_hits = None
    uses = [r for r in parsed if r["a"] == "use"]
    R.coverage = {
        "states": mc["distinct"], "transitions": mc["generated"],
        "traces_validated_against_impl": sum(1 for r in parsed if r["a"] == "reset"),
        "observed_lines": len(lines), "uses": len(uses),
        "rw_uses": sum(1 for r in uses if r["scope"] == "rw"),
        "reauth_ok": sum(1 for r in parsed if r["a"] == "reauth" and r["res"] == "ok"),
        "reauth_refused": sum(1 for r in parsed if r["a"] == "reauth" and r["res"] != "ok"),
        "scope_by_login_priv_issue": cover,
        "policies_sessexp_privexp": policies,
        "l2_drift": len(tv["drift"]), "first_drift_lines": [t[2] for t in tv["drift"][:5]],
        "binding_selftest_rejections": st_hits,
        "model_only": ["o2trust"],
        "samples": lib.sample([l for l in lines if '"use"' in l[:12]] or lines),
    }
    R.assumptions = [
        "privilege window bound PrivMax = 3600 s; generated-password logins are privileged by type (rw from authentication, bounded by min(session expiry, 3600 s))",
        "session records are applied immediately after each login (re-authentication requires the record)",
        "OAuth2-trust logins are not constructible without an upstream provider: model-only",
        "passkey logins use the software authenticator webauthn-authenticator-rs (the crate kanidm's own tests use)",
    ]
    R.finish()
