"""Helpers shared by the filter-group checks (C01 C02 C41): sharded exhaustive TLC runs of KFilterMC /
KProtoFilterMC in parallel processes, CASE extraction, parallel chunked trace validation."""
import json, os, re
from concurrent.futures import ThreadPoolExecutor
from kv import lib

GROUP = "filter"

MC_TEMPLATE = """CONSTANTS
  LeafSet = "{leaf}"
  Depth = {depth}
  LayoutIds = {{{layouts}}}
  DbSet = "{dbset}"
  Thres = {thres}
  Wraps = {{{wraps}}}
  SampleK = {samplek}
  CaseCap = {casecap}
INIT Init
NEXT Next
INVARIANT MCInv
POSTCONDITION Census
CHECK_DEADLOCK FALSE
"""


def shard(name, layouts, leaf="tiny", depth=2, dbset="full16", thres=0, wraps="TRUE, FALSE", samplek=60, casecap=40):
    return dict(name=name, leaf=leaf, depth=depth, layouts=", ".join(str(x) for x in layouts), dbset=dbset,
                thres=thres, wraps=wraps, samplek=samplek, casecap=casecap)


def filter_shards(tier):
    """TLC initial-state generation is single threaded, so the product is split over processes."""
    if tier == "quick":
        # 10015 filters (5 leaves, depth<=2, width<=2) x {wrapped, raw} x one layout each, 12+4 entry shapes
        return [shard(f"q{l}", [l]) for l in (16, 17, 4, 22)]
    sh = []
    # 18726 filters (6 leaves) x {wrapped, raw} x the 16 layouts of {eq,pres}x{a,b} with sub+ord indexed
    for i in range(8):
        sh.append(shard(f"t{i}", [2 * i + 1, 2 * i + 2], leaf="small"))
    # without substring / ordering indexes: 4 representative layouts, 5 leaves
    sh.append(shard("tz", [17, 22, 27, 32], leaf="tiny"))
    # the full 12-leaf alphabet (with Self and Invalid) at depth 1, all 32 layouts
    sh.append(shard("tfull", list(range(1, 33)), leaf="full", depth=1))
    # sampled depth 3
    sh.append(shard("td3a", [16, 22], leaf="tiny", depth=3, samplek=40))
    # latent threshold arms (the shipped constant is 0): thresholds 1 and 2 on databases of <= 2 entries
    sh.append(shard("tth1", [16], leaf="tiny", depth=2, dbset="le2s", thres=1, wraps="FALSE", casecap=0))
    sh.append(shard("tth2", [16], leaf="tiny", depth=2, dbset="le2s", thres=2, wraps="FALSE", casecap=0))
    return sh


def _unescape(s):
    return s.replace('\\"', '"').replace("\\\\", "\\")


def run_mc(pid, module, template, shards, par, timeout, seed=None):
    """Run the shards (<= par concurrent TLC processes, one worker each). Returns (results, cases, census)."""
    wd = lib.workdir(pid)

    def one(sh):
        cfgp = f"{wd}/mc_{sh['name']}"
        with open(cfgp + ".cfg", "w") as f:
            f.write(template.format(**sh))
        return sh, lib.tlc(module, cfg=cfgp, pid=pid, workers=1, timeout=timeout, tag=f"mc_{sh['name']}",
                           seed_val=seed, xmx="3g")

    with ThreadPoolExecutor(max_workers=par) as ex:
        out = list(ex.map(one, shards))
    cases, census = [], []
    for sh, res in out:
        if res["error"] or res["rc"] != 0 or res["violated"]:
            print("\n".join(res["out"].splitlines()[-30:]))
            raise lib.ToolError(f"TLC run failed: {module} shard {sh['name']} (log {res['log']})")
        cs = [t for t in res["tuples"] if t[0] == "CENSUS"]
        if not cs:
            raise lib.ToolError(f"{module} shard {sh['name']} printed no CENSUS")
        census.append((sh["name"], cs[-1][1:]))
        for t in res["tuples"]:
            if t[0] == "CASE" and len(t) > 1:
                try:
                    cases.append(json.loads(_unescape(t[1])))
                except Exception:
                    raise lib.ToolError(f"cannot parse CASE from {module} shard {sh['name']}")
    return [r for _, r in out], cases, census


def split_groups(lines, k):
    """Split an observation file into k chunks at `reset` boundaries (each chunk is self-contained)."""
    if not any(l.startswith('{"a":"reset"') for l in lines[:1]):
        # independent lines (one case per line): contiguous even slices
        k = max(1, min(k, len(lines)))
        n = (len(lines) + k - 1) // k
        return [lines[i:i + n] for i in range(0, len(lines), n)]
    groups, cur = [], []
    for l in lines:
        if l.startswith('{"a":"reset"') and cur:
            groups.append(cur)
            cur = []
        cur.append(l)
    if cur:
        groups.append(cur)
    chunks = [[] for _ in range(max(1, min(k, len(groups))))]
    # biggest groups first, always into the currently smallest chunk
    for g in sorted(groups, key=len, reverse=True):
        min(chunks, key=len).extend(g)
    return [c for c in chunks if c]


def validate_parallel(pid, module, lines, k, timeout, tag=""):
    """Validate observation lines with a trace spec in up to k parallel TLC processes.
    Returns (l1fail, drift, chunks) where failures carry (chunk index, tuple)."""
    wd = lib.workdir(pid)
    chunks = split_groups(lines, k)

    def one(i):
        p = f"{wd}/chunk{tag}{i}.ndjson"
        with open(p, "w") as f:
            f.write("\n".join(chunks[i]) + "\n")
        # the trace specs tally their own failures (SUMMARY): a lost / garbled output line must not go unnoticed
        for attempt in (1, 2):
            r = lib.trace_validate(module, p, pid, timeout=timeout, tag=f"tv{tag}{i}", xmx="4g")
            sm = [t for t in r["tuples"] if t[0] == "SUMMARY"]
            if sm and sm[-1][1] == len(r["l1fail"]) and sm[-1][2] == len(r["drift"]):
                return r
        raise lib.ToolError(f"trace validation output of {module} on {p} is inconsistent with its own tally {sm}")

    with ThreadPoolExecutor(max_workers=k) as ex:
        res = list(ex.map(one, range(len(chunks))))
    l1, dr, distinct = [], [], 0
    for i, r in enumerate(res):
        distinct += r["distinct"]
        l1 += [(i, t) for t in r["l1fail"]]
        dr += [(i, t) for t in r["drift"]]
    return l1, dr, chunks, distinct


def replay_context(chunk, ln):
    """Lines that reproduce observation `ln` (1-based) of a chunk: its reset line, the reshapes since, the line."""
    k = ln - 1
    while k > 0 and not chunk[k].startswith('{"a":"reset"'):
        k -= 1
    ctx = [chunk[k]] + [c for c in chunk[k + 1:ln - 1] if c.startswith('{"a":"reshape"')]
    return ctx + [chunk[ln - 1]]


def compact(j):
    """One-line rendering of a model filter for messages."""
    k = j.get("k")
    if k in ("and", "or"):
        return ("&" if k == "and" else "|") + "(" + " ".join(compact(x) for x in j["fs"]) + ")"
    if k == "not":
        return "!" + compact(j["f"])
    if k in ("pres", "inv"):
        return f"{k}({j['a']})"
    if k == "self":
        return "self"
    return f"{j['a']}.{k}.{j.get('v')}"
