"""C47 - Stopping a supervisor stops everything under it."""
import json
from kv import lib, unixlib

PID = "C47"
META = {
    "level": "model_checking",
    "text": "KActors transcribes libs/actors/src/lib.rs (SupervisorTask::run select/broadcast/closed, Supervisor::stop/spawn/"
            "subordinate, SupervisedActor::run, Runtime::exec) step by step; TLC explores ALL interleavings of the tasks and of an "
            "environment that registers, stops, drops and signals, against the safety property (stop(s)/exec returned => every node "
            "registered under s when the stop was issued has run cleanup and stopped). The implementation side runs the real crate "
            "on a real tokio multi-thread runtime (random trees to depth 3, blocking / early-finishing / long-running actors, "
            "random yields and sleeps, stops and the terminate signal at random points); its event logs (sequence-numbered under one "
            "mutex, harness side, no hook) are judged by the same property in TLC on logical order only and must be reproducible "
            "by the model (unlogged task steps inferred by TLC).",
    "note": "schedules are exhaustive in the model (bounded: 3 supervisors in a chain, 2-3 actors) but SAMPLED on the implementation "
            "(tokio has no deterministic scheduler): 400 (quick) / 3000 (thorough) random runs plus 192 / 1200 runs of the nested-stop "
            "scenario family (owner actor stops its subordinate from cleanup while the parent stops); liveness (stop eventually returns) is a "
            "secondary, non-listed property checked under weak fairness and reported in the evidence only; trusted: TLC, tokio's "
            "broadcast/mpsc contracts as modelled, the harness event logger",
    "design_ref": "DESIGN.md section 6, C47",
    "technique": "TLA+ state-machine spec (KActors) exhaustively model-checked by TLC; randomised real tokio runs validated by a TLC "
                 "trace spec with inferred hidden steps; model counterexamples replayed as deterministic scenarios",
}


def split_runs(lines):
    runs, cur = [], None
    for i, l in enumerate(lines):
        r = json.loads(l)
        if r["a"] == "reset":
            cur = {"id": r["run"], "scenario": r["scenario"], "start": i + 1, "lines": []}
            runs.append(cur)
        cur["lines"].append(l)
    return runs


def run(tier, replay):
    R = lib.Result(PID, tier, "model_checking")
    wd = lib.workdir(PID)
    lib.build("unix")
    quick = tier == "quick"
    states = trans = 0
    mcinfo = {}
    # (1) exhaustive: L2 against L1 under a well-behaved environment (nothing registered under a stopping subtree)
    for cfg in (["KActorsMCq"] if quick else ["KActorsMC", "KActorsMCnz"]):
        mc = lib.tlc("KActorsMC", cfg=cfg, pid=PID, workers=4 if quick else 8, timeout=3000, xmx="8g")
        lib.tlc_must_pass(mc, f"{cfg}: shutdown protocol (L2) vs stop safety (L1)")
        states += mc["distinct"]; trans += mc["generated"]
        mcinfo[cfg] = {"states": mc["distinct"], "transitions": mc["generated"], "wall_s": round(mc["wall_s"], 1)}
    # vacuity guard: each run is expected to stop at a witness state (stops with real work and exec termination with
    # work all finished; an actor that finished early while its supervisor is still running)
    for cfg, inv in (("KActorsMCreachq", "ReachAll"), ("KActorsMCreache", "ReachEarly")):
        rc = lib.tlc("KActorsMC", cfg=cfg, pid=PID, workers=4, timeout=900)
        if rc["error"] or inv not in rc["violated"]:
            print("\n".join(rc["out"].splitlines()[-30:]))
            lib.tool_error(f"vacuity guard: witness for {inv} not reachable in the model (log {rc['log']})")
    # model-only explorations (hypotheses / secondary), never alarms
    if not quick:
        fr = lib.tlc("KActorsMC", cfg="KActorsMCfree", pid=PID, workers=4, timeout=1800)
        if fr["error"]:
            lib.tool_error(f"KActorsMCfree did not run (log {fr['log']})")
        mcinfo["free_environment_safety"] = ("counterexample, model only (an actor registered on a subordinate whose task already "
                                             "exited is not reached by a later stop() of that subordinate's PARENT handle; the direct "
                                             "case, scenario 'zombie', is repaired by f3903f9)") if fr["violated"] else "holds"
        for cfg, key in (("KActorsMClive", "liveness_behaved_environment"), ("KActorsMClivefree", "liveness_free_environment")):
            lv = lib.tlc("KActorsMC", cfg=cfg, pid=PID, workers=8, timeout=3000, xmx="8g")
            import re
            tviol = re.search(r"Temporal propert(y|ies)\b[^\n]*violated", lv["out"]) is not None
            if lv["error"] and not tviol:
                lib.tool_error(f"{cfg} did not run (log {lv['log']})")
            viol = lv["violated"] or tviol
            mcinfo[key] = "counterexample (secondary property, see notes/unix.md)" if viol else "holds"
    # (2) the real crate on a real tokio runtime
    obs = f"{wd}/obs.ndjson"
    if replay:
        lib.kverif("unix", ["c47", "--out", obs, "--replay", replay], timeout=3000)
    else:
        nruns, orounds = (400, 48) if quick else (3000, 300)
        # scenario family `owner` (4 runs per round: root / nested parent x current-thread / multi-thread runtime): an actor
        # stops the subordinate supervisor it owns from its cleanup while the parent's stop reaches that subordinate too
        lib.kverif("unix", ["c47", "--out", obs, "--scenarios", "zombie,late", "--owner-rounds", orounds, "--runs", nruns,
                            "--seed", lib.seed()], timeout=3000)
    tv = lib.trace_validate("KActorsTrace", obs, PID, timeout=2400)
    lines = lib.read_lines(obs)
    runs = split_runs(lines)
    okruns = set(t[1] for t in tv["tuples"] if t[0] == "RUNOK")
    pending = [r for r in runs if r["id"] not in okruns]
    drift = 0
    if pending:
        # second pass: full search over the unlogged interleavings for the runs the eager strategy did not explain
        p2 = f"{wd}/obs-pass2.ndjson"
        with open(p2, "w") as f:
            for r in pending:
                f.write("\n".join(r["lines"]) + "\n")
        tv2 = lib.trace_validate("KActorsTrace", p2, PID, cfg="KActorsTraceFull", timeout=2400, tag="KActorsTraceFull")
        ok2 = set(t[1] for t in tv2["tuples"] if t[0] == "RUNOK")
        drift = len([r for r in pending if r["id"] not in ok2])
    # L1 failures, one report per (run, signature)
    seen = set()
    for t in sorted(tv["l1fail"], key=lambda t: t[2]):
        ln, sig = t[2], t[3]
        r = [x for x in runs if x["start"] <= ln][-1]
        if (r["id"], sig) in seen:
            continue
        seen.add((r["id"], sig))
        rec = json.loads(lines[ln - 1])
        R.violation(f"{sig} scenario={r['scenario']} at={rec['a']}",
                    f"run {r['id']} ({r['scenario']}): line {ln - r['start'] + 1} of the run, event {rec}: {sig}",
                    r["lines"])
    ev = [json.loads(l) for l in lines]
    hangs = [e for e in ev if e["a"] == "hang"]
    notes = sorted(set(e["what"] for e in ev if e["a"] == "note"))
    R.coverage = {
        "states": states, "transitions": trans,
        "traces_validated_against_impl": len(runs),
        "samples": [[json.loads(x) for x in r["lines"][:40]] for r in runs[2:3]] or lib.sample(lines),
        "exhaustive": False,
        "schedules": "exhaustive in the model; sampled on the implementation (real tokio multi-thread runtime)",
        "model_runs": mcinfo,
        "impl_runs": len(runs), "impl_events": len(lines),
        "impl_runs_by_scenario": unixlib.classes([json.dumps({"res": r["scenario"]}) for r in runs]),
        "event_counts": unixlib.classes(lines, "a"),
        "runs_explained_eager": len(okruns), "runs_second_pass": len(pending), "l2_drift": drift,
        "trace_states": tv["distinct"],
        "secondary_liveness": {"hang_events": len(hangs), "scenario_notes": notes},
        "rule": "one trace = one run of Runtime::exec with a random supervisor tree; L1 (KActorsTrace!L1Sig) is evaluated on the "
                "order of logged events only; the verdict does not depend on timing",
    }
    R.assumptions = ["event log order is the order of acquisition of one global mutex; registrations are logged after they completed, "
                     "stop returns after they happened, actor callbacks while they execute (so every L1 obligation is sound)",
                     "'stopped' for an actor = cleanup finished and no further callback; for a supervisor = its run() returned "
                     "(only observable through its actors without a hook)",
                     "random runs never register under a subtree whose stop was already issued (that case is covered by the "
                     "deterministic scenarios 'zombie' and 'late' derived from model counterexamples)",
                     "scenario family 'owner' races handle.stop() on a subordinate (from its owner's cleanup) against the parent's stop / "
                     "runtime termination on current-thread and multi-thread runtimes; which select! branch wins is tokio's choice"]
    R.finish()
