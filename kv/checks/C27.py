"""C27 - Authentication needs every factor, and denial is final."""
import json, bisect
from concurrent.futures import ThreadPoolExecutor
from kv import lib

PID = "C27"
META = {
    "level": "model_checking",
    "text": "TLC explores every sequence of at most 5 steps (Init, Begin(all 7 mechanisms, offered or not), Cred(8 credential kinds), optional clock advance) "
            "of the transcribed auth-session machine (handler selection, start_session, validate_creds, the per-handler factor machines, "
            "the soft-lock consultation) for every credential configuration and validity window, checking the property on every step. "
            "The same step alphabet is then driven, EVERY sequence up to the tier's length, through the real IdmServer::auth on accounts "
            "with real credentials (password, password+TOTP, +backup codes, anonymous, none), and TLC judges every observed answer "
            "(token only after all factors in order in this session, no password-only offer with a second factor, no success outside "
            "the validity window, nothing accepted after denial/success -- a Begin naming a mechanism that was not offered counts as a denied step "
            "whatever the transport answer).",
    "note": "replayed exhaustively: sequences starting with Init of length <=4 (quick) / <=5 (thorough) for in-window accounts of the 4 "
            "credential-bearing configurations, all sequences of length <=2 with any first step, and length <=3 / <=4 for accounts "
            "without credentials, outside the window, or whose window is crossed by a 120 s clock advance at every position. "
            "Passkey / security-key ceremonies are abstract (mechanism 'passkey' is only requested, never completed: no authenticator "
            "crate outside dev-dependencies); password+backup-codes without TOTP is not constructible (remove_totp drops the codes); "
            "OAuth2-trust handlers are not modelled. TOTP codes are computed with kanidm's own Totp (C29 judges that function).",
    "design_ref": "DESIGN.md section 6, C27",
    "technique": "TLA+ auth-session machine (KAuthSession) model-checked by TLC; exhaustive replay of the step-sequence space on the real IdmServer; TLC trace validation",
}

ALPHA = 16


def n_init_first(maxlen):
    return sum(ALPHA ** k for k in range(0, maxlen))


def expected_histories(maxlen, sidelen):
    full = n_init_first(maxlen)
    any2_noninit = (ALPHA - 1) + (ALPHA - 1) * ALPHA
    side = n_init_first(sidelen)
    cross = sum((ALPHA ** (k - 1)) * (k - 1) for k in range(1, sidelen + 1))   # one per advance position 2..len
    return 4 * (full + any2_noninit) + side + 6 * side + 8 * cross


def validate_sharded(obs, lines, starts, wd, shards):
    if shards <= 1:
        tv = lib.trace_validate("KAuthSessionTrace", obs, PID, timeout=3000, xmx="6g")
        return [(0, tv)]
    per = (len(starts) + shards - 1) // shards
    jobs = []
    for i in range(shards):
        hs = starts[i * per:(i + 1) * per]
        if not hs:
            continue
        lo = hs[0]
        hi = starts[(i + 1) * per] if (i + 1) * per < len(starts) else len(lines)
        p = f"{wd}/obs-{i}.ndjson"
        with open(p, "w") as f:
            f.write("\n".join(lines[lo:hi]) + "\n")
        jobs.append((lo, p, i))
    out = []
    with ThreadPoolExecutor(max_workers=min(4, len(jobs))) as ex:
        futs = [(lo, ex.submit(lib.trace_validate, "KAuthSessionTrace", p, PID, None, 3000, "4g", None, f"KAuthSessionTrace{i}")) for lo, p, i in jobs]
        for lo, f in futs:
            out.append((lo, f.result()))
    return out


def run(tier, replay):
    R = lib.Result(PID, tier, META["level"])
    wd = lib.workdir(PID)
    lib.build("auth")
    quick = tier == "quick"
    mc = lib.tlc("KAuthSessionMC", cfg="KAuthSessionMC", pid=PID, workers=4 if quick else 8, timeout=1500)
    lib.tlc_must_pass(mc, "auth-session machine L2 vs L1 (all sequences <= 5)")
    for g in (("ReachTotpSuccess", "ReachRefusedChoice") if quick else ("ReachTotpSuccess", "ReachBackupSuccess", "ReachLockedBegin", "ReachCrossWindow", "ReachRefusedChoice")):
        r = lib.tlc("KAuthSessionMC", cfg=f"KAuthSessionMC{g}", pid=PID, workers=2, timeout=300)
        if not r["violated"]:
            lib.tool_error(f"vacuity guard {g}: not reachable in the model (log {r['log']})")
    obs = f"{wd}/obs.ndjson"
    maxlen, sidelen = (4, 3) if quick else (5, 4)
    if replay:
        lib.kverif("auth", ["c27", "--out", obs, "--replay", replay])
    else:
        lib.kverif("auth", ["c27", "--out", obs, "--maxlen", maxlen, "--sidelen", sidelen], timeout=3000)
    lines = lib.read_lines(obs)
    starts = [i for i, l in enumerate(lines) if l.startswith('{"a":"reset"')]
    if not replay and len(starts) != expected_histories(maxlen, sidelen):
        lib.tool_error(f"sequence space not covered: {len(starts)} histories, expected {expected_histories(maxlen, sidelen)}")
    results = validate_sharded(obs, lines, starts, wd, 1 if (quick or replay) else 8)
    drift = 0
    for lo, tv in results:
        drift += len(tv["drift"])
        for t in tv["l1fail"]:
            ln, kind = lo + t[2], t[3]
            h = starts[bisect.bisect_right(starts, ln - 1) - 1]
            end = next((s for s in starts[bisect.bisect_right(starts, h):] if s > h), len(lines))
            hd = json.loads(lines[h]); rec = json.loads(lines[ln - 1])
            seq = " ".join(f"{a}:{x}" if x else a for a, x in hd["seq"][: ln - 1 - h])
            sig = f"{kind} cfg={hd['cfg']} w={hd['w']} adv={hd['adv']} seq={seq}"
            R.violation(sig, f"auth step answered {rec['res']} (token={rec['tok']}, usable as bearer={rec.get('use')}) after steps [{seq}] on an account "
                             f"with credentials '{hd['cfg']}', validity window '{hd['w']}', clock advance before step {hd['adv']}",
                        lines[h:end])
    cls = {}
    succ = 0
    for l in lines:
        if l.startswith('{"a":"reset"'):
            continue
        r = json.loads(l)
        cls[r["res"]] = cls.get(r["res"], 0) + 1
        succ += r["tok"]
    R.coverage = {
        "states": mc["distinct"], "transitions": mc["generated"],
        "traces_validated_against_impl": len(starts),
        "observed_steps": len(lines) - len(starts),
        "answers_by_class": cls, "tokens_issued": succ,
        "max_sequence_length": maxlen, "side_sequence_length": sidelen,
        "samples": lib.sample(lines),
        "exhaustive": not replay,
        "l2_drift": drift,
        "rule": "every sequence of the stated space is executed on the real server (count checked against the closed form) and each answer "
                "is judged by the TLA+ property; the model run covers all sequences <= 5 over the same alphabet",
        "not_replayed": ["passkey / security key / attested passkey ceremonies", "OAuth2-trust handler", "password+backup codes without TOTP (not constructible)"],
    }
    R.assumptions = ["one auth transaction per step, all steps of a sequence at one simulated time except across the stated clock advance",
                     "soft-lock state is isolated between sequences by moving the account's clock past every lock window",
                     "delayed actions (session records, backup-code removal) are applied after every sequence as the server's task does"]
    R.finish()
