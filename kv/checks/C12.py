"""C12 - Stored and replicated values read back unchanged."""
import json
from kv import lib

PID = "C12"
META = {
    "level": "exploration",
    "text": "A value universe (one account per supported imported-password format as primary and as unix credential, generated "
            "credentials, sessions in every state, OAuth2 sessions, API tokens, ssh keys, mail, dates, OAuth2 client maps, keyed "
            "multi-values with shared outer keys (3 application passwords for one application + 1 for another, 3 sessions of one "
            "credential, 3 API tokens of one issuer, 2 OAuth2 sessions of one parent/client, 2 ssh key tags), a recycled "
            "entry, plus every built-in entry of the server: schema, ACPs, keys, certificates) is taken through every chain of up "
            "to 2 (quick) / 3 (thorough) storage transitions - reload from DB rows, backup/restore plain and gzip, replication refresh, "
            "incremental replication - on real servers using the real encoders; the chains are enumerated by TLC from the KStoreVal "
            "model and the observation of every stored value (canonical DB form, proto form, password verdicts on a cleartext probe "
            "set, and for keyed multi-values the set of (outer key, inner identity) pairs) after each step is judged by the TLA+ invariant 'Observe is unchanged'. Level is exploration because encoder "
            "fidelity is exercised on a finite universe, not modelled.",
    "note": "trusted: the Observe projection (inlib/store.rs observe_vs: canonical JSON of to_db_valueset_v2, proto strings, "
            "Password::verify verdicts memoised per password material), TLC; non-replicated attributes are only required to "
            "survive `reload` (replication does not carry them and a server start re-stamps them)",
    "design_ref": "DESIGN.md section 6, C12",
    "technique": "TLC-enumerated chains of storage transitions replayed on real servers; TLA+ trace spec judges observation invariance",
}

OKRES = {"ok", "changes"}


def diff_sig(pre, post, eid, trans):
    """signature of the minimal violating observation: which attribute of which kind changed how"""
    if eid == "#transition":
        return [f"transition-failed trans={trans}"]
    if eid not in post:
        return [f"entry-lost trans={trans} model={int(not '-' in eid)}"]
    sigs = []
    a, b = pre[eid], post[eid]
    if a["live"] != b["live"]:
        sigs.append(f"liveness-changed trans={trans} before={a['live']} after={b['live']}")
    # keyed multi-values: which (outer key, inner identity) pairs were lost / appeared
    for at in sorted(set(a.get("p", {})) | set(b.get("p", {}))):
        x = {tuple(q) for q in a.get("p", {}).get(at, [])}
        y = {tuple(q) for q in b.get("p", {}).get(at, [])}
        if x != y:
            lost, new = sorted(x - y), sorted(y - x)
            shared = sorted({k for k, _ in lost} & {k for k, _ in y})
            sigs.append(f"keyed-members-changed attr={at} lost={len(lost)} appeared={len(new)} lost-under-surviving-outer-key={int(bool(shared))}")
    parts = ("r", "n") if trans == "reload" else ("r",)
    for part in parts:
        for at in sorted(set(a[part]) | set(b[part])):
            x, y = a[part].get(at), b[part].get(at)
            if x != y:
                fx = (x or "absent").split("|")
                fy = (y or "absent").split("|")
                syn = fx[0]
                beh_x = fx[4] if len(fx) > 4 else ""
                beh_y = fy[4] if len(fy) > 4 else ""
                dx = beh_x or ("db:" + fx[2] if len(fx) > 2 else fx[0])
                dy = beh_y or ("db:" + fy[2] if len(fy) > 2 else fy[0])
                sigs.append(f"obs-changed attr={at} syntax={syn} before={dx} after={dy}")
    return sigs or [f"obs-changed entry={eid} trans={trans}"]


def run(tier, replay):
    R = lib.Result(PID, tier, META["level"])
    wd = lib.workdir(PID)
    lib.build("store")
    # (1) the transition structure: every chain of <= MaxLen transitions, enumerated by TLC; L2 (identity) vs L1
    cfg = "KStoreValMC" if tier == "quick" else "KStoreValMC3"
    mc = lib.tlc("KStoreValMC", cfg=cfg, pid=PID, workers=2, timeout=300)
    lib.tlc_must_pass(mc, "KStoreVal: identity model against 'Observe unchanged'")
    chains = [t[1:] for t in mc["tuples"] if t[0] == "CASE"]
    chains = sorted(set(tuple(c) for c in chains), key=lambda c: (len(c), c))
    if len(chains) != mc["distinct"] - 1:
        lib.tool_error(f"TLC printed {len(chains)} chains for {mc['distinct']} states")
    cf = f"{wd}/chains.ndjson"
    if replay:
        cf = replay
    else:
        with open(cf, "w") as f:
            for c in chains:
                f.write(json.dumps({"chain": list(c)}) + "\n")
    # (2) every chain on real servers
    obs = f"{wd}/obs.ndjson"
    lib.kverif("store", ["c12", "--chains", cf, "--out", obs, "--seed", lib.seed()], timeout=3000)
    # (3) TLC judges every observed step
    tv = lib.trace_validate("KStoreValTrace", obs, PID, timeout=3000, xmx="8g")
    lines = lib.read_lines(obs)
    recs = [json.loads(l) for l in lines]
    chain_of = {}
    for i, r in enumerate(recs):
        if r["a"] == "reset":
            cur = r["chain"]
        chain_of[i] = cur
    for t in tv["l1fail"]:
        ln, eid = t[2], t[3]
        pre, post, a = recs[ln - 2]["st"], recs[ln - 1]["st"], recs[ln - 1]["a"]
        k = recs[ln - 1].get("k", 1)
        for sig in diff_sig(pre, post, eid, a):
            R.violation(sig, f"after storage transition '{a}' (step {k} of chain {chain_of[ln-1]}) entry {eid}: {sig}; "
                             f"result class {recs[ln-1]['res']}",
                        [json.dumps({"chain": chain_of[ln - 1][:k]})])
    # coverage, measured
    steps = [r for r in recs if r["a"] != "reset"]
    evaluations = 0
    kinds = set()
    for i, r in enumerate(recs):
        if r["a"] == "reset":
            continue
        pre = recs[i - 1]["st"]
        for eid, e in pre.items():
            for part in ("r", "n"):
                for at, o in e[part].items():
                    evaluations += 1
                    f = o.split("|")
                    kind = f[0] if at != "*" else "entry-digest"
                    if len(f) > 4 and f[4]:
                        kind += ":" + ":".join(f[4].split(":")[1:2])
                    kinds.add((kind, r["a"], r.get("k", 1)))
    small = []
    for r in lib.sample(lines):
        if isinstance(r, dict):
            st = r.get("st", {})
            keep = {k: st[k] for k in list(st)[:2]}
            r = dict(r); r["st"] = keep; r["st_entries"] = len(st)
        small.append(r)
    R.coverage = {
        "evaluations": evaluations,
        "distinct_nontrivial": len(kinds),
        "rule": "one evaluation = one stored attribute observation compared across one storage transition; distinct = distinct "
                "(value kind [syntax, or syntax:password-KDF for credentials, or whole-entry digest for built-in entries], transition "
                "kind, position in chain); all are non-trivial: every compared value is a non-empty stored valueset",
        "samples": small,
        "chains": len(chains) if not replay else len([r for r in recs if r["a"] == "reset"]),
        "chain_max_len": 2 if tier == "quick" else 3,
        "transition_steps_observed": len(steps),
        "model_states": mc["distinct"], "model_transitions": mc["generated"],
        "entries_per_state": len(recs[0]["st"]) if recs else 0,
        "l2_drift": len(tv["drift"]),
        "exhaustive": False,
    }
    cov_pairs = {}
    for eid, e in (recs[0]["st"] if recs else {}).items():
        for at, ps in e.get("p", {}).items():
            outer = {}
            for k, i in ps:
                outer.setdefault(k, set()).add(i)
            cov_pairs[at] = {"pairs": max(len(ps), cov_pairs.get(at, {}).get("pairs", 0)),
                             "max_members_under_one_outer_key": max([len(v) for v in outer.values()] + [cov_pairs.get(at, {}).get("max_members_under_one_outer_key", 0)])}
    R.coverage["keyed_multivalue_shapes"] = cov_pairs
    if not replay and not any(v["max_members_under_one_outer_key"] >= 2 for k, v in cov_pairs.items() if k == "application_password"):
        lib.tool_error("universe has no application passwords sharing an application (vacuous for keyed multi-values)")
    R.assumptions = ["Observe (canonical DB form + proto strings + password verdicts on 4 probe cleartexts) is what 'equivalent value "
                     "with identical behaviour' means; verdicts are memoised per password material",
                     "values outside the universe (webauthn/passkey credentials, images, TOTP secrets) are not exercised",
                     "non-replicated attributes are required to survive reload only"]
    R.finish()
