"""C21 - POSIX ids never land in reserved ranges."""
import json, os, re, shutil, concurrent.futures
from kv import lib

PID = "C21"
META = {
    "level": "model_checking",
    "text": "The two arithmetic statements of the property (generated numbers 0x70000000|(u&0x0fffffff) and every accepted "
            "user-supplied number lie outside the reserved ranges) are discharged by Apalache over the FULL 32-bit ranges as "
            "symbolic integer arithmetic on the transcription KGid (no enumeration; two canary invariants must be refuted), TLC "
            "checks the same on every interval boundary +-2 and the pair arithmetic of the trace module; the boundary set (from "
            "TLC) and seeded random uuids / numbers are run through the real gidnumber plugin on create, modify, replace and batch "
            "modify paths for accounts and groups, each generation repeated through a second path, and every observation is judged "
            "by the TLA+ property (reserved = exactly the statement's ranges; one-sided: a stricter plugin is accepted).",
    "note": "the Apalache result is about the TLA+ transcription; its binding to the code is the trace validation (L2 drift = 0 means "
            "every real answer equals the transcription). trusted: Apalache/Z3, TLC, uuid tail extraction in the harness",
    "design_ref": "DESIGN.md section 6, C21",
    "technique": "Apalache symbolic check of the arithmetic over 2^32 values; TLC boundary check; real plugin replay validated by TLC trace spec",
}


def apalache(inv, wd, timeout):
    out = f"{wd}/apa_{inv}"
    shutil.rmtree(out, ignore_errors=True)
    cmd = ["apalache-mc", "check", "--length=0", f"--inv={inv}", f"--out-dir={out}", f"{lib.SPEC}/KGidApa.tla"]
    try:
        rc, o, dt = lib.run(cmd, cwd=wd, timeout=timeout, env={"JVM_ARGS": "-Xmx2g"})
    except lib.ToolError:
        return {"inv": inv, "status": "timeout", "cmd": " ".join(cmd), "wall_s": timeout}
    st = "noerror" if "The outcome is: NoError" in o else ("violated" if "The outcome is: Error" in o or "violat" in o.lower() else "failed")
    shutil.rmtree(out, ignore_errors=True)
    return {"inv": inv, "status": st, "cmd": " ".join(cmd), "wall_s": round(dt, 1), "tail": o.splitlines()[-6:]}


def run(tier, replay):
    R = lib.Result(PID, tier, META["level"])
    wd = lib.workdir(PID)
    lib.build("store")
    # (1) symbolic: both statements over all 32-bit values; canaries must be refuted. Run concurrently with the rest.
    ex = concurrent.futures.ThreadPoolExecutor(max_workers=3)
    tmo = 240 if tier == "quick" else 900
    invs = ("Inv", "CanaryAccept") if tier == "quick" else ("Inv", "CanaryAccept", "CanaryGen")
    futs = [ex.submit(apalache, inv, wd, tmo) for inv in invs]
    # (2) TLC: boundaries, pair arithmetic, arms; also yields the boundary set for the harness
    mc = lib.tlc("KGidMC", cfg="KGidMC", pid=PID, workers=2, timeout=300)
    lib.tlc_must_pass(mc, "KGid: transcription vs reserved ranges on all interval boundaries")
    edges = sorted(set(t[1] for t in mc["tuples"] if t[0] == "EDGE"))
    if len(edges) < 20:
        lib.tool_error("TLC did not print the boundary set")
    edges += [2147483647, 2147483648, 4294967295]
    # (3) the real plugin
    obs = f"{wd}/obs.ndjson"
    if replay:
        lib.kverif("store", ["c21", "--out", obs, "--replay", replay])
    else:
        lib.kverif("store", ["c21", "--out", obs, "--seed", lib.seed(), "--edges", ",".join(str(e) for e in edges),
                             "--random", 300 if tier == "quick" else 20000], timeout=3000)
    tv = lib.trace_validate("KGidTrace", obs, PID, timeout=1800)
    lines = lib.read_lines(obs)
    for t in tv["l1fail"]:
        rec = json.loads(lines[t[2] - 1])
        val = lambda p: None if p["h"] < 0 else p["h"] * 65536 + p["l"]
        R.violation(f"gid path={rec['path']} kind={rec['kind']} supplied={val(rec['sup'])} res={rec['res']} stored={val(rec['gid'])} again={val(rec['gid2'])}",
                    f"gidnumber plugin: uuid tail {val(rec['u'])}, supplied {val(rec['sup'])} -> {rec['res']}, stored {val(rec['gid'])} "
                    f"(second path {val(rec['gid2'])}): violates the reserved-range property", [lines[t[2] - 1]])
    apa = [f.result() for f in futs]
    main, canaries = apa[0], apa[1:]
    if main["status"] == "violated":
        # a counterexample on the transcription alone is a hypothesis (GUIDE section 1): the real plugin was replayed
        # on the boundary set above and judged by L1; report as tool-level inconsistency of the model, not as VIOLATION
        lib.tool_error("Apalache refutes KGid!Inv: the transcription L2 does not meet L1 - inspect spec/KGid.tla against gidnumber.rs")
    if main["status"] == "failed" or any(c["status"] == "failed" for c in canaries):
        print(json.dumps(apa, indent=1)[:3000])
        lib.tool_error("apalache-mc failed")
    if any(c["status"] == "noerror" for c in canaries):
        lib.tool_error("Apalache canary invariant was not refuted: symbolic check is vacuous")
    proved = main["status"] == "noerror"
    paths = {}
    for l in lines:
        r = json.loads(l); k = f"{r['path']}:{r['res'].split(':')[0]}"; paths[k] = paths.get(k, 0) + 1
    R.coverage = {
        "states": mc["distinct"], "transitions": mc["generated"],
        "traces_validated_against_impl": len(lines), "samples": lib.sample(lines),
        "l2_drift": len(tv["drift"]),
        "observed_path_result_counts": paths,
        "obligations": 2, "discharged": 2 if proved else 0,
        "checker_cmd": main["cmd"],
        "trusted_base": ["apalache-mc 0.58.0 / Z3 (bounded-integer SMT encoding, --length=0)", "TLC", "transcription KGid.tla L2 of gidnumber.rs (bound by trace validation, drift reported)"],
        "apalache": [{k: a[k] for k in ("inv", "status", "wall_s")} for a in apa],
        "symbolic_fallback": None if proved else "Apalache did not finish within its timeout; only TLC boundary checking and replay support the arithmetic statement in this run",
        "boundary_values": len(edges),
        "rule": "obligations = GenSafe over all u in 0..2^32-1 and AcceptSafe over all g in 0..2^32-1 (symbolic); TLC = every pair of boundary values; "
                "replay = boundary set x 4 request paths + seeded random, each judged by L1",
    }
    R.assumptions = ["reserved ranges are exactly those of the property statement (0-999, 60001-60577, 61184-65519, 65534, 65535)",
                     "requests are issued through the internal identity: the plugin runs identically for every identity"]
    R.finish()
