"""C48 - Upgrading the domain level preserves data and consistency."""
import json
from kv import lib

PID = "C48"
META = {
    "level": "model_checking",
    "text": "KUpgrade models the migration as the assertion of every target-level built-in definition onto the database "
            "(single-valued attributes replaced, multi-valued ones extended) and TLC checks exhaustively on a small model "
            "(user additions to built-in entries, user entries created / edited / recycled before the upgrade) that user data "
            "is kept and every definition is present afterwards. On the real code a server is initialised at "
            "DOMAIN_PREVIOUS_TGT_LEVEL, receives seeded random user content (people with imported credentials, posix, mail; "
            "service accounts; nested groups; an OAuth2 client with scope map; memberships added to built-in groups; edits; a "
            "recycled entry) and is then started with DOMAIN_TGT_LEVEL on the same database exactly as an upgraded kanidmd does; "
            "TLC judges the logged before/after databases: upgrade succeeds and reaches the target level, consistency check "
            "empty, every user entry kept with its liveness and every user-set value, every defined built-in entry present and "
            "live with every defined value, and every live entry valid under the schema in force (KDirSchema!Valid).",
    "note": "Def (built-in definitions of the target level) is TRUSTED INPUT extracted at run time from two independent fresh "
            "target-level servers: entries in the reserved uuid range, attributes whose values agree on both servers, attributes "
            "derived from other entries or from the instance excluded (memberof, directmemberof, dynmember, change ids, version). "
            "User content never removes values from built-in entries (the server deliberately does not restore some of those). "
            "Level is exploration-heavy model checking: the model is small, Def is data.",
    "design_ref": "DESIGN.md section 6, C48",
    "technique": "TLC small model of definition assertion; real previous-level servers with random content upgraded, before/after dumps judged by TLA+",
}


def run(tier, replay):
    R = lib.Result(PID, tier, META["level"])
    wd = lib.workdir(PID)
    lib.build("store")
    mc = lib.tlc("KUpgradeMC", cfg="KUpgradeMC", pid=PID, workers=2, timeout=300)
    lib.tlc_must_pass(mc, "KUpgrade: assertion of definitions keeps user data and installs every definition")
    obs = f"{wd}/obs.ndjson"
    if replay:
        lib.kverif("store", ["c48", "--out", obs, "--replay", replay], timeout=3000)
    else:
        lib.kverif("store", ["c48", "--out", obs, "--seed", lib.seed(), "--histories", 6 if tier == "quick" else 40], timeout=3000)
    tv = lib.trace_validate("KUpgradeTrace", obs, PID, timeout=3000, xmx="8g")
    lines = lib.read_lines(obs)
    recs = [json.loads(l) for l in lines]
    for t in tv["l1fail"]:
        ln, what = t[2], t[3]
        r, p = recs[ln - 1], recs[ln - 2]
        kind = what.split(" ")[0]
        detail = ""
        if kind == "user":
            u = what.split(" ")[1]
            pre, post = p["st"].get(u, {}), r["st"].get(u)
            if post is None:
                detail = "entry lost"
            else:
                lost = {a: [v for v in pre["attrs"].get(a, []) if v not in post["attrs"].get(a, [])] for a in p["user"][u]}
                detail = f"liveness {pre.get('live')}->{post['live']} lost values {({a: v for a, v in lost.items() if v})}"
            sig = f"user-data-changed {'builtin' if u.startswith('00000000-0000-0000-0000') else 'user-entry'}"
        elif kind == "def":
            u = what.split(" ")[1]
            post = r["st"].get(u)
            d = recs[0]["def"][u]
            miss = {a: [v for v in vs if post is None or v not in post["attrs"].get(a, [])] for a, vs in d.items()}
            miss = {a: v for a, v in miss.items() if v}
            detail = f"missing {json.dumps(miss)[:300]}" if post else "entry missing"
            sig = f"definition-missing uuid={u} attrs={','.join(sorted(miss)) if post else '*'}"
        else:
            sig = what
            detail = json.dumps(r.get("verify"))[:300] if kind == "verify" else r["res"]
        seedline = json.dumps({k: recs[ln - 3][k] for k in ("a", "h", "hseed")}) if recs[ln - 3]["a"] == "reset" else ""
        R.violation(sig, f"upgrade {r.get('level')} -> target {r.get('target')}: {what}: {detail}", [seedline])
    ups = [r for r in recs if r["a"] == "upgrade"]
    small = []
    for r in recs[1:4]:
        r = dict(r)
        for k in ("st", "ents", "schema"):
            if k in r:
                r[k + "_size"] = len(r.pop(k))
        small.append(r)
    R.coverage = {
        "states": mc["distinct"], "transitions": mc["generated"],
        "traces_validated_against_impl": len(ups),
        "upgrades_ok": len([r for r in ups if r["res"] == "ok"]),
        "definition_entries": len(recs[0]["def"]), "definition_attribute_values": sum(len(v) for e in recs[0]["def"].values() for v in e.values()),
        "user_entries_judged": sum(len(r["user"]) for r in recs if r["a"] == "pre"),
        "entries_schema_judged": sum(len(r["ents"]) for r in ups),
        "samples": small, "l2_drift": 0,
        "from_level": recs[1].get("level") if len(recs) > 1 else None, "to_level": ups[0].get("target") if ups else None,
    }
    R.assumptions = ["Def is extracted from fresh servers of the tree under test (trusted input; a change of the shipped definitions changes Def)",
                     "user content adds to built-in entries but never removes defined values from them"]
    R.finish()
