"""C48 - Upgrading the domain level preserves data and consistency."""
import json
from kv import lib

PID = "C48"
META = {
    "level": "model_checking",
    "text": "KUpgrade models the migration as the assertion of every target-level built-in definition onto the database "
            "(single-valued attributes replaced, multi-valued ones extended) and TLC checks exhaustively on a small model "
            "(user additions to built-in entries, user entries created / edited / recycled before the upgrade) that user data "
            "is kept and every definition is present afterwards. On the real code a server is initialised at "
            "DOMAIN_PREVIOUS_TGT_LEVEL, receives seeded random user content (people with imported credentials, posix, mail; "
            "service accounts; nested groups; an OAuth2 client with scope map; memberships added to built-in groups; a proper non-empty subset of the "
            "defined values REMOVED from multi-valued attributes of built-in entries (KUpgrade RemoveSome: every such attribute in the "
            "first upgrade, idm_high_privilege members and the system_config badlist plus a random half "
            "in the others); edits; a recycled entry) and is then started with DOMAIN_TGT_LEVEL on the same database exactly as an upgraded kanidmd does; "
            "TLC judges the logged before/after databases: upgrade succeeds and reaches the target level, consistency check "
            "empty, every user entry kept with its liveness and every user-set value, every defined built-in entry present and "
            "live with every defined value, every removed value back, and every live entry valid under the schema in force (KDirSchema!Valid).",
    "note": "Def (built-in definitions of the target level) is TRUSTED INPUT extracted at run time from two independent fresh "
            "target-level servers: entries in the reserved uuid range, attributes whose values agree on both servers, attributes "
            "derived from other entries or from the instance excluded (memberof, directmemberof, dynmember, change ids, version). "
            "Create-once members and credential_type_minimum are never removed (the server deliberately does not restore those). "
            "Level is exploration-heavy model checking: the model is small, Def is data.",
    "design_ref": "DESIGN.md section 6, C48",
    "technique": "TLC small model of definition assertion; real previous-level servers with random content upgraded, before/after dumps judged by TLA+",
}


def run(tier, replay):
    R = lib.Result(PID, tier, META["level"])
    wd = lib.workdir(PID)
    lib.build("store")
    mc = lib.tlc("KUpgradeMC", cfg="KUpgradeMC", pid=PID, workers=2, timeout=300)
    lib.tlc_must_pass(mc, "KUpgrade: assertion of definitions keeps user data and installs every definition")
    # vacuity guard: with RemoveSome in the model, the shortcut "one value per attribute is enough to skip the entry" must be refuted
    sk = lib.tlc("KUpgradeMC", cfg="KUpgradeMCskip", pid=PID, workers=2, timeout=300, tag="KUpgradeMCskip")
    if sk["error"] or "UpgradeOk" not in sk["violated"]:
        lib.tool_error(f"KUpgradeMC does not refute the skip-on-any-value upgrade: RemoveSome is not exercised (log {sk['log']})")
    obs = f"{wd}/obs.ndjson"
    if replay:
        lib.kverif("store", ["c48", "--out", obs, "--replay", replay], timeout=3000)
    else:
        lib.kverif("store", ["c48", "--out", obs, "--seed", lib.seed(), "--histories", 6 if tier == "quick" else 40], timeout=3000)
    tv = lib.trace_validate("KUpgradeTrace", obs, PID, timeout=3000, xmx="8g")
    lines = lib.read_lines(obs)
    recs = [json.loads(l) for l in lines]
    for t in tv["l1fail"]:
        ln, what = t[2], t[3]
        r, p = recs[ln - 1], recs[ln - 2]
        kind = what.split(" ")[0]
        detail = ""
        if kind == "user":
            u = what.split(" ")[1]
            pre, post = p["st"].get(u, {}), r["st"].get(u)
            if post is None:
                detail = "entry lost"
            else:
                lost = {a: [v for v in pre["attrs"].get(a, []) if v not in post["attrs"].get(a, [])] for a in p["user"][u]}
                detail = f"liveness {pre.get('live')}->{post['live']} lost values {({a: v for a, v in lost.items() if v})}"
            sig = f"user-data-changed {'builtin' if u.startswith('00000000-0000-0000-0000') else 'user-entry'}"
        elif kind == "def":
            u = what.split(" ")[1]
            post = r["st"].get(u)
            d = recs[0]["def"][u]
            miss = {a: [v for v in vs if post is None or v not in post["attrs"].get(a, [])] for a, vs in d.items()}
            miss = {a: v for a, v in miss.items() if v}
            detail = f"missing {json.dumps(miss)[:300]}" if post else "entry missing"
            sig = f"definition-missing uuid={u} attrs={','.join(sorted(miss)) if post else '*'}"
        elif kind in ("restore", "perturbation"):
            _, u, a = what.split(" ")
            gone = p["removed"][u][a]
            post = r["st"].get(u, {"attrs": {}})["attrs"].get(a, [])
            name = (r["st"].get(u, {"attrs": {}})["attrs"].get("name") or [u])[0]
            if kind == "restore":
                sig = f"removed-defined-value-not-restored entry={name} attr={a}"
                detail = f"{name}: removed before the upgrade {gone}; still missing afterwards {[v for v in gone if v not in post]}; kept {len(p['st'][u]['attrs'].get(a, []))} value(s)"
            else:
                sig = f"harness-perturbation-not-RemoveSome entry={name} attr={a}"
                detail = f"removed {gone}, stored before the upgrade {p['st'][u]['attrs'].get(a, [])}"
        else:
            sig = what
            detail = json.dumps(r.get("verify"))[:300] if kind == "verify" else r["res"]
        seedline = json.dumps({k: recs[ln - 3][k] for k in ("a", "h", "hseed")}) if recs[ln - 3]["a"] == "reset" else ""
        R.violation(sig, f"upgrade {r.get('level')} -> target {r.get('target')}: {what}: {detail}", [seedline])
    ups = [r for r in recs if r["a"] == "upgrade"]
    pres = [r for r in recs if r["a"] == "pre"]
    names = lambda r, u: (r["st"].get(u, {"attrs": {}})["attrs"].get("name") or [u])[0]
    # idm_high_privilege members, system_config badlist (idm_unix_authentication_read has ONE defined member: no proper non-empty subset)
    required = {("00000000-0000-0000-0000-000000001000", "member"), ("00000000-0000-0000-0000-ffffff000027", "badlist_password")}
    for r in pres:
        have = {(u, a) for u, m in r["removed"].items() for a in m}
        if not required <= have:
            lib.tool_error(f"C48 driver did not apply RemoveSome to {sorted(required - have)}")
    rm_pairs = sorted({f"{names(r, u)}.{a}" for r in pres for u, m in r["removed"].items() for a in m})
    small = []
    for r in recs[1:4]:
        r = dict(r)
        if "removed" in r:
            r["removed"] = {u: m for u, m in list(r["removed"].items())[:3]}
        for k in ("st", "ents", "schema"):
            if k in r:
                r[k + "_size"] = len(r.pop(k))
        small.append(r)
    R.coverage = {
        "states": mc["distinct"], "transitions": mc["generated"],
        "traces_validated_against_impl": len(ups),
        "upgrades_ok": len([r for r in ups if r["res"] == "ok"]),
        "definition_entries": len(recs[0]["def"]), "definition_attribute_values": sum(len(v) for e in recs[0]["def"].values() for v in e.values()),
        "user_entries_judged": sum(len(r["user"]) for r in recs if r["a"] == "pre"),
        "entries_schema_judged": sum(len(r["ents"]) for r in ups),
        "remove_some_applied": sum(len(m) for r in pres for m in r["removed"].values()),
        "remove_some_values_removed": sum(len(v) for r in pres for m in r["removed"].values() for v in m.values()),
        "remove_some_distinct_entry_attributes": len(rm_pairs), "remove_some_attributes": sorted({x.split(".")[1] for x in rm_pairs}),
        "remove_some_candidates_per_upgrade": [r["candidates"] for r in pres], "remove_some_refused_by_server": sum(r["refused"] for r in pres),
        "skip_on_any_value_model_refuted": True,
        "samples": small, "l2_drift": 0,
        "from_level": recs[1].get("level") if len(recs) > 1 else None, "to_level": ups[0].get("target") if ups else None,
    }
    R.assumptions = ["Def is extracted from fresh servers of the tree under test (trusted input; a change of the shipped definitions changes Def)",
                     "values removed from built-in entries before the upgrade are values of the target level's migration data (phases 3-7) of "
                     "multi-valued attributes; create-once members and credential_type_minimum are not removed (deliberately never re-asserted)"]
    R.finish()
