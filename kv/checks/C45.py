"""C45 - Host login requires membership of an allowed group."""
import json
from kv import lib, unixlib

PID = "C45"
META = {
    "level": "model_checking",
    "text": "TLC enumerates every allowed-login list over the identifier set x every user token over two groups x validity "
            "(x provider / resolver entry point) and checks the transcription of unix_user_authorise / pam_account_allowed (L2) "
            "against the property (L1); every enumerated case is then executed on the real KanidmProvider::unix_user_authorise "
            "and the real Resolver::pam_account_allowed (token fetched by the real kanidm client from a scripted HTTP endpoint, "
            "stored in and read back from the real cache database) and every real answer is judged by the TLA+ property.",
    "note": "finite space fully replayed: 4 identifiers x 2 groups (quick) / 8 identifiers incl. an SPN and an unrelated string x 3 "
            "groups (thorough) x validity x 2 entry points; beyond that seeded random lists/tokens over 6 groups; trusted: TLC, the "
            "harness bijection identifier -> concrete name/uuid string, the scripted endpoint standing in for the server",
    "design_ref": "DESIGN.md section 6, C45",
    "technique": "TLA+ operator spec (KUnix.HostAuth) model-checked by TLC; model-generated cases replayed through the real "
                 "provider and resolver, observations validated by a TLC trace spec",
}


def run(tier, replay):
    R = lib.Result(PID, tier, "model_checking")
    wd = lib.workdir(PID)
    lib.build("unix")
    cfg = "KUnixHostMC4" if tier == "quick" else "KUnixHostMC3"
    mc = lib.tlc("KUnixHostMC", cfg=cfg, pid=PID, workers=4, timeout=900)
    lib.tlc_must_pass(mc, f"{cfg}: transcription of unix_user_authorise/pam_account_allowed vs property")
    cases = unixlib.cases_from(mc)
    sp = unixlib.space(mc)
    if len(cases) != sp[0] or len(cases) != mc["distinct"]:
        lib.tool_error(f"case extraction incomplete: {len(cases)} cases, model space {sp[0]}")
    obs = f"{wd}/obs.ndjson"
    if replay:
        lib.kverif("unix", ["c45", "--out", obs, "--replay", replay])
        ncases = 0
    else:
        unixlib.write_ndjson(f"{wd}/cases.ndjson", cases)
        nrand, per = (6, 16) if tier == "quick" else (60, 40)
        lib.kverif("unix", ["c45", "--out", obs, "--cases", f"{wd}/cases.ndjson", "--random", nrand,
                            "--per-list", per, "--seed", lib.seed()])
        ncases = len(cases)
    tv = lib.trace_validate("KUnixHostTrace", obs, PID)
    lines = lib.read_lines(obs)
    if not replay and len(lines) < ncases:
        lib.tool_error(f"driver observed {len(lines)} lines for {ncases} model cases")
    for t in tv["l1fail"]:
        rec = json.loads(lines[t[2] - 1])
        R.violation(f"admitted via={rec['via']} present={rec['present']} valid={rec['valid']} allow={json.dumps(rec['allow'])} "
                    f"groups={json.dumps([g['id'] for g in rec['groups']])}",
                    f"real {rec['via']} authorisation answered {rec['res']} for allowed-login list {rec['allow']}, token groups "
                    f"{[g['id'] for g in rec['groups']]}, valid={rec['valid']}, present={rec['present']}: the property forbids admission",
                    [lines[t[2] - 1]])
    R.coverage = {
        "states": mc["distinct"], "transitions": mc["generated"],
        "traces_validated_against_impl": len(lines),
        "samples": lib.sample(lines),
        "exhaustive": True,
        "model_cases": len(cases), "model_cases_replayed": ncases, "random_cases": max(0, len(lines) - ncases),
        "model_result_counts": {"allow": sp[1], "deny": sp[2], "unknown": sp[3]},
        "observed_result_counts": unixlib.classes(lines),
        "observed_by_entry_point": unixlib.classes(lines, "via"),
        "l2_drift": len(tv["drift"]),
        "trace_states": tv["distinct"],
        "rule": "every (entry point, allowed-login list, token group set, validity, token presence) of the model space is one TLC "
                "state and one execution of the real code; a case is judged by KUnix!HostL1 in TLC",
    }
    R.assumptions = ["identifiers nK/uK/sK map to the name, hyphenated lower-case uuid and spn of group K; xK to an unrelated string",
                     "the scripted HTTP endpoint answers /v1/self and /v1/account/<id>/_unix/_token as the server would"]
    R.finish()
