"""C50 - Synchronisation agreements stay inside their own scope."""
import json
from kv import lib

PID = "C50"
META = {
    "level": "model_checking",
    "text": "TLC checks the transcription of scim_sync_apply phases 1-5 (KSync L2: identity/cookie check, stub creation through the "
            "internal identity, parent assertion, sync-owned attribute set minus yielded authority, refresh cleanup, scoped deletes) "
            "against the scope property written from the statement (KSync L1) over every request of a bounded space (ids owned / "
            "other agreement's / native / recycled / new / reserved-range, attribute variants, refresh-active-stale, retention modes). "
            "Histories of REAL scim_sync_apply calls by two agreements on a real IdmServer, interleaved with yield-authority changes and "
            "real user modifies of synchronised entries, are recorded with the population after every step; TLC judges every step with "
            "L1 and requires L2 to predict result, creations and deletions. The witness of the repaired finding (a request whose id "
            "lies in the reserved system range and does not exist yet) is replayed first in every run as a regression.",
    "note": "exhaustive within 7 entries x 64 id subsets x 3 attribute variants x 3 states x 7 retention requests (model); real histories "
            "are seeded random (8 x 25 steps quick, 60 x 40 thorough). Server-maintained attributes (memberof, directmemberof, "
            "last_modified_cid) and the agreement's own record (cookie) are exempt from 'unchanged'; class, sync_class, sync_external_id, "
            "spn are bookkeeping on the agreement's own entries. The synchronisable attribute sets are read from the schema of the "
            "server under test. Finding C50-sync-creates-reserved-uuid (reproduced on the real code) is fixed by repository commit "
            "bd2dcf7; L2 transcribes the repaired phase 2; regression replay notes/replay-C50-reserved-uuid.ndjson.",
    "design_ref": "DESIGN.md section 6, C50 and section 8",
    "technique": "TLA+ model of scim_sync_apply (KSync) model-checked by TLC; trace validation of real sync / user-modify histories",
}
ARMS = {"refresh-cleanup", "refused-foreign-entry", "refused-out-of-scope-delete", "refused-reserved-range-id", "refused-yielded-attribute",
        "sync-ok-creates", "sync-ok-deletes"}


def edge_cover_walk(edges, start):
    """Deterministic walk over the model's transition graph that takes every edge at least once
    (greedy: nearest uncovered edge by breadth-first search)."""
    succ = {}
    for (a, act, b) in edges:
        succ.setdefault(a, []).append((act, b))
    todo = set(edges)
    cur, walk = start, []
    while todo:
        # BFS from cur to the closest state with an uncovered outgoing edge
        seen, queue, path = {cur: None}, [cur], None
        while queue:
            x = queue.pop(0)
            unc = [(act, b) for (act, b) in succ.get(x, []) if (x, act, b) in todo]
            if unc:
                path = []
                y = x
                while seen[y] is not None:
                    path.append(seen[y])
                    y = seen[y][0]
                path.reverse()
                act, b = unc[0]
                path.append((x, act, b))
                break
            for (act, b) in succ.get(x, []):
                if b not in seen:
                    seen[b] = (x, act, b)
                    queue.append(b)
        if path is None:
            raise lib.ToolError("transition graph of KSyncYieldMC is not strongly connected from the initial state")
        for e in path:
            walk.append(e)
            todo.discard(e)
        cur = path[-1][2]
    return walk


def run(tier, replay):
    R = lib.Result(PID, tier, META["level"])
    wd = lib.workdir(PID)
    lib.build("access")
    mc = lib.tlc("KSyncMC", cfg="KSyncMC", pid=PID, workers=4, timeout=1800)
    lib.tlc_must_pass(mc, "KSyncMC: scim_sync_apply transcription (L2) vs scope property (L1)")
    arms = {t[1] for t in mc["tuples"] if t[0] == "ARM"}
    if arms != ARMS:
        lib.tool_error(f"vacuity guard: arms not exercised by the exhaustive run: {sorted(ARMS - arms)}")
    # yield authority over time: stored records vs the snapshot the access checks use (KSyncYieldMC)
    ymc = lib.tlc("KSyncYieldMC", cfg="KSyncYieldMC", pid=PID, workers=1, timeout=600)
    lib.tlc_must_pass(ymc, "KSyncYieldMC: published yield snapshot vs stored yield records")
    edges = sorted({tuple(t[1:4]) for t in ymc["tuples"] if t[0] == "EDGE"})
    if len(edges) < 50:
        lib.tool_error(f"KSyncYieldMC printed only {len(edges)} transitions")
    skip = lib.tlc("KSyncYieldMC", cfg="KSyncYieldMCskip", pid=PID, workers=1, timeout=600)
    if skip["error"] or "Inv" not in skip["violated"]:
        lib.tool_error("sensitivity guard: the model does not tell 'publish always' from 'skip the empty map' apart")
    walk = edge_cover_walk(edges, "0,0")
    wf = f"{wd}/yieldwalk.ndjson"
    with open(wf, "w") as fh:
        for (_, act, _) in walk:
            parts = act.split(":")
            y = [] if parts[0] == "clear" else {"d": ["description"], "dl": ["description", "legalname"]}[parts[2]]
            fh.write(json.dumps({"ag": parts[1], "y": y}) + "\n")
    obs = f"{wd}/obs.ndjson"
    if replay:
        lib.kverif("access", ["c50", "--out", obs, "--replay", replay])
    else:
        h, s = (8, 25) if tier == "quick" else (60, 40)
        lib.kverif("access", ["c50", "--out", obs, "--histories", h, "--steps", s, "--seed", lib.seed(), "--yieldwalk", wf], timeout=3000)
    tv = lib.trace_validate("KSyncTrace", obs, PID, timeout=3000)
    lines = lib.read_lines(obs)
    recs = [json.loads(l) for l in lines]

    def strip(line):
        # a replay needs the actions only
        r = json.loads(line)
        r.pop("st", None)
        return json.dumps(r)

    start = {}
    cur = 0
    for i, r in enumerate(recs):
        if r["a"] == "reset":
            cur = i
        start[i] = cur
    for t in tv["l1fail"]:
        ln, sig = t[2], t[3]
        r = recs[ln - 1]
        what = f"sync by {r['ag']} request {json.dumps(r['req'])}" if r["a"] == "sync" else f"user modify {json.dumps(r['ml'])} on {r['t']}"
        R.violation(f"{sig} op={r['a']} ", f"{what} succeeded: {sig}", [strip(l) for l in lines[start[ln - 1]:ln]])
    steps = [r for r in recs if r["a"] != "reset"]
    by = {}
    for r in steps:
        k = f"{r['a']}:{r['res'] if r['res'] in ('ok', 'denied', 'nomatch', 'panic') else 'refused'}"
        by[k] = by.get(k, 0) + 1

    def has(r, pred):
        return r["a"] == "sync" and any(pred(e) for e in r["req"]["entries"])
    R.coverage = {
        "states": mc["distinct"] + ymc["distinct"], "transitions": mc["generated"] + ymc["generated"],
        "traces_validated_against_impl": len(steps),
        "samples": lib.sample([strip(l) for l, r in zip(lines, recs) if r["a"] == "sync"]),
        "l2_drift": len(tv["drift"]),
        "first_drift_line": tv["drift"][0][2] if tv["drift"] else None,
        "histories": sum(1 for r in recs if r["a"] == "reset"),
        "steps_by_kind_and_result": by,
        "sync_requests_with_reserved_range_id": sum(1 for r in steps if has(r, lambda e: e["id"].startswith("b") or e["id"].startswith("0000"))),
        "sync_requests_with_foreign_or_native_or_recycled_id": sum(1 for r in steps if has(r, lambda e: e["id"] in ("e3", "e4", "e5", "e6"))),
        "sync_requests_with_delete_or_retain": sum(1 for r in steps if r["a"] == "sync" and r["req"]["retain"]["mode"] != "ignore"),
        "reserved_range_requests_refused": sum(1 for r in steps if r["res"] != "ok" and has(r, lambda e: e["id"].startswith("b"))),
        "reserved_range_requests_succeeded": sum(1 for r in steps if r["res"] == "ok" and has(r, lambda e: e["id"].startswith("b"))),
        "model_arms_exercised": sorted(ARMS),
        "yield_model_states": ymc["distinct"], "yield_model_transitions_lived": len(edges), "yield_walk_steps": len(walk),
        "user_modifies_after_yield_commits": sum(1 for r in steps if r["a"] == "umod" and json.dumps(r["ml"]).find('"w') >= 0),
        "user_modifies_allowed_by_yield": sum(1 for r in steps if r["a"] == "umod" and r["res"] == "ok" and r["t"] in ("e1", "e2", "e3")
                                              and any(m["a"] in ("description", "legalname") for m in r["ml"])),
        "rule": "every step of a real history is one validated trace line: L1 (KSync!L1Sync / L1UserMod) judges population before/after",
    }
    R.assumptions = ["memberof/directmemberof/last_modified_cid are server-maintained consequences and not 'changes' of a foreign entry",
                     "the agreement's own sync_account record (cookie) is not an entry it 'changes' in the sense of the statement",
                     "synchronisable attributes = schema attributes flagged sync_allowed on the server under test"]
    R.finish()
