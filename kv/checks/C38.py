"""C38 - OAuth2 authorisation happens only on registered terms."""
import json
from kv import lib

PID = "C38"
GROUP = "oauth"
META = {
    "level": "model_checking",
    "text": "TLC checks the transcription of check_oauth2_authorisation + process_requested_scopes_for_identity + "
            "check_oauth2_authorise_permit (L2) against the property (L1: a code is issued only for an exactly registered / "
            "allowed-loopback / registered app URI, to a non-anonymous user holding every requested scope, with S256 PKCE when "
            "required, carrying exactly requested + held supplementary scopes) over the product client configuration x request "
            "class, and chooses the covering set (one request per path signature: branch facts + truth of every L1 clause + URI "
            "class). That set plus seeded random configurations/requests is run through the real IdmServer (real client entries, "
            "real logins, real authorise / permit / token exchange) and every observation is judged by the TLA+ property.",
    "note": "exhaustive within the stated class product (quick: prompt/previous-consent varied only on code-capable URI classes); "
            "URI classes are concretised by the harness (near-miss path/query/port/scheme/fragment/userinfo/host mutations, loopback, "
            "app URIs); trusted: TLC, the url crate's parse of the request URI (host/scheme facts; real loopback and "
            "loopback look-alikes are told apart in TLA+ from the logged host), serde deserialisation of the request as the HTTP layer does it",
    "design_ref": "DESIGN.md section 6, C38",
    "technique": "TLA+ operator spec (KOAuth2.Authorise) model-checked by TLC over the class product; TLC-chosen covering set and "
                 "seeded random cases replayed on the real IdmServer and validated by a TLC trace spec",
}


def _cases_from(mc):
    out = []
    for t in mc["tuples"]:
        if t[0] == "CASE":
            out.append(json.loads(json.loads('"' + t[1] + '"')))
        elif t[0] == "VACUOUS":
            lib.tool_error(f"KOAuth2MC vacuity guard: result classes not reached: {t[1:]}")
    return out


def _lean(lines, path):
    """the trace spec does not need the (large) concrete case objects"""
    with open(path, "w") as f:
        for l in lines:
            r = json.loads(l)
            r.pop("case", None)
            f.write(json.dumps(r) + "\n")


def run(tier, replay):
    R = lib.Result(PID, tier, META["level"])
    wd = lib.workdir(PID)
    lib.build(GROUP)
    obs = f"{wd}/obs.ndjson"
    states = trans = 0
    ncases = 0
    if replay:
        lib.kverif(GROUP, ["c38", "--out", obs, "--replay", replay])
        # the model still has to be sound for the judgement to mean anything
        mc = lib.tlc("KOAuth2MC", cfg="KOAuth2MC", pid=PID, workers=1, timeout=900)
        lib.tlc_must_pass(mc, "KOAuth2MC: authorisation transcription vs property")
        states, trans = mc["distinct"], mc["generated"]
    else:
        # (1) exhaustive in the model: L2 vs L1 over the class product; TLC prints the covering set
        cfg = "KOAuth2MC" if tier == "quick" else "KOAuth2MCT"
        mc = lib.tlc("KOAuth2MC", cfg=cfg, pid=PID, workers=1, timeout=1500, xmx="6g")
        lib.tlc_must_pass(mc, f"{cfg}: authorisation transcription vs property")
        states, trans = mc["distinct"], mc["generated"]
        cases = _cases_from(mc)
        ncases = len(cases)
        if ncases < 100:
            lib.tool_error(f"KOAuth2MC produced only {ncases} covering cases")
        with open(f"{wd}/cases.ndjson", "w") as f:
            for c in cases:
                f.write(json.dumps(c) + "\n")
        # (2) covering set + seeded random cases on the real code
        lib.kverif(GROUP, ["c38", "--out", obs, "--cases", f"{wd}/cases.ndjson", "--random",
                           600 if tier == "quick" else 15000, "--seed", lib.seed()])
    lines = lib.read_lines(obs)
    _lean(lines, f"{wd}/obs-lean.ndjson")
    tv = lib.trace_validate("KOAuth2Trace", f"{wd}/obs-lean.ndjson", PID, timeout=1500)
    recs = [json.loads(l) for l in lines]
    for t in tv["l1fail"]:
        ln, clause = t[2], t[3]
        r = recs[ln - 1]
        f = r.get("f", {})
        sig = f"authz clause={clause} res={r.get('res')} type={f.get('type')} ident={f.get('ident')} pkce={f.get('pkce')}"
        R.violation(sig,
                    f"a code was issued although the property's '{clause}' condition fails: request uri {f.get('u')} "
                    f"scopes {f.get('scopes')} identity {f.get('ident')} groups {f.get('groups')} pkce {f.get('pkce')} on a "
                    f"{f.get('type')} client (registered {[x['s'] for x in f.get('reg', [])]}); result {r.get('res')}, "
                    f"granted {r.get('granted')}",
                    [lines[ln - 1]])
    by_res, by_src, mism, skipped, codes = {}, {}, 0, 0, 0
    for r in recs:
        if r.get("a") != "authz":
            skipped += 1
            continue
        by_res[r["res"]] = by_res.get(r["res"], 0) + 1
        by_src[r["src"]] = by_src.get(r["src"], 0) + 1
        codes += 1 if r.get("code") else 0
        if "exp" in r and r["exp"] != r["res"]:
            mism += 1
    if not replay and codes == 0:
        lib.tool_error("no authorisation code was ever issued: the check would be vacuous")
    R.coverage = {
        "states": states, "transitions": trans,
        "traces_validated_against_impl": len([r for r in recs if r.get("a") == "authz"]),
        "samples": lib.sample([l for l in lines if '"a":"authz"' in l]),
        "covering_cases_from_model": ncases,
        "by_source": by_src, "observed_result_counts": by_res, "codes_issued": codes,
        "l2_drift": len(tv["drift"]),
        "first_drift_lines": [t[2] for t in tv["drift"][:5]],
        "model_prediction_mismatch": mism,
        "configs_refused_by_server": skipped,
        "trace_states": tv["distinct"],
        "rule": "model: every (client configuration, request class) of the stated product, L2 transcription against L1; "
                "implementation: one request per path signature + seeded random requests, judged by L1 in TLC",
    }
    R.assumptions = [
        "request URI facts (normalised string, host, scheme) come from the url crate, the same parser kanidm uses",
        "real loopback is decided in TLA+ from the logged host (url-crate normalised): exactly localhost, an IPv4 literal in 127.0.0.0/8, or [::1]",
        "the scopes carried by a code are observed by exchanging it with the right client credentials / verifier / redirect URI "
        "inside a write transaction that is dropped (no session is persisted)",
        "client configuration does not change between the authorisation request and the consent permit",
    ]
    R.finish()
