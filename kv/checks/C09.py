"""C09 - Deleted entries are never resurrected by replication."""
import glob
from kv.checks import _repl
PID = "C09"
META = {
    "level": "model_checking",
    "text": "KRepl's delete/purge/tombstone arms (and, in the thorough tier, RUV trimming with a changelog window and lagging "
            "consumers: NoDroppedDeletion) are explored exhaustively by TLC (action property NoResurrection); one history per "
            "apply-arm (live-onto-tomb, tomb-over-live, refused-refresh, ...) is exported and replayed; model behaviours and "
            "seeded random lifecycle histories with deletes, recycle-bin purges, tombstone reaping and simulated delays around and beyond "
            "the real retention and changelog windows run on 2-3 real servers; TLC judges every observed step: a deleted entry never "
            "becomes live again on a replica that saw it deleted nor anywhere at quiescence, refused exchanges change nothing, and the "
            "supplier's answer matches the range decision table on the logged windows (lagging consumer => refresh required).",
    "note": "entries revived by an explicit recycle-bin revive, or whose uuid was created on two replicas, are exempt (the statement is "
            "about deletions, not about uuid conflicts); timers driven through the curtime argument with the real constants",
    "design_ref": "DESIGN.md section 6, C09",
    "technique": "TLA+ spec KRepl (+KRange decision table) model-checked by TLC; lifecycle histories replayed on real servers and validated by KReplTrace",
}
def run(tier, replay):
    _repl.run_property(PID, tier, replay, META, "lifecycle", sorted(glob.glob("/verif/spec/witness/C09-*.ndjson")),
                       cfgs_quick=["KReplMC_life_quick"], cfgs_thorough=["KReplMC_life", "KReplMC_trim_quick", "KReplMC_2r"])
