"""C14 - Replication wire framing survives any fragmentation."""
import json
from math import comb
from kv import lib
from kv.checks import filter_common as fc

PID = "C14"
META = {
    "level": "model_checking",
    "text": "TLC explores the decoder buffer machine transcribed from decode_length_checked_json (L2) for every sequence of up to 2 (quick) / "
            "3 (thorough) frames over the real JSON body lengths 6/9/12 plus the poisoned declared lengths 0 and limit+1, under every "
            "arrival of the byte stream in up to 4 / 5 reads, against the framing property (L1: after any number of bytes the next "
            "answer is 'need more', the next message in order, or rejection of a zero / over-limit frame as soon as its header is "
            "complete). The same finite space (every sequence of <=2 / <=3 frames x every split into <=3 reads) is "
            "driven through the REAL ConsumerCodec/SupplierCodec compiled from server/core/src/repl/codec.rs, messages encoded by the "
            "real encoders, plus seeded random sequences in both directions with large messages, limits around message sizes and many "
            "cuts; TLC judges every real decode answer and the final completeness.",
    "note": "exhaustive within the stated frame kinds / counts / reads (count of enumerated cases is recomputed and compared); beyond that "
            "sampled. decode is called after each read until it returns None or fails, as tokio_util FramedRead does; the socket and "
            "TLS layers are not part of the check. Trusted: TLC, serde_json round trip for message identity.",
    "design_ref": "DESIGN.md section 6, C14",
    "technique": "TLA+ state machine (KWire) model-checked by TLC; exhaustive replay of the frame-sequence x fragmentation space through the "
                 "real codecs, validated by the TLC trace spec KWireTrace",
}

SIZES = [8 + 6, 8 + 9, 8 + 12, 8 + 0, 8 + 1]   # Ping, Refresh, Ping padded to the limit, zero, over-limit (1 body byte)


def expected_cases(frames, chunks):
    """Number of (frame sequence, split) pairs of the enumerated space."""
    tot = 0
    seqs = [[]]
    for _ in range(frames):
        seqs = [s + [k] for s in seqs for k in SIZES]
        for s in seqs:
            n = sum(s)
            tot += sum(comb(n - 1, c) for c in range(0, chunks))
    return tot


def run(tier, replay):
    R = lib.Result(PID, tier, "model_checking")
    wd = lib.workdir(PID)
    lib.build(fc.GROUP)
    quick = tier == "quick"
    # (1) exhaustive: buffer transcription (L2) vs the framing property (L1), one worker so that the census is exact
    mc = lib.tlc("KWireMC", cfg="KWireMC" if quick else "KWireMC3", pid=PID, workers=1, timeout=1200)
    lib.tlc_must_pass(mc, "KWireMC: decoder transcription vs framing property")
    cs = [t for t in mc["tuples"] if t[0] == "CENSUS"]
    if not cs or min(cs[-1][1:]) == 0:
        lib.tool_error(f"KWireMC census is vacuous: {cs}")
    # (2) the real codecs
    obs = f"{wd}/obs.ndjson"
    frames, chunks = (2, 3) if quick else (3, 3)
    if replay:
        lib.kverif(fc.GROUP, ["c14", "--out", obs, "--replay", replay])
    else:
        lib.kverif(fc.GROUP, ["c14", "--out", obs, "--frames", frames, "--chunks", chunks, "--seed", lib.seed(),
                              "--random", 1500 if quick else 30000])
    lines = lib.read_lines(obs)
    l1, drift, chunksl, tstates = fc.validate_parallel(PID, "KWireTrace", lines, 4 if quick else 8, 1500)
    for ci, t in l1:
        ln = t[2]
        rec = json.loads(chunksl[ci][ln - 1])
        res = [s["r"] for s in rec["steps"] if s["t"] == "d"]
        R.violation(f"framing dir={rec['dir']} max={rec['max']} frames={[f['len'] for f in rec['frames']]}",
                    f"{rec['dir']} decoder with limit {rec['max']} on frames (declared lengths) {[f['len'] for f in rec['frames']]} "
                    f"fed as {[s['n'] for s in rec['steps'] if s['t'] == 'f']} answered {res}",
                    [chunksl[ci][ln - 1]])
    enumerated = 0
    classes = {}
    for l in lines:
        r = json.loads(l)
        for s in r["steps"]:
            if s["t"] == "d":
                k = "msg" if s["r"].startswith("m") else s["r"]
                classes[k] = classes.get(k, 0) + 1
    nrand = 0 if replay else (1500 if quick else 30000)
    enumerated = len(lines) - nrand
    if not replay:
        exp = expected_cases(frames, chunks)
        if enumerated != exp:
            lib.tool_error(f"enumerated space not covered: driver produced {enumerated} cases, expected {exp}")
        if not all(k in classes for k in ("msg", "none", "empty", "large")):
            lib.tool_error(f"observations are vacuous: {classes}")
    R.coverage = {
        "states": mc["distinct"], "transitions": mc["generated"],
        "traces_validated_against_impl": len(lines),
        "samples": lib.sample(lines),
        "exhaustive": True,
        "l2_drift": len(drift),
        "enumerated_cases": enumerated, "random_cases": nrand,
        "model_census": dict(zip(["delivered", "empty", "large", "none_partial_header", "none_partial_body", "none_empty_buffer"], cs[-1][1:])),
        "observed_decode_answers": classes,
        "trace_states": tstates,
        "rule": "model: all reachable states of the decoder machine over the stated frames / reads; implementation: every (frame sequence, split) "
                "of the enumerated space and every random case is one real decoder run, each decode answer compared by TLC with the framing property",
    }
    R.assumptions = ["decode is driven as tokio_util::codec::FramedRead drives it (after every read, until None or error; stream ends on error)",
                     "poisoned frames and frames padded to exactly the limit are crafted by the driver; all other frames come from the real encoders"]
    R.finish()
