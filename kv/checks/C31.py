"""C31 - Weak or badlisted passwords can never be set."""
import json, random
from kv import lib

PID = "C31"
META = {
    "level": "model_checking",
    "text": "TLC checks the transcription of both password quality gates (credential update session: policy minimum in graphemes; direct "
            "POSIX change: fixed minimum in bytes; maximum; badlist) against the property for every combination of path x effective "
            "minimum x grapheme length x byte surplus x badlisted at the real constants. Every model case is concretised into a real "
            "string of exactly that shape (multi-byte graphemes, badlist members in random case) and submitted through the real path "
            "on a real IdmServer (session set + commit, session POSIX set + commit, set_unix_account_password) for accounts whose groups "
            "carry the policy; the stored credential is read back and the TLA+ property, with the effective minimum computed by the "
            "policy fold from the account's group policies, judges every request. Random strings around the bounds extend the cases.",
    "note": "model_checking over the classes (864 model cases, all replayed); the strings themselves are exploration (one per case in "
            "quick, three in thorough, plus random ones). Lengths are judged conservatively: a stored password is a violation only if it is "
            "shorter than the minimum in every unit (bytes < min) or longer than the maximum in every unit (graphemes > max); passwords "
            "short only in graphemes are counted (unit_gap_accepts). The zxcvbn score is third-party and not modelled. recover_account "
            "(local admin socket, generated password) is not a credential-setting request in the sense of the property.",
    "design_ref": "DESIGN.md section 6, C31",
    "technique": "TLA+ decision spec (KAuthPwQuality + the KAuthPolicy fold) model-checked by TLC; model cases concretised into strings and replayed on every real password-setting path; TLC trace validation",
}

ASCII = "abcdefghijkmnopqrstuvwxyzABCDEFGHJKLMNPQRSTUVWXYZ23456789!#%+=?@"
U1, U2, U3, U10 = "\u00e9", "e\u0301", "\U0001F642", "\U0001F469\u200d\U0001F467"   # +1, +2, +3, +10 bytes per grapheme


def build(rng, glen, extra):
    """a string of exactly `glen` grapheme clusters and glen+extra UTF-8 bytes, or None"""
    z = min(extra // 10, glen); rem = extra - 10 * z
    n3 = min(rem // 3, glen - z); rem -= 3 * n3
    n2 = min(rem // 2, glen - z - n3); rem -= 2 * n2
    n1 = min(rem, glen - z - n3 - n2); rem -= n1
    if rem != 0:
        return None
    units = [U10] * z + [U3] * n3 + [U2] * n2 + [U1] * n1
    units += [rng.choice(ASCII) for _ in range(glen - len(units))]
    for _ in range(50):
        rng.shuffle(units)
        # a combining unit must not directly follow another 'e' (keeps clusters as constructed)
        s = "".join(units)
        if len(s.encode()) == glen + extra:
            return s
    return None


def randcase(rng, s):
    return "".join(c.upper() if rng.random() < 0.5 else c.lower() for c in s)


def gen_cases(model, tier, seed):
    rng = random.Random(seed)
    quick = tier == "quick"
    cases, badlist = [], []
    cid = 0
    reps = 1 if quick else 3
    for (path, mn, glen, blen, bad) in model:
        for _ in range(reps):
            s = build(rng, glen, blen - glen)
            if s is None:
                continue
            cid += 1
            if bad:
                badlist.append(s.lower())
                s = randcase(rng, s)
                if len(s.encode()) != blen:      # case mapping changed the byte length: keep the listed form
                    s = s.lower() if len(s.lower().encode()) == blen else badlist[-1]
            cases.append({"id": cid, "kind": "model", "path": path, "pol": "p0" if mn == 10 else f"p{mn}", "pw": s, "glen": glen, "bad": bad})
    for _ in range(150 if quick else 1500):
        mn = rng.choice([10, 12, 16, 20, 33])
        glen = rng.choice([mn - 2, mn - 1, mn, mn + 1, 14, 15, 16, 126, 127, 128, 129, 130, rng.randint(8, 140)])
        extra = rng.choice([0, 0, 1, 2, 3, 5, 10, 11, rng.randint(0, 40)])
        s = build(rng, max(glen, 1), extra)
        if s is None:
            continue
        bad = 1 if rng.random() < 0.25 else 0
        if bad:
            badlist.append(s.lower()); s2 = randcase(rng, s)
            s = s2 if s2.lower() == s.lower() else s
        cid += 1
        cases.append({"id": cid, "kind": "random", "path": rng.choice(["cu_primary", "cu_unix", "direct_unix"]),
                      "pol": "p0" if mn == 10 else f"p{mn}", "pw": s, "glen": max(glen, 1), "bad": bad})
    return [{"a": "badlist", "list": sorted(set(badlist))}] + cases


def run(tier, replay):
    R = lib.Result(PID, tier, META["level"])
    wd = lib.workdir(PID)
    lib.build("auth")
    mc = lib.tlc("KAuthPwQualityMC", cfg="KAuthPwQualityMC", pid=PID, workers=1, timeout=600)
    lib.tlc_must_pass(mc, "quality gate transcription vs property")
    for g in ("ReachKnown", "ReachUnitGap"):  # ReachKnown: the direct path refuses below the policy minimum
        r = lib.tlc("KAuthPwQualityMC", cfg=f"KAuthPwQualityMC{g}", pid=PID, workers=1, timeout=300)
        if not r["violated"]:
            lib.tool_error(f"vacuity guard {g} not reachable (log {r['log']})")
    model = sorted(set((t[1], t[2], t[3], t[4], t[5]) for t in mc["tuples"] if t[0] == "CASE"))
    if len(model) != mc["distinct"]:
        lib.tool_error(f"expected one CASE per model state: {len(model)} vs {mc['distinct']}")
    cases, obs = f"{wd}/cases.ndjson", f"{wd}/obs.ndjson"
    if replay:
        src = [json.loads(l) for l in lib.read_lines(replay)]
        bl = sorted(set(c["pw"].lower() for c in src if c.get("bad") == 1))
        with open(cases, "w") as f:
            f.write(json.dumps({"a": "badlist", "list": bl}) + "\n")
            for c in src:
                if c.get("a") == "badlist":
                    continue
                f.write(json.dumps({k: c[k] for k in ("id", "kind", "path", "pol", "pw", "glen", "bad") if k in c}) + "\n")
    else:
        with open(cases, "w") as f:
            for c in gen_cases(model, tier, lib.seed()):
                f.write(json.dumps(c) + "\n")
    lib.kverif("auth", ["c31", "--cases", cases, "--out", obs], timeout=3000)
    tv = lib.trace_validate("KAuthPwQualityTrace", obs, PID, timeout=1500)
    lines = lib.read_lines(obs)
    recs = [json.loads(l) for l in lines]
    for t in tv["l1fail"]:
        ln = t[2]
        r = recs[ln - 1]
        mins = [p["ml"] for p in r["pols"] if p["ml"] >= 0]
        pmin = max(mins + [10])
        if r["bad"] == 1:
            why = "badlisted"
        elif r["glen"] > 128:
            why = "too-long"
        else:
            why = f"shorter-than-policy-minimum fixed-minimum-{'met' if r['blen'] >= 15 else 'not-met'}"
        sig = f"stored path={r['path']} {why} policy-min={pmin} blen={r['blen']} glen={r['glen']}"
        R.violation(sig, f"{r['path']} stored a password of {r['glen']} graphemes / {r['blen']} bytes (badlisted={r['bad']}) on an account whose "
                         f"group policies give minimum {pmin}: {json.dumps(r['pw'])[:80]}", [lines[ln - 1]])
    gaps = [t for t in tv["tuples"] if t[0] == "UNITGAP"]
    l1lines = set(t[2] for t in tv["l1fail"])
    by = {}
    for r in recs:
        k = f"{r['path']}:{r['why']}"; by[k] = by.get(k, 0) + 1
    R.coverage = {
        "states": mc["distinct"], "transitions": mc["generated"],
        "traces_validated_against_impl": len(lines),
        "model_cases": len(model), "model_case_requests": sum(1 for r in recs if r["kind"] == "model"),
        "random_requests": sum(1 for r in recs if r["kind"] == "random"),
        "stored": sum(r["stored"] for r in recs),
        "requests_by_path_and_outcome": by,
        "unit_gap_accepts": len([g for g in gaps if g[2] not in l1lines]),
        "policies": sorted(set(r["pol"] for r in recs)),
        "samples": lib.sample(lines),
        "l2_drift": len(tv["drift"]),
        "exploration_part": "the concrete strings (one to three per model case plus random ones); classes are exhaustive in the model",
        "rule": "each model case (path, effective minimum, graphemes, bytes, badlisted) is replayed with a real string of that shape; the "
                "TLA+ property with the folded policy decides every stored credential",
    }
    R.assumptions = ["grapheme counts are by construction (strings are concatenations of units that are single UAX#29 clusters)",
                     "the effective minimum is the fold (KAuthPolicy) of the account-policy attributes of the account's groups as stored",
                     "requests are made with idm_admin's identity"]
    R.finish()
