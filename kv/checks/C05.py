"""C05 - A crash at any point recovers to the before or after state."""
import json
from kv import lib
from kv.checks import txn_common

PID = "C05"
META = {
    "level": "fault_enumeration",
    "text": "For representative write transactions on a file-backed database (create with index updates, delete with a "
            "referential-integrity cascade, a full reindex = purge and rebuild of every index table inside one transaction, "
            "and in the thorough tier rename, recycle-bin reap, OAuth2 client / domain changes and a schema change that "
            "reindexes at commit) a dry run counts the SQLite write, COMMIT and post-COMMIT points; for every point a forked child "
            "process arms the H2 injector in crash mode (abort() at that point) and runs the transaction; the parent reopens "
            "the file and records the complete stored state (entries with change ids, entry count, ts_max, lookup answers, and "
            "the index state: which idx tables exist and how many keys / ids they hold), the restarted server's verify(), and the identifier stamped "
            "by a probe write made with the clock set back. TLC judges each record: stored state is exactly the before or "
            "the after state, verify() is empty, the new identifier is above every identifier found in the database.",
    "note": "process-kill crashes only (abort() in a child process): SQLite's WAL durability under OS / power failure is "
            "trusted, as is TLC and the H2 injector; transactions with more than 150 points are sampled (every k-th point, "
            "the first 8, the last 4, and the first and last occurrence of every point name); restore and replication apply are not among the transactions exercised.",
    "design_ref": "DESIGN.md section 6, C05",
    "technique": "crash-point enumeration in forked child processes through hook H2, recovered state judged by a TLC trace spec "
                 "(before-or-after, verify, identifier monotonicity); commit-step model checked by TLC",
}


def run(tier, replay):
    R = lib.Result(PID, tier, META["level"])
    wd = lib.workdir(PID)
    lib.build("txn")
    quick = tier == "quick"
    order, sfx, order_labels = txn_common.commit_order()
    mc = lib.tlc("KTxnFaultMC", cfg="KTxnFaultMC" + sfx, pid=PID, workers=2, timeout=600)
    lib.tlc_must_pass(mc, "KTxnFaultMC: commit step list with Crash(k) and recovery")
    obs = f"{wd}/obs.ndjson"
    db = txn_common.dbroot(PID)
    if replay:
        lib.kverif("txn", ["c05", "--out", obs, "--replay", replay, "--db", db], timeout=3000)
    elif quick:
        # reindex = a transaction that drops and rebuilds every index table (about 2 000 storage points: sampled)
        lib.kverif("txn", ["c05", "--out", obs, "--db", db, "--kinds", "create,delete,reindex", "--stride", 500],
                   timeout=3000)
    else:
        lib.kverif("txn", ["c05", "--out", obs, "--db", db, "--kinds", "create,modify,delete,reap,acp,oauth2,domain,reindex,schema",
                           "--stride", 80], timeout=6000)
    txn_common.cleanup(db)
    tv = lib.trace_validate("KTxnCrashTrace", obs, PID, cfg="KTxnCrashTrace" + sfx, timeout=1500)
    lines = lib.read_lines(obs)
    recs = [json.loads(l) for l in lines]
    for r in recs:
        if r["a"] == "ref" and r["before"] == r["after"]:
            lib.tool_error(f"kind {r['kind']}: the committed transaction does not change the stored projection (blind observation)")
    for t in tv["l1fail"]:
        ln = t[2] - 1
        r = recs[ln]
        which = "before" if r["rec"] == r["before"] else "after" if r["rec"] == r["after"] else "neither"
        diff = [f for f in r["rec"] if r["rec"][f] != r["before"][f] and r["rec"][f] != r["after"][f]]
        as_after = [f for f in r["rec"] if r["rec"][f] == r["after"][f] and r["rec"][f] != r["before"][f]]
        as_before = [f for f in r["rec"] if r["rec"][f] == r["before"][f] and r["rec"][f] != r["after"][f]]
        R.violation(f"{t[3]} kind={r['kind']} pt={r['point']} state={which} fields={','.join(diff)} verify={len(r['verify'])}",
                    f"kind={r['kind']} crash at point {r['k']} ({r['point']}): recovered state is {which} the before/after state "
                    f"(fields as after: {as_after}, as before: {as_before}, as neither: {diff}), verify() reports {r['verify'][:3]}, next identifier {r['nextc']} vs committed "
                    f"maximum {r['cmax']}", [lines[ln]])
    classes = {}
    for r in recs:
        if r["a"] != "crash":
            continue
        which = "before" if r["rec"] == r["before"] else "after" if r["rec"] == r["after"] else "neither"
        key = f"{r['kind']}/{txn_common.step_of(r['point'])}/{'crashed' if r['crashed'] else 'survived'}/{which}"
        classes[key] = classes.get(key, 0) + 1
    crashes = [r for r in recs if r["a"] == "crash"]
    if not replay and (not any(r["rec"] == r["after"] for r in crashes) or not any(r["rec"] == r["before"] for r in crashes)):
        lib.tool_error("vacuous run: both recovery outcomes (before, after) must occur")
    R.coverage = {
        "commit_order_of_tree_under_test": order,
        "evaluations": len(crashes),
        "distinct_nontrivial": len(classes),
        "rule": "one evaluation = one child process killed at one storage / crash point of one transaction, followed by reopen, "
                "verify() and a probe write; distinct = distinct (transaction kind, commit step of the point, child died or not, recovered = "
                "before | after | neither); all are non-trivial (a process was killed mid-transaction or right after COMMIT)",
        "samples": lib.sample(lines),
        "classes": classes,
        "storage_points_per_kind": {r["kind"]: {"points": r["n"], "passed": r["points"]} for r in recs if r["a"] == "ref"},
        "l2_drift": len(tv["drift"]),
        "first_drift_line": (tv["drift"][0][2] if tv["drift"] else None),
        "model_states": mc["distinct"], "model_transitions": mc["generated"],
    }
    R.assumptions = [
        "crash = abort() of the process; the file system keeps what SQLite wrote (tmpfs or page cache): no torn pages, no lost fsync",
        "the restarted server runs with its clock set back before every committed identifier (worst case for identifier reuse)",
        "before / after are taken from fault-free runs of the same deterministic start-up and transaction",
    ]
    R.finish()
