"""C44 - Offline login accepts only the last password verified online."""
import json
from kv import lib, unixlib

PID = "C44"
META = {
    "level": "model_checking",
    "text": "TLC explores the offline-credential-cache machine (server password, per-machine cache = password x sealing key, "
            "online login, server password change, offline login, cached record copied to the other machine) exhaustively against "
            "the property (offline accept => password = last one verified online on this machine and record sealed with this "
            "machine's key). Every canonical behaviour of length 4 (thorough: plus every eighth of length 5) ending in an offline login is replayed on "
            "the real code: all of them on the real cache helpers (kanidm_update/check_cached_password = argon2id keyed through a "
            "soft-TPM HMAC key, one TPM context + machine key per machine), a sample on the real KanidmProvider "
            "(unix_user_online_auth_step against a scripted HTTP endpoint answering _unix/_auth, unix_user_offline_auth_init/_step) "
            "and on the real Resolver (pam_account_authenticate over file-backed cache databases); plus seeded random histories of "
            "10-17 steps. In addition TLC enumerates all interleavings of two OVERLAPPING PAM conversations (init and step separate, "
            "each carrying its token snapshot) with provider online/offline switches and server password changes, and every complete "
            "behaviour is replayed on the real Resolver with pam_account_authenticate_init / _step called separately, a fresh offline "
            "probe login after every completed conversation. Every observed offline result is judged by the TLA+ property.",
    "note": "2 machines, 3 passwords; the provider's KDF cost is calibrated to 250 ms per operation, so only every 60th (quick) / "
            "200th (thorough) behaviour runs at provider level and every 600th / 4000th at resolver level, all at helper level where "
            "the driver plays the provider's few lines around the helpers with the minimum KDF cost; environment assumption: a "
            "cached record is never copied back onto the machine that sealed it (rollback to a machine's own older record is "
            "accepted by design and outside the stated quantifier - the model shows it, config KUnixOfflineMCrb); trusted: TLC, "
            "kanidm-hsm-crypto soft TPM, the scripted endpoint",
    "design_ref": "DESIGN.md section 6, C44",
    "technique": "TLA+ state machine (KUnix.Offline) model-checked by TLC; model-generated behaviours replayed on the real resolver "
                 "provider with a soft TPM and a scripted HTTP endpoint, validated by a TLC trace spec",
}


def conv_phase(R, wd, quick, replay):
    """Overlapping PAM conversations (init and step separate) on the real Resolver; returns info for the evidence."""
    cfg = "KUnixConvMCq" if quick else "KUnixConvMCt"
    mc = lib.tlc("KUnixConvMC", cfg=cfg, pid=PID, workers=4, timeout=1200)
    lib.tlc_must_pass(mc, f"{cfg}: two overlapping conversations x online/offline switches x password changes")
    st = lib.tlc("KUnixConvMC", cfg="KUnixConvMCstale", pid=PID, workers=2, timeout=600)
    if st["error"]:
        lib.tool_error(f"KUnixConvMCstale did not run (log {st['log']})")
    cases = unixlib.cases_from(mc)
    if not cases:
        lib.tool_error("no conversation behaviours extracted from the model")
    obs = f"{wd}/obs-conv.ndjson"
    if replay:
        lib.kverif("unix", ["c44", "--out", obs, "--replay", replay], timeout=3000)
    else:
        # the model's stale-session witness (needs 3 environment steps) is always replayed as well
        cases = cases + [json.loads(l) for l in lib.read_lines(f"{lib.ROOT}/notes/witness-C44-stale-session.case.ndjson")]
        unixlib.write_ndjson(f"{wd}/conv-cases.ndjson", cases)
        lib.kverif("unix", ["c44", "--out", obs, "--conv-cases", f"{wd}/conv-cases.ndjson", "--threads", 12], timeout=3000)
    tv = lib.trace_validate("KUnixConvTrace", obs, PID, timeout=1800, tag="KUnixConvTrace")
    lines = lib.read_lines(obs)
    recs = [json.loads(l) for l in lines]
    starts = [i for i, r in enumerate(recs) if r["a"] == "reset"]
    for t in tv["l1fail"]:
        ln = t[2]
        s0 = max(i for i in starts if i < ln)
        hist = []
        for r in recs[s0 + 1:ln]:
            if r["a"] == "toggle":
                hist.append("online" if r["on"] else "offline")
            elif r["a"] == "pwchange":
                hist.append(f"pwchange({r['p']})")
            elif r["a"] == "cinit":
                hist.append(f"init({r['c']})={r['mode']}")
            elif r["a"] == "cstep":
                hist.append(f"step({r['c']},{r['p']})={r['res']}")
            elif r["a"] == "probe":
                hist.append(f"probe({r['p']})={r['res']}")
        R.violation(f"{t[3]} lvl=conv hist={' '.join(hist)}",
                    f"real Resolver, overlapping PAM conversations: {' '.join(hist)} ({t[3]})", lines[s0:ln])
    cnt = {}
    for r in recs:
        if r["a"] in ("cinit", "cstep", "probe"):
            k = f"{r['a']}:{r.get('mode', '-')}:{r['res']}"; cnt[k] = cnt.get(k, 0) + 1
    return {"states": mc["distinct"], "transitions": mc["generated"], "behaviours": len(starts), "lines": len(lines),
            "results": cnt, "l2_drift": len(tv["drift"]),
            "model_stale_open_session_reachable": bool(st["violated"]),
            "sample": recs[starts[len(starts) // 2]:starts[len(starts) // 2] + 12] if starts else []}


def run(tier, replay):
    R = lib.Result(PID, tier, "model_checking")
    wd = lib.workdir(PID)
    lib.build("unix")
    quick = tier == "quick"
    replay_conv = bool(replay) and '"lvl": "conv"' in open(replay).read().replace('"lvl":"conv"', '"lvl": "conv"')
    conv = conv_phase(R, wd, quick, replay if replay_conv else None) if (replay_conv or not replay) else None
    if replay_conv:
        replay = f"{lib.ROOT}/notes/replay-C44-empty.ndjson"
    mc = lib.tlc("KUnixOfflineMC", cfg="KUnixOfflineMC", pid=PID, workers=4, timeout=900)
    lib.tlc_must_pass(mc, "KUnixOfflineMC: offline cache machine vs property, all reachable states")
    rb = lib.tlc("KUnixOfflineMC", cfg="KUnixOfflineMCrb", pid=PID, workers=2, timeout=900)
    if rb["error"]:
        lib.tool_error(f"KUnixOfflineMCrb did not run (log {rb['log']})")
    mh = lib.tlc("KUnixOfflineMC", cfg="KUnixOfflineMCh4", pid=PID, workers=4, timeout=1800, xmx="8g")
    lib.tlc_must_pass(mh, "KUnixOfflineMCh4: behaviours of length 4 with history")
    cases = unixlib.cases_from(mh)
    hstates, htrans = mh["distinct"], mh["generated"]
    if not quick:
        # all behaviours of length 4 plus every eighth behaviour of length 5
        m5 = lib.tlc("KUnixOfflineMC", cfg="KUnixOfflineMCh5", pid=PID, workers=8, timeout=1800, xmx="8g")
        lib.tlc_must_pass(m5, "KUnixOfflineMCh5: behaviours of length 5 with history")
        c5 = unixlib.cases_from(m5)
        cases = cases + sorted(c5, key=lambda c: json.dumps(c, sort_keys=True))[::8]
        hstates += m5["distinct"]; htrans += m5["generated"]
    if not cases:
        lib.tool_error("no behaviours extracted from the model")
    obs = f"{wd}/obs.ndjson"
    if replay:
        lib.kverif("unix", ["c44", "--out", obs, "--replay", replay], timeout=3000)
    else:
        unixlib.write_ndjson(f"{wd}/cases.ndjson", cases)
        pe, re_, nr, th = (60, 600, 40, 8) if quick else (200, 4000, 400, 12)
        lib.kverif("unix", ["c44", "--out", obs, "--cases", f"{wd}/cases.ndjson", "--provider-every", pe, "--resolver-every", re_,
                            "--random", nr, "--threads", th, "--seed", lib.seed()], timeout=3400)
    tv = lib.trace_validate("KUnixOfflineTrace", obs, PID, timeout=2400)
    lines = lib.read_lines(obs)
    recs = [json.loads(l) for l in lines]
    starts = [i for i, r in enumerate(recs) if r["a"] == "reset"]
    for t in tv["l1fail"]:
        ln = t[2]
        st = max(i for i in starts if i < ln)
        rec = recs[ln - 1]
        hist = [f"{r['a']}({r['m']},{r['p']},{r['m2']})={r['res']}" for r in recs[st + 1:ln]]
        R.violation(f"{t[3]} lvl={rec['lvl']} hist={' '.join(hist)}",
                    f"real {rec['lvl']}-level offline login on {rec['m']} with {rec['p']} was accepted after: {' '.join(hist)}",
                    lines[st:ln])
    lv = {}
    for r in recs:
        if r["a"] != "reset":
            k = f"{r['lvl']}:{r['a']}:{r['res']}"; lv[k] = lv.get(k, 0) + 1
    nb = {}
    for i in starts:
        nb[recs[i]["lvl"]] = nb.get(recs[i]["lvl"], 0) + 1
    R.coverage = {
        "states": mc["distinct"] + hstates + (conv["states"] if conv else 0),
        "transitions": mc["generated"] + htrans + (conv["transitions"] if conv else 0),
        "traces_validated_against_impl": len(starts) + (conv["behaviours"] if conv else 0),
        "samples": [recs[starts[len(starts) // 2]:starts[len(starts) // 2] + 6]],
        "exhaustive": False,
        "model_states_exhaustive": mc["distinct"], "model_behaviours_replayed": len(cases) if not replay else 0,
        "behaviours_by_level": nb, "steps_by_level_action_result": lv,
        "model_only": {"rollback_of_own_older_record": "older password accepted again (model counterexample, environment excluded)"
                       if rb["violated"] else "not reproduced in the model"},
        "l2_drift": len(tv["drift"]) + (conv["l2_drift"] if conv else 0),
        "overlapping_conversations": conv,
        "trace_states": tv["distinct"],
        "rule": "one trace = one history on a fresh user; every offline step is judged by KUnix!OffL1 with bookkeeping derived from "
                "the observed online results and the driver's record of where each cached record was produced",
    }
    R.assumptions = ["a cached record is never copied back onto the machine whose key sealed it (no rollback of a machine's own cache)",
                     "machine key swap = a second soft-TPM context with its own machine key and sealed HMAC key",
                     "helper level: the driver performs the provider's comparison with the server password itself"]
    R.finish()
