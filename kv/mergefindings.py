#!/usr/bin/env python3
"""Writes /verif/known_findings.json as the union of known_findings.d/*.json (the per-property fragments)."""
import json, glob
out = {"_comment": "genuine defects of kanidm found by the checks: `findings` are recorded (the checks print KNOWN-FINDING and exit 0 "
       "for exactly these signatures), `fixed` were repaired by the named `fix:` commit in /repo and suppress nothing. "
       "Never written at run time.", "findings": [], "fixed": []}
for p in sorted(glob.glob("/verif/known_findings.d/*.json")):
    d = json.load(open(p))
    out["findings"] += d.get("findings", [])
    out["fixed"] += d.get("fixed", [])
json.dump(out, open("/verif/known_findings.json", "w"), indent=1)
print(len(out["findings"]), "findings,", len(out["fixed"]), "fixed")
