"""Helpers shared by the checks of the `unix` group (C43-C47)."""
import json
from kv import lib


def unescape(s):
    """lib._parse_tuple_fields keeps TLA+ string escapes; undo them."""
    return s.replace('\\"', '"').replace("\\\\", "\\")


def cases_from(res, tag="CASE"):
    """JSON payloads of <<"CASE", ToJson(x)>> tuples printed by an MC run."""
    out = []
    for t in res["tuples"]:
        if t[0] == tag and len(t) > 1:
            out.append(json.loads(unescape(t[1])))
    return out


def write_ndjson(path, objs):
    with open(path, "w") as f:
        for o in objs:
            f.write(json.dumps(o, sort_keys=True))
            f.write("\n")


def space(res, tag="SPACE"):
    for t in res["tuples"]:
        if t[0] == tag:
            return t[1:]
    lib.tool_error(f"model run did not report its {tag} tuple")


def classes(lines, key="res"):
    d = {}
    for l in lines:
        k = json.loads(l).get(key)
        d[str(k)] = d.get(str(k), 0) + 1
    return d
