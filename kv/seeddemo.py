#!/usr/bin/env python3
"""kv/seeddemo.py <SEED-ID>...  -- lead's own confirmation of a seed's demonstration (passes on the unchanged tree, fails
with the change) for seeds whose check-side verification was run with --skip-demo; result goes into
seeded/<ID>/meta.json lead_verification.demo / demo_ok.  Works in the seeding agent's scratch worktree /tmp/seed-<ID>
with the lead's private target dir."""
import json, os, re, subprocess, sys

env = dict(os.environ, RUSTUP_TOOLCHAIN="1.96.0", CARGO_TARGET_DIR="/tmp/seedverify", CARGO_INCREMENTAL="0")
for sid in sys.argv[1:]:
    WT, OUT = f"/tmp/seed-{sid}", f"/verif/seeded/{sid}"
    meta = json.load(open(f"{OUT}/meta.json"))
    lv = meta.setdefault("lead_verification", {})
    if lv.get("demo_ok") is not None and "--force" not in sys.argv:
        print(sid, "already:", lv.get("demo")); continue
    def sh(cmd, timeout=5400):
        p = subprocess.run(cmd, shell=True, cwd=WT, env=env, stdout=subprocess.PIPE, stderr=subprocess.STDOUT, text=True, timeout=timeout)
        return p.returncode, p.stdout
    summ = lambda o: re.findall(r"test result: (\w+)\. (\d+) passed; (\d+) failed", o)
    files = meta.get("files", [])
    demo_files = re.findall(r"^\+\+\+ b/(.*)$", open(f"{OUT}/demo.diff").read(), flags=re.M)
    demo_cmd = re.sub(r"^cd \S+ && ", "", meta["demo_cmd"].replace("&amp;", "&")).replace("/tmp/seedtarget1", "/tmp/seedverify")
    sh("git reset -q --hard HEAD && git clean -fdq -e SEED")
    rc, o = sh(f"git apply {OUT}/demo.diff")
    if rc != 0:
        lv["demo"] = "demo.diff does not apply to the unchanged tree: " + o[-300:]
    else:
        sh("touch " + " ".join(set(files + demo_files)))
        rc1, o1 = sh(demo_cmd); s1 = summ(o1)
        sh(f"git apply {OUT}/patch.diff && touch " + " ".join(set(files + demo_files)))
        rc2, o2 = sh(demo_cmd); s2 = summ(o2)
        lv["demo"] = f"unchanged tree: rc={rc1} {s1}; changed tree: rc={rc2} {s2}"
        lv["demo_ok"] = bool(rc1 == 0 and rc2 != 0 and any(int(x[2]) > 0 for x in s2))
        open(f"{OUT}/demo-run.log", "w").write("== unchanged ==\n" + o1[-3000:] + "\n== changed ==\n" + o2[-3000:])
    json.dump(meta, open(f"{OUT}/meta.json", "w"), indent=1)
    print(sid, lv.get("demo"), flush=True)
