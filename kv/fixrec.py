#!/usr/bin/env python3
"""kv/fixrec.py <PID> <finding-id> <commit> <short what>: move a finding of known_findings.d/<PID>.json to `fixed`."""
import json, sys
pid, fid, commit, what = sys.argv[1:5]
p = f"/verif/known_findings.d/{pid}.json"
d = json.load(open(p))
f = [x for x in d["findings"] if x["id"] == fid]
if not f:
    sys.exit(f"no finding {fid} in {p}")
d["findings"] = [x for x in d["findings"] if x["id"] != fid]
d.setdefault("fixed", []).append({"property": pid, "commit": commit, "id": fid,
                                 "line": f"fixed: property={pid} {commit} {what}", "what": f[0]["what"]})
json.dump(d, open(p, "w"), indent=1)
print("recorded", fid)
