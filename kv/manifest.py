#!/usr/bin/env python3
"""Regenerates /verif/MANIFEST.json from the META dict of every kv/checks/C*.py module.
Usage: python3 -m kv.manifest   (cwd=/verif)"""
import importlib, json, os, glob, subprocess, sys

ROOT = "/verif"

NOT_APPLICABLE = {
    "C30": "pure numeric agreement of KDF/crypt implementations with reference implementations: no state or transition "
           "to specify, a TLA+ model could only name each KDF as an uninterpreted function (DESIGN.md section 7)",
}
PENDING_REASON = "no check registered yet for this property in the current state of /verif (see DESIGN.md section 11 for the order of work)"


def hook_commits():
    try:
        out = subprocess.run(["git", "-C", "/repo", "log", "--format=%H %s"], capture_output=True, text=True).stdout
        return [l.split()[0] for l in out.splitlines() if " verif hook" in l]
    except Exception:
        return []


def main():
    sys.path.insert(0, ROOT)
    props = [json.loads(l)["id"] for l in open(f"{ROOT}/properties.jsonl") if l.strip()]
    checks = []
    claimed = set()
    allow = None
    if os.path.exists(f"{ROOT}/kv/claimed.txt"):
        allow = set(open(f"{ROOT}/kv/claimed.txt").read().split())
    for path in sorted(glob.glob(f"{ROOT}/kv/checks/C*.py")):
        pid = os.path.basename(path)[:-3]
        if allow is not None and pid not in allow:
            continue
        m = importlib.import_module(f"kv.checks.{pid}")
        meta = getattr(m, "META", None)
        if not meta or meta.get("disabled"):
            continue
        claimed.add(pid)
        c = {
            "property_id": pid,
            "quick_cmd": f"./check {pid} --tier quick",
            "thorough_cmd": f"./check {pid} --tier thorough",
            "evidence_file": f"/verif/evidence/{pid}.json",
            "replay_cmd_template": f"./check {pid} --replay {{path}}",
            "engine": meta.get("engine", "tlc+kverif"),
            "level_claimed": {"category": meta["level"], "text": meta["text"], "design_ref": meta.get("design_ref", "DESIGN.md section 6")},
            "level_note": meta["note"],
            "technique": meta.get("technique", "explicit TLA+ specification checked by TLC; traces of the real code validated against it"),
        }
        checks.append(c)
    na = []
    for p in props:
        if p in claimed:
            continue
        na.append({"property_id": p, "reason": NOT_APPLICABLE.get(p, PENDING_REASON)})
    man = {
        "version": 1,
        "setup_cmd": "./setup.sh",
        "hooks": {
            "guard": "cargo feature `verif-hooks` (declared in each hooked crate's Cargo.toml; off by default)",
            "enable": "the /verif/harness workspace depends on the hooked crates by path with features = [\"verif-hooks\"]; "
                      "every check runs `cargo build --offline --workspace` there, which recompiles /repo's working tree",
            "baseline_off_cmd": "cd /repo && RUSTUP_TOOLCHAIN=1.96.0 cargo nextest run --workspace --no-fail-fast "
                                "--tool-config-file pb:/w/lib/nextest.toml --profile pb --test-threads 8 --offline",
            "source_commits": hook_commits(),
            "add_only": True,
        },
        "engines": [
            {"name": "tlc+kverif", "path": "/verif/check", "serves_properties": sorted(claimed),
             "kind_free_text": "TLA+ specifications in /verif/spec model-checked by TLC; Rust drivers in /verif/harness run the real "
                               "kanidm code and record ndjson traces that TLC validates against the same specifications"},
        ],
        "checks": checks,
        "notes": "See DESIGN.md. Exit codes: 0 held, 1 VIOLATION, 2 TOOL-ERROR. known_findings.json lists genuine defects recorded or fixed.",
        "not_applicable": na,
    }
    with open(f"{ROOT}/MANIFEST.json", "w") as f:
        json.dump(man, f, indent=1)
        f.write("\n")
    print(f"MANIFEST.json: {len(checks)} checks, {len(na)} not claimed")


if __name__ == "__main__":
    main()
