#!/bin/sh
# usage: thorp.sh <stream> PIDs... -- thorough-tier sanity in private work/evidence dirs per stream; appends to work/thor.log
st=$1; shift
cd /verif
mkdir -p /var/tmp/thor$st/work /var/tmp/thor$st/ev
for p in "$@"; do
  s=$(date +%s)
  out=$(KV_WORK=/var/tmp/thor$st/work KV_EVIDENCE=/var/tmp/thor$st/ev nice -n 10 timeout ${THOR_TIMEOUT:-1500} ./check $p --tier thorough 2>&1); rc=$?
  e=$(date +%s)
  echo "$out" > /var/tmp/thor$st/$p.out
  echo "thorough[final-tree s$st] $p rc=$rc wall=$((e-s)) $(echo "$out" | grep -c '^KNOWN-FINDING') known | $(echo "$out" | grep -E '^\[C|^VIOLATION|^TOOL-ERROR' | head -3 | cut -c1-200 | tr '\n' ' ')" >> /verif/work/thor.log
done
