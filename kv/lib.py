"""Shared machinery for /verif checks: build, TLC runs, trace validation, evidence, findings.

Exit-code contract (DESIGN.md section 3):
  0  property held on everything explored (KNOWN-FINDING lines allowed)
  1  at least one `VIOLATION property=<id> replay=<path>` line was printed
  2  tool error (build failure, TLC crash, timeout, harness crash) -- prints TOOL-ERROR
"""
import json, os, re, subprocess, sys, time, hashlib, shutil

ROOT = "/verif"
SPEC = f"{ROOT}/spec"
# Overridable for development sandboxes only (kv/mutrun.sh); registered commands never set these.
HARNESS = os.environ.get("KV_HARNESS", f"{ROOT}/harness")
BINDIR = os.environ.get("CARGO_TARGET_DIR", f"{HARNESS}/target") + "/debug"
WORKROOT = os.environ.get("KV_WORK", f"{ROOT}/work")
EVIDENCE = os.environ.get("KV_EVIDENCE", f"{ROOT}/evidence")
REPO = os.environ.get("KV_REPO", "/repo")
ONLY_GROUP = os.environ.get("KV_ONLY_GROUP") == "1"
TLA_CP = "/opt/veriftools/tla/tla2tools.jar:/opt/veriftools/tla/CommunityModules-deps.jar"


class ToolError(Exception):
    pass


def tool_error(msg):
    print(f"TOOL-ERROR {msg}", flush=True)
    sys.exit(2)


def seed():
    try:
        return int(os.environ.get("VERIF_SEED", "1"))
    except ValueError:
        return 1


def workdir(pid):
    d = f"{WORKROOT}/{pid}"
    os.makedirs(d, exist_ok=True)
    return d


def run(cmd, timeout=None, env=None, cwd=None, stdout_path=None):
    e = dict(os.environ)
    if env:
        e.update(env)
    t0 = time.time()
    try:
        if stdout_path:
            with open(stdout_path, "w") as f:
                p = subprocess.run(cmd, cwd=cwd, env=e, stdout=f, stderr=subprocess.STDOUT, timeout=timeout, text=True)
            out = open(stdout_path).read()
        else:
            p = subprocess.run(cmd, cwd=cwd, env=e, stdout=subprocess.PIPE, stderr=subprocess.STDOUT, timeout=timeout, text=True)
            out = p.stdout
    except subprocess.TimeoutExpired:
        raise ToolError(f"timeout after {timeout}s: {' '.join(cmd[:6])}")
    return p.returncode, out, time.time() - t0


_built = set()


def build(group=None):
    """Rebuild the harness (and therefore the crates under /repo it links) from the current tree."""
    global _built
    if "*" in _built or (group and group in _built):
        return
    lock = f"{HARNESS}/Cargo.lock"
    if not os.path.exists(lock) or os.path.getmtime(lock) < os.path.getmtime(f"{REPO}/Cargo.lock"):
        shutil.copy(f"{REPO}/Cargo.lock", lock)
    # serialise concurrent builds (several checks may run in parallel)
    import fcntl
    os.makedirs(WORKROOT, exist_ok=True)
    with open(f"{WORKROOT}/.build.lock", "w") as lk:
        fcntl.flock(lk, fcntl.LOCK_EX)
        rc = 1
        ws_ok = False
        if not (ONLY_GROUP and group):
            rc, out, dt = run(["cargo", "build", "--offline", "--quiet", "--workspace"], cwd=HARNESS, timeout=3600,
                              env={"CARGO_NET_OFFLINE": "true"})
            ws_ok = rc == 0
        if rc != 0 and group:
            # another group's driver may not compile against an edited tree: build only ours
            rc, out, dt = run(["cargo", "build", "--offline", "--quiet", "-p", f"kv-{group}"], cwd=HARNESS,
                              timeout=3600, env={"CARGO_NET_OFFLINE": "true"})
    if rc != 0:
        tail = "\n".join(out.splitlines()[-40:])
        print(tail)
        tool_error("harness build failed (the tree under /repo does not compile with hooks enabled)")
    if ws_ok:
        _built.add("*")
    else:
        _built.add(group)       # only this group's driver was (re)built


def kverif(group, args, timeout=1800, env=None, allow_fail=False):
    """Run the group driver kv-<group> (harness/<group>) with a subcommand and --key value options."""
    build(group)
    e = {"RUST_BACKTRACE": "0", "RUST_LOG": "off"}
    if env:
        e.update(env)
    rc, out, dt = run([f"{BINDIR}/kv-{group}"] + [str(a) for a in args], timeout=timeout, env=e)
    if rc != 0 and not allow_fail:
        print("\n".join(out.splitlines()[-30:]))
        tool_error(f"harness subcommand failed rc={rc}: kverif {' '.join(str(a) for a in args[:4])}")
    return rc, out, dt


# ----------------------------------------------------------------------------- TLC

_STATS = re.compile(r"(\d+) states generated, (\d+) distinct states found")
_TUPLE = re.compile(r'^<<\s*"([A-Z0-9]+)"(.*)>>\s*$', re.S)


def _tuple_texts(out):
    """PrintT'ed tuples, re-joined: TLC's pretty printer wraps tuples wider than 80 columns over several lines."""
    lines = out.splitlines()
    i = 0
    while i < len(lines):
        ln = lines[i].strip()
        if re.match(r'^<<\s*"[A-Z0-9]+"', ln):
            buf = ln
            j = i
            while not buf.endswith(">>") and j + 1 < len(lines) and j - i < 200:
                j += 1
                buf += " " + lines[j].strip()
            yield buf
            i = j + 1
        else:
            i += 1


def _parse_tuple_fields(s):
    # fields of a PrintT'ed tuple of strings / ints (flat)
    out = []
    for m in re.finditer(r'"((?:[^"\\]|\\.)*)"|(-?\d+)', s):
        out.append(m.group(1) if m.group(1) is not None else int(m.group(2)))
    return out


def tlc(module, cfg=None, pid="misc", workers=4, timeout=600, env=None, simulate=None, depth=None,
        xmx="4g", dfs=False, extra=None, seed_val=None, tag=None):
    """Run TLC on /verif/spec/<module>.tla. Returns dict with output, counts, printed tuples, violations."""
    wd = workdir(pid)
    tag = tag or (cfg or module)
    meta = f"{wd}/tlc_{tag}"
    shutil.rmtree(meta, ignore_errors=True)
    jopts = f"-Xss1g -Xmx{xmx}"
    if dfs:
        jopts += " -Dtlc2.tool.queue.IStateQueue=StateDeque"
    cmd = ["java", "-XX:+UseParallelGC"] + jopts.split() + ["-cp", TLA_CP, "tlc2.TLC",
           "-workers", str(workers), "-metadir", meta, "-cleanup", "-noGenerateSpecTE"]
    if simulate:
        cmd += ["-simulate", simulate]
        if depth:
            cmd += ["-depth", str(depth)]
    if seed_val is not None:
        cmd += ["-seed", str(seed_val)]
    if extra:
        cmd += extra
    cmd += ["-config", f"{cfg or module}.cfg", f"{module}.tla"]
    logp = f"{wd}/tlc_{tag}.log"
    try:
        rc, out, dt = run(cmd, cwd=SPEC, timeout=timeout, env=env, stdout_path=logp)
    except ToolError as ex:
        shutil.rmtree(meta, ignore_errors=True)
        raise
    shutil.rmtree(meta, ignore_errors=True)
    res = {"rc": rc, "out": out, "wall_s": dt, "log": logp, "generated": 0, "distinct": 0,
           "tuples": [], "violated": [], "error": None}
    for m in _STATS.finditer(out):
        res["generated"], res["distinct"] = int(m.group(1)), int(m.group(2))
    for text in _tuple_texts(out):
        m = _TUPLE.match(text)
        if m:
            res["tuples"].append([m.group(1)] + _parse_tuple_fields(m.group(2)))
    for m in re.finditer(r"Invariant (\S+) is violated", out):
        res["violated"].append(m.group(1))
    for m in re.finditer(r"Action property (\S+) is violated|Temporal property (\S+) (?:was|is) violated|Temporal properties were violated", out):
        res["violated"].append(m.group(1) or m.group(2) or "temporal")
    ok_end = "Model checking completed. No error has been found." in out or (simulate and rc in (0,))
    if not ok_end and not res["violated"]:
        # parse / semantic / runtime errors
        if re.search(r"(Error:|Exception|error occurred|Parsing or semantic analysis failed|The exception was|TLC threw)", out):
            res["error"] = "\n".join([l for l in out.splitlines() if l.strip()][-25:])
    return res


def tlc_must_pass(res, what):
    if res["error"] or res["rc"] not in (0,) or res["violated"]:
        print("\n".join(res["out"].splitlines()[-40:]))
        tool_error(f"TLC run failed: {what} (log {res['log']})")


def trace_validate(module, trace_path, pid, cfg=None, timeout=900, xmx="6g", extra_env=None, tag=None):
    """Validate an observed ndjson trace with a K*Trace spec. The spec prints
    <<"L1FAIL", prop, line, sig>> for property failures and <<"L2DRIFT", prop, line>> for lines the
    implementation-shaped layer does not explain; it must consume every line (POSTCONDITION)."""
    env = {"TRACE": trace_path}
    if extra_env:
        env.update(extra_env)
    res = tlc(module, cfg=cfg, pid=pid, workers=1, timeout=timeout, env=env, xmx=xmx, dfs=True, tag=tag or module)
    if res["error"] or res["violated"] or any(t[0] == "NOTCONSUMED" for t in res["tuples"]) or \
            "No error has been found" not in res["out"]:
        print("\n".join(res["out"].splitlines()[-40:]))
        tool_error(f"trace validation could not complete: {module} on {trace_path} (log {res['log']})")
    res["l1fail"] = [t for t in res["tuples"] if t[0] == "L1FAIL"]
    res["drift"] = [t for t in res["tuples"] if t[0] == "L2DRIFT"]
    return res


def read_lines(path):
    with open(path) as f:
        return [l for l in f.read().splitlines() if l.strip()]


# ----------------------------------------------------------------------------- findings / result


def load_findings():
    """known_findings.json (+ known_findings.d/*.json fragments, same shape) -- never written at run time."""
    import glob
    allf = {"findings": [], "fixed": []}
    for p in [f"{ROOT}/known_findings.json"] + sorted(glob.glob(f"{ROOT}/known_findings.d/*.json")):
        if os.path.exists(p):
            d = json.load(open(p))
            have = {f.get("id") for f in allf["findings"]}
            allf["findings"] += [f for f in d.get("findings", []) if f.get("id") not in have]
            havef = {(f.get("id"), f.get("commit")) for f in allf["fixed"]}
            allf["fixed"] += [f for f in d.get("fixed", []) if (f.get("id"), f.get("commit")) not in havef]
    return allf


class Result:
    """Collects violations for one property, matches them against known findings and ends the run."""

    def __init__(self, pid, tier, level):
        self.pid, self.tier, self.level = pid, tier, level
        self.t0 = time.time()
        self.violations = []   # (signature, description, replay_path)
        self.known_hits = {}   # finding id -> description
        self.coverage = {}
        self.assumptions = []
        self.findings = [f for f in load_findings().get("findings", []) if f.get("property") == pid]

    def violation(self, signature, description, replay_lines, kind=None):
        """signature: short machine string describing the failing observation (used for matching).
        replay_lines: list of ndjson strings reproducing it."""
        for f in self.findings:
            if self._match(f, signature, kind):
                self.known_hits.setdefault(f["id"], f.get("what", f["id"]))
                return
        wd = workdir(self.pid)
        n = len(self.violations)
        path = f"{wd}/replay-{min(n, 49):04d}.ndjson"
        if n < 50:  # keep at most 50 replay files per run
            with open(path, "w") as fh:
                for l in replay_lines:
                    fh.write(l if isinstance(l, str) else json.dumps(l))
                    fh.write("\n")
        self.violations.append((signature, description, path))

    @staticmethod
    def _match(f, signature, kind):
        if "kind" in f and kind is not None and f["kind"] == kind:
            return True
        if "signature_regex" in f and re.search(f["signature_regex"], signature):
            return True
        return False

    def finish(self):
        wall = time.time() - self.t0
        for fid, what in self.known_hits.items():
            print(f"KNOWN-FINDING: property={self.pid} {what}")
        # report at most a handful of distinct violations
        shown = set()
        for sig, desc, path in self.violations:
            if sig in shown:
                continue
            shown.add(sig)
            if len(shown) <= 10:
                print(f"VIOLATION property={self.pid} replay={path}")
                print(f"  what: {desc}")
        cov = dict(self.coverage)
        ev = {
            "property_id": self.pid,
            "tier": self.tier,
            "seed": seed(),
            "level": self.level,
            "coverage": cov,
            "assumptions": self.assumptions,
            "wall_s": round(wall, 2),
            "violations": len(self.violations),
            "known_findings_hit": sorted(self.known_hits.keys()),
        }
        os.makedirs(EVIDENCE, exist_ok=True)
        with open(f"{EVIDENCE}/{self.pid}.json", "w") as f:
            json.dump(ev, f, indent=1, sort_keys=True)
            f.write("\n")
        print(f"[{self.pid}] tier={self.tier} wall={wall:.1f}s violations={len(self.violations)} "
              f"known={len(self.known_hits)} coverage_keys={sorted(cov.keys())}")
        sys.exit(1 if self.violations else 0)


def sample(lines, k=3):
    """A few observed lines verbatim (parsed) for the evidence file."""
    if not lines:
        return []
    idx = sorted(set([0, len(lines) // 2, len(lines) - 1]))[:k]
    out = []
    for i in idx:
        try:
            out.append(json.loads(lines[i]))
        except Exception:
            out.append(lines[i][:400])
    return out


def _reap_provers(pd):
    """Kill back-end provers that were started from the scratch proof directory `pd` and escaped the process group."""
    import signal
    for d in os.listdir("/proc"):
        if not d.isdigit():
            continue
        try:
            if os.readlink(f"/proc/{d}/cwd").startswith(pd):
                os.kill(int(d), signal.SIGKILL)
        except (OSError, ValueError):
            pass


def tlapm_prove(module, deps, pid, theorem, timeout=1500, threads=4):
    """Run the TLA+ proof system on spec/<module>.tla (which EXTENDS the checked modules `deps` themselves) in a scratch
    copy under the property's work directory.  A failed obligation is a defect of the specification library, not of
    the code under test: tool error."""
    import shutil
    wd = workdir(pid)
    pd = f"{wd}/proof-{module}"
    shutil.rmtree(pd, ignore_errors=True)
    os.makedirs(pd)
    for f in list(deps) + [module]:
        shutil.copy(f"{ROOT}/spec/{f}.tla", pd)
    log = f"{wd}/tlapm_{module}.log"
    # tlapm races several back ends per obligation and does not reap the losers (a diverging z3 survives tlapm and spins
    # for hours): run it in its own session and kill the whole process group afterwards
    import signal
    proc = subprocess.Popen(["tlapm", "--threads", str(threads), f"{module}.tla"], cwd=pd, stdout=subprocess.PIPE,
                            stderr=subprocess.STDOUT, text=True, start_new_session=True)
    timed_out = False
    try:
        out, _ = proc.communicate(timeout=timeout)
    except subprocess.TimeoutExpired:
        timed_out = True
        out = ""
    finally:
        try:
            os.killpg(proc.pid, signal.SIGKILL)
        except (ProcessLookupError, PermissionError):
            pass
        _reap_provers(pd)
    if timed_out:
        tool_error(f"tlapm {module} timed out")
    open(log, "w").write(out)
    m = re.search(r"All (\d+) obligations proved", out)
    if proc.returncode != 0 or not m:
        print(out[-1500:])
        tool_error(f"tlapm did not prove {module} (log {log})")
    shutil.rmtree(pd, ignore_errors=True)
    return {"prover": "tlapm (TLAPS 1.6.0-pre; SMT / Zenon / Isabelle back ends)", "module": module,
            "theorem": theorem, "obligations_proved": int(m.group(1))}
