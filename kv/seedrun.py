#!/usr/bin/env python3
"""kv/seedrun.py <SEED-ID> <group> [PID]
Takes the deliverables of an independent seeding agent from /tmp/seed-<ID>/SEED, stores them under /verif/seeded/<ID>/,
(1) confirms in the agent's scratch worktree that the demonstration passes WITHOUT the change and fails WITH it,
(2) runs the property's check against the change in a private patched worktree (kv/mutrun.sh), and records both in
meta.json under `lead_verification`. Existing-test results are taken from the agent's meta.json unless --tests is given."""
import json, os, re, shutil, subprocess, sys, time

sid, group = sys.argv[1], sys.argv[2]
pid = sys.argv[3] if len(sys.argv) > 3 and not sys.argv[3].startswith("--") else sid
run_tests = "--tests" in sys.argv
skip_demo = "--skip-demo" in sys.argv
WT = f"/tmp/seed-{sid}"
OUT = f"/verif/seeded/{sid}"
os.makedirs(OUT, exist_ok=True)
prev_lv = {}
if os.path.exists(f"{OUT}/meta.json"):
    prev_lv = json.load(open(f"{OUT}/meta.json")).get("lead_verification", {})
for f in os.listdir(f"{WT}/SEED"):
    if f in ("patch.diff", "demo.diff", "meta.json"):
        shutil.copy(f"{WT}/SEED/{f}", OUT)
meta = json.load(open(f"{OUT}/meta.json"))
lv = meta.get("lead_verification", {}) or {k: v for k, v in prev_lv.items() if k in ("demo", "demo_ok", "existing_tests", "history")}
env = dict(os.environ, RUSTUP_TOOLCHAIN="1.96.0", CARGO_TARGET_DIR="/tmp/seedverify")

def sh(cmd, cwd=WT, timeout=5400):
    p = subprocess.run(cmd, shell=True, cwd=cwd, env=env, stdout=subprocess.PIPE, stderr=subprocess.STDOUT, text=True, timeout=timeout)
    return p.returncode, p.stdout

def test_summary(out):
    m = re.findall(r"test result: (\w+)\. (\d+) passed; (\d+) failed", out)
    return m

if not skip_demo:
    files = meta.get("files", [])
    touch = " ".join(files) if files else ""
    demo_cmd = meta["demo_cmd"].replace("/tmp/seedtarget1", "/tmp/seedverify")   # lead's private target dir
    # unchanged tree + demo
    sh("git checkout -q -- . && git clean -fdq -e SEED")
    rc, o = sh(f"git apply SEED/demo.diff")
    if rc != 0:
        lv["demo"] = "demo.diff does not apply to the unchanged tree: " + o[-300:]
    else:
        demo_files = re.findall(r"^\+\+\+ b/(.*)$", open(f"{OUT}/demo.diff").read(), flags=re.M)
        sh("touch " + " ".join(set(files + demo_files)))
        rc1, o1 = sh(demo_cmd)
        s1 = test_summary(o1)
        sh(f"git apply SEED/patch.diff && touch " + " ".join(set(files + demo_files)))
        rc2, o2 = sh(demo_cmd)
        s2 = test_summary(o2)
        lv["demo"] = f"unchanged tree: rc={rc1} {s1}; changed tree: rc={rc2} {s2}"
        lv["demo_ok"] = bool(rc1 == 0 and rc2 != 0 and any(int(x[2]) > 0 for x in s2))
        open(f"{OUT}/demo-run.log", "w").write("== unchanged ==\n" + o1[-3000:] + "\n== changed ==\n" + o2[-3000:])
        if run_tests and meta.get("existing_tests_cmd"):
            sh("git checkout -q -- . && git apply SEED/patch.diff && touch " + " ".join(files))
            rc3, o3 = sh(meta["existing_tests_cmd"].split("  (")[0].replace("/tmp/seedtarget1", "/tmp/seedverify"))
            lv["existing_tests"] = f"rc={rc3} {test_summary(o3)}"
if "existing_tests" not in lv:
    lv["existing_tests"] = "as reported by the seeding agent: " + str(meta.get("existing_tests_result"))

# the property's check against the change
t0 = time.time()
p = subprocess.run(["/verif/kv/mutrun.sh", group, f"{OUT}/patch.diff", pid], cwd="/verif", stdout=subprocess.PIPE, stderr=subprocess.STDOUT, text=True)
out = p.stdout
viol = [l for l in out.splitlines() if l.startswith("VIOLATION")]
whats = [l.strip() for l in out.splitlines() if l.strip().startswith("what:")]
tail = [l for l in out.splitlines() if l.startswith("[") or l.startswith("TOOL-ERROR")]
lv["check_cmd"] = f"kv/mutrun.sh {group} seeded/{sid}/patch.diff {pid} (quick tier; private worktree of /repo HEAD + patch)"
if p.returncode == 1 and viol:
    lv["result"] = f"caught: exit 1, {len(viol)} VIOLATION line(s); first: {whats[0][:200] if whats else ''}"
elif p.returncode == 0:
    lv["result"] = "MISSED: check exited 0"
else:
    lv["result"] = f"tool error rc={p.returncode}: {tail[-1][:200] if tail else out[-200:]}"
lv["check_wall_s"] = round(time.time() - t0)
meta["lead_verification"] = lv
json.dump(meta, open(f"{OUT}/meta.json", "w"), indent=1)
print(sid, lv.get("demo"), "|", lv["result"])
