#!/usr/bin/env python3
"""Writes lead_verification.first_run for every stored seed: the result of the FIRST run of the property's check against
the seeded change (from work/seedq.log; seeds verified before the queue existed are listed by hand), so that DESIGN.md
can say which changes were missed at first and caught only after the check was strengthened."""
import json, re, os, glob
ROOT = "/verif"
# first results recorded before / outside the queue log (see git history of seeded/*/meta.json and notes/*.md)
MANUAL_FIRST_MISSED = {"C09", "C15", "C16", "C19", "C21", "C24", "C27", "C32", "C38", "C49", "C06"}
first = {}
if os.path.exists(f"{ROOT}/work/seedq.log"):
    for l in open(f"{ROOT}/work/seedq.log"):
        m = re.match(r"^(C\d\d) .*\| (MISSED|caught|tool error)", l)
        if m and m.group(2) != "tool error" and m.group(1) not in first:
            first[m.group(1)] = m.group(2)
for mp in sorted(glob.glob(f"{ROOT}/seeded/C*/meta.json")):
    sid = mp.split("/")[3]
    meta = json.load(open(mp)); lv = meta.setdefault("lead_verification", {})
    if "first_run" in lv:
        continue
    f = "MISSED" if sid in MANUAL_FIRST_MISSED else first.get(sid)
    if f:
        lv["first_run"] = "missed" if f == "MISSED" else "caught"
        json.dump(meta, open(mp, "w"), indent=1)
