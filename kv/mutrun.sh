#!/bin/sh
# Development aid: run a check against a PATCHED PRIVATE COPY of /repo without touching /repo.
#   kv/mutrun.sh <group> <patch.diff> <PID> [quick|thorough]
# Creates a git worktree of /repo HEAD under /tmp/mut-<group>/repo, applies the patch, copies the
# harness next to it with its path dependencies rewritten, builds ONLY kv-<group> into its own
# target dir and runs ./check <PID>. Evidence and work files go under /tmp/mut-<group>/.
# Remove the sandbox afterwards:  kv/mutrun.sh --clean <group>
set -e
if [ "$1" = "--clean" ]; then
  git -C /repo worktree remove --force /tmp/mut-$2/repo 2>/dev/null || true
  rm -rf /tmp/mut-$2; git -C /repo worktree prune; exit 0
fi
G=$1; PATCH=$(readlink -f "$2"); PID=$3; TIER=${4:-quick}
S=/tmp/mut-$G
if [ ! -d $S/repo ]; then
  mkdir -p $S
  git -C /repo worktree add --detach $S/repo HEAD >/dev/null
fi
git -C $S/repo checkout -q -- . && git -C $S/repo clean -fdq
git -C $S/repo apply "$PATCH"
rm -rf $S/harness.new && mkdir -p $S/harness.new
(cd /verif/harness && tar cf - --exclude=./target --exclude='./target-*' .) | (cd $S/harness.new && tar xf -)
find $S/harness.new -name Cargo.toml | xargs sed -i "s#\"/repo/#\"$S/repo/#g"
mkdir -p $S/harness && rsync -a --delete --exclude target $S/harness.new/ $S/harness/ && rm -rf $S/harness.new
# seed the private target dir from the shared one the first time (saves a cold build)
if [ ! -d $S/harness/target ] && [ -d /verif/harness/target ]; then mkdir -p $S/harness/target; rsync -a --exclude incremental /verif/harness/target/ $S/harness/target/ || true; fi   # files of a build in flight may vanish
cd /verif
KV_ONLY_GROUP=1 KV_REPO=$S/repo KV_HARNESS=$S/harness KV_WORK=$S/work KV_EVIDENCE=$S/evidence CARGO_TARGET_DIR=$S/harness/target \
  ./check $PID --tier $TIER
