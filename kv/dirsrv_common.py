"""Shared orchestration for the dirsrv group (C16 C17 C18 C22 C26): TLC exhaustive runs that print
CEX / BEH history tuples, conversion of those histories into replay files for the REAL-server history
driver (kv-dirsrv hist), trace validation and the judgement of L1 failures against known findings.

Nothing here decides pass/fail of the property: that is always the L1 verdict of the TLA+ trace spec
(`L1FAIL` tuples) on an observation of the real code."""
import json, os
from kv import lib

GROUP = "dirsrv"
RMAX = 7 * 86400  # expected build constants (checked against what the driver logs; assumption only)


# ----------------------------------------------------------------------------- MC histories

def mc(module, cfg, pid, workers, timeout, tag=None, kinds=()):
    """Exhaustive run. ONE worker on purpose: which history TLC remembers for a state depends on the
    order in which workers reach it, and the histories are replayed - a single worker keeps the check
    deterministic. `kinds`: edit kinds that must occur in the printed histories (vacuity guard)."""
    workers = 1
    res = lib.tlc(module, cfg=cfg, pid=pid, workers=workers, timeout=timeout, tag=tag or cfg)
    lib.tlc_must_pass(res, f"{cfg}: exhaustive exploration of L2 against L1")
    tups = parse_tuples(res["out"])
    cex = [t[1:] for t in tups if t[0] == "CEX"]
    beh = [t[1:] for t in tups if t[0] == "BEH"]
    if kinds:
        off = 2 if module == "KMemberOfMC" else 1      # KMemberOfMC tuples carry the initial graph mask first
        seen = set()
        for t in cex + beh:
            n = t[off - 1]
            seen |= {t[off + 3 * i] for i in range(n)}
        missing = set(kinds) - seen
        if missing:
            lib.tool_error(f"{cfg}: vacuous exploration, edit kinds {sorted(missing)} never occur in any printed history")
        res["kinds_seen"] = sorted(seen)
    return res, cex, beh


def triples(t):
    """<<n, k1,a1,b1, ...>> -> [(k,a,b)] * n"""
    n = t[0]
    return [(t[1 + 3 * i], t[2 + 3 * i], t[3 + 3 * i]) for i in range(n)]


def setcode(code, n=8):
    return [f"e{i}" for i in range(1, n + 1) if code >> (i - 1) & 1]


def eq(a, v):
    return {"t": "eq", "a": a, "v": v, "s": []}


# --- per-module decoding of model histories into driver operations (same alphabets as the K*MC modules)

def ops_c16(tr):
    """KRefintMC: 1,2 groups; 3 client certificate -> 1; 4 dynamic group description=x1"""
    ops = [{"a": "create_batch", "t": 5, "ents": [
        {"k": "grp", "id": "e1", "n": "n1", "m": [], "d": "x1"},
        {"k": "grp", "id": "e2", "n": "n2", "m": [], "d": "x1"},
        {"k": "cert", "id": "e3", "r": "e1"},
        {"k": "dyn", "id": "e4", "n": "n4", "f": eq("description", "x1"), "d": ""}]}]
    t = 5
    for k, a, b in tr:
        t += 5
        if k == 1: op = {"a": "add_member", "g": f"e{a}", "x": f"e{b}"}
        elif k == 2: op = {"a": "remove_member", "g": f"e{a}", "x": f"e{b}"}
        elif k == 3: op = {"a": "set_refers", "c": "e3", "x": f"e{b}"}
        elif k == 4: op = {"a": "delete", "ids": setcode(a)}
        elif k == 5: op = {"a": "revive", "ids": [f"e{a}"]}
        elif k == 6:
            t += RMAX + 10
            op = {"a": "purge_recycled"}
        elif k == 8: op = {"a": "set_members", "g": f"e{a}", "xs": setcode(b)}
        else: op = {"a": "set_desc", "id": "e4", "d": "zz"}
        op["t"] = t
        ops.append(op)
    return ops


_F18 = [None, eq("description", "x1"), eq("description", "x2"),
        {"t": "and", "a": "", "v": "", "s": [
            {"t": "or", "a": "", "v": "", "s": [eq("description", "x1"), eq("description", "x2")]},
            {"t": "not", "a": "", "v": "", "s": [eq("name", "n1")]}]}]


def ops_c18(tr):
    """KDynGroupMC: candidates 1..3 persons, dynamic groups 4,5 (description x1)"""
    vals = [None, "x1", "x2"]
    ops = [{"a": "create_batch", "t": 5, "ents": [
        {"k": "usr", "id": "e1", "n": "n1", "d": "x1"},
        {"k": "usr", "id": "e2", "n": "n2", "d": "x2"},
        {"k": "dyn", "id": "e4", "n": "n4", "f": _F18[1], "d": "x1"}]}]
    t = 5
    for k, a, b in tr:
        t += 5
        if k == 1: op = {"a": "create_person", "id": f"e{a}", "n": f"n{a}", "d": vals[b]}
        elif k == 2: op = {"a": "set_desc", "id": f"e{a}", "d": vals[b]}
        elif k == 3: op = {"a": "delete", "ids": [f"e{a}"]}
        elif k == 4: op = {"a": "revive", "ids": [f"e{a}"]}
        elif k == 5: op = {"a": "create_dyn", "id": "e5", "n": "n5", "f": _F18[b], "d": "x1"}
        elif k == 6: op = {"a": "set_filter", "d": f"e{a}", "f": _F18[b]}
        else:
            t += RMAX + 10
            op = {"a": "purge_recycled"}
        op["t"] = t
        ops.append(op)
    return ops


def ops_c22(tr):
    """KSpnMC: 1 person, 2 group, 3 service account; names n1..n3; two domains"""
    doms = [None, "example.com", "new.example.org"]
    mk = {1: "create_person", 2: "create_group", 3: "create_svc"}
    ops = [{"a": "create_person", "id": "e1", "n": "n1", "d": "x1", "t": 5}]
    t = 5
    for k, a, b in tr:
        t += 5
        if k == 1:
            op = {"a": mk[a], "id": f"e{a}", "n": f"n{b}", "d": "x1"}
            if a == 2: op["m"] = []
        elif k == 2: op = {"a": "rename", "id": f"e{a}", "n": f"n{b}"}
        elif k == 3: op = {"a": "domain_rename", "dom": doms[a]}
        elif k == 4: op = {"a": "delete", "ids": [f"e{a}"]}
        elif k == 5: op = {"a": "revive", "ids": [f"e{a}"]}
        else: op = {"a": "set_desc", "id": f"e{a}", "d": "x2"}
        op["t"] = t
        ops.append(op)
    return ops


def ops_c26(tr, unit):
    """KRecycleMC: 1 and 4 persons, both members of group 2; 1 is the target of certificate 3; edits
    <<kind, arg, dt>>, delete / revive name a SET of entries (set code) and are ONE operation;
    one model time unit = `unit` seconds (RMax = CMax = 2 units = the build's retention constants)"""
    ops = [{"a": "create_batch", "t": 10, "ents": [
        {"k": "usr", "id": "e1", "n": "n1", "d": "x1"},
        {"k": "usr", "id": "e4", "n": "n4", "d": "x1"},
        {"k": "grp", "id": "e2", "n": "n2", "m": ["e1", "e4"], "d": ""},
        {"k": "cert", "id": "e3", "r": "e1"}]}]
    now = 0
    for k, a, dt in tr:
        now += dt
        if k == 1: op = {"a": "delete", "ids": setcode(a)}
        elif k == 2: op = {"a": "revive", "ids": setcode(a)}
        elif k == 3: op = {"a": "purge_recycled"}
        elif k == 4: op = {"a": "purge_tombstones"}
        elif k == 5: op = {"a": "remove_member", "g": "e2", "x": "e1"}
        else: op = {"a": "add_member", "g": "e2", "x": "e1"}
        op["t"] = 10 + unit * now
        ops.append(op)
    return ops


def multi_revive(tr):
    """does this model history revive two or more entries with one operation?"""
    return any(k == 2 and bin(a).count("1") >= 2 for k, a, _ in tr)


def write_replay(path, histories):
    """histories: list of op lists -> one replay file, each history behind a reset line"""
    with open(path, "w") as f:
        for i, ops in enumerate(histories):
            f.write(json.dumps({"a": "reset", "hid": 1000 + i, "t": 0}) + "\n")
            for op in ops:
                f.write(json.dumps(op) + "\n")
    return path


def concat(out, paths):
    with open(out, "w") as o:
        for p in paths:
            if p and os.path.exists(p):
                with open(p) as f:
                    for l in f:
                        if l.strip():
                            o.write(l if l.endswith("\n") else l + "\n")
    return out


# ----------------------------------------------------------------------------- judgement

def starts(rec):
    return rec.get("a") == "reset" or rec.get("first") is True


def history_prefix(lines, ln):
    """the lines that reproduce line `ln` (1-based): from the start of its history up to it, observations stripped"""
    i = ln - 1
    while i > 0 and not starts(json.loads(lines[i])):
        i -= 1
    out = []
    for l in lines[i:ln]:
        r = json.loads(l)
        for k in ("st", "full"):
            r.pop(k, None)
        out.append(json.dumps(r, sort_keys=True))
    return out


def brief(rec, ids=None, maxids=6):
    """small rendering of an observed line for messages / evidence samples"""
    r = {k: v for k, v in rec.items() if k not in ("st", "full", "ents", "f")}
    st = rec.get("st", {})
    e = st.get("e", {})
    keys = [k for k in e if e[k].get("mdl")]
    if ids:
        keys = [k for k in keys if k in ids] or keys
    r["st"] = {"dom": st.get("domattr"), "e": {k: {"lv": e[k]["lv"], "k": e[k]["k"], "n": e[k]["n"], "spn": e[k]["spn"],
                                                   "refs": e[k]["refs"]} for k in keys[:maxids]}}
    return r


def samples(lines, k=3):
    if not lines:
        return []
    idx = sorted(set([min(1, len(lines) - 1), len(lines) // 2, len(lines) - 1]))[:k]
    return [brief(json.loads(lines[i])) for i in idx]


def judge(R, pid, tv, lines, what):
    """Every L1FAIL tuple of the trace run becomes a violation (matched against known findings by its
    signature) unless it only repeats discrepancies that an earlier line of the same history already
    reported (`persist`). Returns counters for the evidence file."""
    cnt = {"l1_failing_lines": 0, "l1_persisting_lines": 0, "signatures": {}}
    for t in tv["l1fail"]:
        if t[1] != pid:
            continue
        ln, sig = t[2], t[3]
        cnt["l1_failing_lines"] += 1
        if sig.startswith("persist"):
            cnt["l1_persisting_lines"] += 1
            continue
        rec = json.loads(lines[ln - 1])
        for part in [s.strip() for s in sig.split("|")]:
            cnt["signatures"][part] = cnt["signatures"].get(part, 0) + 1
            args = {k: v for k, v in rec.items() if k not in ("st", "full", "ents")}
            R.violation(part, f"{what}: {part}; failing step {json.dumps(args, sort_keys=True)[:300]}",
                        history_prefix(lines, ln))
    return cnt


def constants_of(lines):
    for l in lines:
        r = json.loads(l)
        if r.get("a") == "reset" and "c" in r:
            return r["c"]
    return {}


def op_counts(lines):
    c = {}
    for l in lines:
        r = json.loads(l)
        k = f"{r.get('a')}:{'ok' if r.get('res') == 'ok' else ('panic' if r.get('res') == 'panic' else 'refused')}"
        c[k] = c.get(k, 0) + 1
    return c


def hist(pid, out, focus, nh, steps, seed_off=0, groups=12):
    lib.kverif(GROUP, ["hist", "--out", out, "--focus", focus, "--hist", nh, "--steps", steps,
                       "--seed", lib.seed() * 7919 + seed_off, "--groups", groups], timeout=3000)
    return out


def hist_replay(out, replay_path):
    lib.kverif(GROUP, ["hist", "--out", out, "--replay", replay_path], timeout=3000)
    return out


def parse_tuples(out):
    """All PrintT'ed tuples of a TLC output, including those TLC wraps over several lines (it breaks
    tuples longer than 80 columns, which lib.tlc's one-line pattern does not see)."""
    import re
    res = []
    buf = None
    for line in out.splitlines():
        s = line.strip()
        if buf is None:
            if s.startswith("<<") and re.match(r'^<<\s*"[A-Z0-9]+"', s):
                buf = s
            else:
                continue
        else:
            buf += " " + s
        if buf.endswith(">>"):
            m = re.match(r'^<<\s*"([A-Z0-9]+)"(.*)>>$', buf)
            if m:
                res.append([m.group(1)] + lib._parse_tuple_fields(m.group(2)))
            buf = None
        elif len(buf) > 4000:
            buf = None
    return res


def validate_sharded(module, path, pid, wd, shard=12000, timeout=1500):
    """TLC holds the whole trace in memory: validate long observation files in shards that start at a
    history boundary. Returns a merged result with line numbers relative to the whole file."""
    lines = lib.read_lines(path)
    cuts = [0]
    last = 0
    for i, l in enumerate(lines):
        if i - last >= shard and starts(json.loads(l)):
            cuts.append(i)
            last = i
    cuts.append(len(lines))
    merged = {"l1fail": [], "drift": [], "distinct": 0, "wall_s": 0.0, "tuples": []}
    for k in range(len(cuts) - 1):
        a, b = cuts[k], cuts[k + 1]
        if a == b:
            continue
        if len(cuts) == 2:
            sp = path
        else:
            sp = f"{wd}/shard-{module}-{k}.ndjson"
            with open(sp, "w") as f:
                f.write("\n".join(lines[a:b]) + "\n")
        tv = lib.trace_validate(module, sp, pid, timeout=timeout, tag=f"{module}-{k}")
        tups = parse_tuples(tv["out"])
        tv["l1fail"] = [t for t in tups if t[0] == "L1FAIL"]
        tv["drift"] = [t for t in tups if t[0] == "L2DRIFT"]
        for t in tv["l1fail"]:
            merged["l1fail"].append([t[0], t[1], t[2] + a, t[3]])
        for t in tv["drift"]:
            merged["drift"].append([t[0], t[1], t[2] + a])
        merged["distinct"] += tv["distinct"]
        merged["wall_s"] += tv["wall_s"]
        if sp != path:
            os.remove(sp)
    return merged, lines
