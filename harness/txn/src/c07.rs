//! C07: change identifiers strictly increase.
//! Behaviours = sequences of Begin(now) / Commit / Abort / Restart(now) on a FILE-backed server
//! (restart = drop the server and reopen the same file). Every transaction writes a probe entry;
//! the observation is the identifier the open transaction carries (H1 accessor) and the identifier
//! stamped on the probe entry, read back after commit through a fresh read transaction.
//!
//!   kv-txn c07 --out F [--behaviours B.ndjson] [--random N --len L] [--replay R.ndjson] [--db DIR]
//!
//! Behaviour file: one JSON object per line {"b":["b0.1","c","r0.2","q0.0","a",...]} where
//! bS.N = begin at model time (S,N), c = commit, a = abort, rS.N = restart with initialise_helper,
//! qS.N = bare restart. Model second S of behaviour j maps to real second T0 + base_j + S.
use kanidmd_lib::prelude::*;
use kanidmd_lib::verif::txn as kvt;
use kvc::srv::*;
use kvc::util::*;
use serde_json::{json, Value as J};
use std::path::PathBuf;
use std::time::Duration;

fn ts_json(d: Duration) -> J {
    json!({"s": d.as_secs() as i64 - T0 as i64, "n": d.subsec_nanos()})
}
fn mk(s: u64, n: u32) -> Duration {
    Duration::new(T0 + s, n)
}

#[derive(Clone, Debug)]
enum Act {
    Begin(Duration),
    Commit,
    Abort,
    Restart(Duration, bool), // (now, with initialise_helper)
}

struct World {
    path: PathBuf,
    qs: Option<QueryServer>,
    probe: Uuid,
    seq: u64,
}

impl World {
    async fn open(&mut self, now: Duration, init: bool) {
        self.qs = None; // drop the old server first: closes every SQLite connection
        self.qs = Some(open_qs_file(&self.path, 2, now, init).await);
    }
    fn qs(&self) -> &QueryServer {
        self.qs.as_ref().expect("server")
    }
    /// identifier stamped on the probe attribute, via a fresh read transaction
    async fn stamped(&self) -> Option<(Duration, String)> {
        let mut r = self.qs().read().await.expect("read txn");
        let e = r.internal_search_uuid(self.probe).ok()?;
        match e.get_changestate().current() {
            State::Live { changes, .. } => changes
                .get(&Attribute::Description)
                .map(|c| (c.ts, c.s_uuid.to_string())),
            State::Tombstone { .. } => None,
        }
    }
}

/// Runs one history. `acts` must be well formed (commit/abort only while open, begin/restart only
/// while closed) - ill-formed steps are skipped and logged as res "skipped".
async fn run_history(w: &mut World, tr: &mut Tracer, hid: u64, acts: &[Act]) {
    let mut i = 0usize;
    while i < acts.len() {
        match &acts[i] {
            Act::Begin(now) => {
                // the transaction lives until the following Commit/Abort action (or the end)
                let qs = w.qs().clone();
                let mut wr = qs.write(*now).await.expect("write txn");
                let cid = kvt::txn_cid(&wr);
                let d = kvt::write_ts_max(&mut wr, Duration::ZERO).expect("ts_max");
                w.seq += 1;
                let val = format!("t{}", w.seq);
                let res = wr.internal_modify_uuid(
                    w.probe,
                    &ModifyList::new_purge_and_set(Attribute::Description, Value::new_utf8(val.clone())),
                );
                tr.emit(&json!({"a":"begin","h":hid,"now":ts_json(*now),"c":ts_json(cid.ts),
                    "srv":cid.s_uuid.to_string(),"d":ts_json(d),"w":val,
                    "res": if res.is_ok() {"ok"} else {"err"}}));
                i += 1;
                match acts.get(i) {
                    Some(Act::Commit) => {
                        let r = wr.commit();
                        let st = w.stamped().await;
                        let (c, srv) = st.unwrap_or((Duration::from_secs(T0), "none".into()));
                        tr.emit(&json!({"a":"commit","h":hid,"res": if r.is_ok() {"ok"} else {"err"},
                            "c":ts_json(c),"srv":srv}));
                        i += 1;
                    }
                    Some(Act::Abort) => {
                        drop(wr);
                        let st = w.stamped().await;
                        let (c, srv) = st.unwrap_or((Duration::from_secs(T0), "none".into()));
                        tr.emit(&json!({"a":"abort","h":hid,"res":"ok","c":ts_json(c),"srv":srv}));
                        i += 1;
                    }
                    _ => {
                        // behaviour ends (or continues) with the transaction open: abandon it silently
                        drop(wr);
                        let st = w.stamped().await;
                        let (c, srv) = st.unwrap_or((Duration::from_secs(T0), "none".into()));
                        tr.emit(&json!({"a":"abort","h":hid,"res":"ok","c":ts_json(c),"srv":srv,"implicit":1}));
                    }
                }
            }
            Act::Restart(now, init) => {
                w.open(*now, *init).await;
                tr.emit(&json!({"a":"restart","h":hid,"now":ts_json(*now),
                    "kind": if *init {"init"} else {"bare"},"res":"ok"}));
                i += 1;
            }
            Act::Commit | Act::Abort => {
                tr.emit(&json!({"a":"skip","h":hid,"res":"skipped"}));
                i += 1;
            }
        }
    }
}

fn parse_code(code: &str, base: u64) -> Option<Act> {
    let (k, rest) = code.split_at(1);
    let tm = |rest: &str| -> Option<Duration> {
        let (s, n) = rest.split_once('.')?;
        Some(mk(base + s.parse::<u64>().ok()?, n.parse::<u32>().ok()?))
    };
    match k {
        "b" => Some(Act::Begin(tm(rest)?)),
        "c" => Some(Act::Commit),
        "a" => Some(Act::Abort),
        "r" => Some(Act::Restart(tm(rest)?, true)),
        "q" => Some(Act::Restart(tm(rest)?, false)),
        _ => None,
    }
}

/// One random history: the clock walks forward, repeats, regresses by nanoseconds or seconds,
/// sits just below a second boundary (so +1ns carries), and jumps.
fn random_history(rng: &mut Rng, base: u64, len: u64) -> Vec<Act> {
    let mut acts = Vec::new();
    let mut open = false;
    let mut last = mk(base + 5, 0);
    let pick_now = |rng: &mut Rng, last: Duration| -> Duration {
        let l = last;
        match rng.below(10) {
            0 | 1 => l,                                                      // repeat
            2 => l.checked_sub(Duration::from_nanos(rng.range(1, 3))).unwrap_or(l),   // hair back
            3 => l.checked_sub(Duration::from_secs(rng.range(1, 4))).unwrap_or(l),    // seconds back
            4 => l + Duration::from_nanos(rng.range(1, 3)),                  // hair forward
            5 => Duration::new(l.as_secs(), 999_999_997 + rng.below(3) as u32), // just below the carry
            6 => Duration::new(l.as_secs() + 1, 0),
            7 => l + Duration::from_millis(rng.range(1, 900)),
            8 => Duration::new(l.as_secs().saturating_sub(rng.range(0, 2)), rng.below(4) as u32),
            _ => l + Duration::from_secs(rng.range(1, 3)),
        }
    };
    for _ in 0..len {
        if open {
            acts.push(if rng.chance(2, 3) { Act::Commit } else { Act::Abort });
            open = false;
        } else {
            let now = pick_now(rng, last);
            // keep every clock value inside this history's window [base, base+40)
            let now = if now.as_secs() < T0 + base || now.as_secs() >= T0 + base + 40 { last } else { now };
            last = now;
            match rng.below(30) {
                0 => acts.push(Act::Restart(now, true)),
                1 | 2 | 3 => acts.push(Act::Restart(now, false)),
                _ => {
                    acts.push(Act::Begin(now));
                    open = true;
                }
            }
        }
    }
    acts
}

pub fn run(o: &Opts) -> i32 {
    let out = o.str("out", "/verif/work/C07/obs.ndjson");
    let dbdir = PathBuf::from(o.str("db", "/verif/work/C07/db"));
    let _ = std::fs::remove_dir_all(&dbdir);
    std::fs::create_dir_all(&dbdir).expect("db dir");
    let mut tr = Tracer::create(&out);
    let rt = runtime();
    let mut histories: Vec<(String, Vec<String>)> = Vec::new(); // (origin, codes) for model behaviours
    if let Some(bf) = o.get("behaviours") {
        for r in read_ndjson(bf) {
            let codes: Vec<String> = r["b"].as_array().map(|a| a.iter().filter_map(|x| x.as_str().map(String::from)).collect()).unwrap_or_default();
            histories.push(("model".into(), codes));
        }
    }
    // a replay file holds observed lines: rebuild the action sequence of each history from them
    let mut replay_acts: Vec<(u64, Vec<Act>)> = Vec::new();
    if let Some(rp) = o.get("replay") {
        let mut cur: Vec<Act> = Vec::new();
        let mut cur_base: u64 = 2;
        let tsd = |v: &J| Duration::new((T0 as i64 + v["s"].as_i64().unwrap_or(0)) as u64, v["n"].as_u64().unwrap_or(0) as u32);
        for r in read_ndjson(rp) {
            match r["a"].as_str().unwrap_or("") {
                "reset" => {
                    if !cur.is_empty() { replay_acts.push((cur_base, std::mem::take(&mut cur))); }
                    cur_base = r["base"].as_u64().unwrap_or(2);
                }
                "begin" => cur.push(Act::Begin(tsd(&r["now"]))),
                "commit" => cur.push(Act::Commit),
                "abort" => { if r.get("implicit").is_none() { cur.push(Act::Abort) } }
                "restart" => cur.push(Act::Restart(tsd(&r["now"]), r["kind"] == "init")),
                _ => {}
            }
        }
        if !cur.is_empty() { replay_acts.push((cur_base, cur)); }
    }
    let nrandom = o.u64("random", 0);
    let rlen = o.u64("len", 40);
    let seed = o.seed();
    let t_start = std::time::Instant::now();
    let mut restarts = 0u64;
    rt.block_on(async {
        let mut w = World { path: dbdir.join("kanidm.db"), qs: None, probe: uuid_e(7), seq: 0 };
        // Replayed histories carry absolute times: they need a server younger than their first clock
        // value, exactly as in the run that recorded them (fresh database initialised at T0).
        w.open(t(0), true).await;
        {
            let mut wr = w.qs().write(mk(1, 0)).await.expect("write");
            wr.internal_create(vec![kanidmd_lib::entry_init!(
                (Attribute::Class, EntryClass::Object.to_value()),
                (Attribute::Class, EntryClass::ExtensibleObject.to_value()),
                (Attribute::Uuid, Value::Uuid(w.probe)),
                (Attribute::Description, Value::new_utf8s("t0"))
            )])
            .expect("create probe");
            wr.commit().expect("commit probe");
        }
        // Every history j runs in its own window of real seconds [base_j, base_j + 40) so that the
        // whole file is ONE history of one server and model second 0 is later than everything before.
        let mut base: u64 = 2;
        let mut hid = 0u64;
        macro_rules! start_history {
            ($origin:expr, $b:expr) => {{
                hid += 1;
                // sync transaction: brings mem = disk = maxc to exactly ($b, 0) = the model's Init
                w.seq += 1;
                let cid = {
                    let qs = w.qs().clone();
                    let mut wr = qs.write(mk($b, 0)).await.expect("write");
                    let cid = kvt::txn_cid(&wr);
                    wr.internal_modify_uuid(w.probe, &ModifyList::new_purge_and_set(Attribute::Description, Value::new_utf8(format!("t{}", w.seq)))).expect("sync modify");
                    wr.commit().expect("sync commit");
                    cid
                };
                let st = w.stamped().await.expect("probe");
                tr.emit(&json!({"a":"reset","h":hid,"origin":$origin,"base":$b,"c":ts_json(st.0),"srv":st.1,
                    "tc":ts_json(cid.ts)}));
            }};
        }
        for (b, acts) in &replay_acts {
            // replayed lines carry absolute times: re-create the history in its ORIGINAL window
            base = std::cmp::max(base, *b);
            start_history!("replay", base);
            run_history(&mut w, &mut tr, hid, acts).await;
            restarts += acts.iter().filter(|a| matches!(a, Act::Restart(..))).count() as u64;
            base += 41;
        }
        for (origin, codes) in &histories {
            start_history!(origin.as_str(), base);
            let acts: Vec<Act> = codes.iter().filter_map(|c| parse_code(c, base)).collect();
            run_history(&mut w, &mut tr, hid, &acts).await;
            restarts += acts.iter().filter(|a| matches!(a, Act::Restart(..))).count() as u64;
            base += 2; // model behaviours use one second (no carry is reachable within Depth bumps)
        }
        let mut rng = Rng::new(seed);
        for _ in 0..nrandom {
            start_history!("random", base);
            let acts = random_history(&mut rng, base, rlen);
            run_history(&mut w, &mut tr, hid, &acts).await;
            restarts += acts.iter().filter(|a| matches!(a, Act::Restart(..))).count() as u64;
            base += 41;
        }
        w.qs = None;
    });
    let n = tr.finish();
    let _ = std::fs::remove_dir_all(&dbdir);
    println!("OBSERVED lines={n} restarts={restarts} wall_ms={} out={out}", t_start.elapsed().as_millis());
    0
}
