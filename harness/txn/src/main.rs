//! Group driver: runs the REAL kanidm code and records observed traces (ndjson) which TLC
//! validates against the TLA+ specifications in /verif/spec. See /verif/DESIGN.md.
use kvc::util::Opts;
mod c04;
mod c05;
mod c06;
mod c07;
mod world;

fn main() {
    let args: Vec<String> = std::env::args().collect();
    if args.len() < 2 {
        eprintln!("usage: {} <subcommand> [--key value ...]", args[0]);
        std::process::exit(2);
    }
    let opts = Opts::parse(&args[2..]);
    let rc = match args[1].as_str() {
        "c04" => c04::run(&opts),
        "c05" => c05::run(&opts),
        "c06" => c06::run(&opts),
        "order" => c06::order(&opts),
        "crash-child" => c05::child(&opts),
        "c07" => c07::run(&opts),
        other => {
            eprintln!("unknown subcommand {other}");
            2
        }
    };
    std::process::exit(rc);
}
