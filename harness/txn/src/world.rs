//! Shared by c04 / c05 / c06: a file-backed server with an IdmServer on top, a small fixed
//! population, the representative write transactions ("kinds") and the projection `observe`
//! of everything a reader can see of them.
use kanidmd_lib::idm::server::{IdmServer, IdmServerAudit, IdmServerDelayed};
use kanidmd_lib::prelude::*;
use kanidmd_lib::schema::SchemaTransaction;
use kvc::srv::*;
use serde_json::{json, Map, Value as J};
use std::collections::BTreeSet;
use std::path::{Path, PathBuf};
use std::str::FromStr;
use std::sync::Arc;
use std::time::Duration;

pub struct Srv {
    pub qs: QueryServer,
    pub idms: Arc<IdmServer>,
    _d: IdmServerDelayed,
    _a: IdmServerAudit,
}

// fixed uuids (model range e<n>)
pub const G1: u64 = 1; // group c4g1 (ACP receiver, oauth2 scope map)
pub const U1: u64 = 2; // person c4u1, member of g1
pub const E1: u64 = 3; // group c4e1 (modify target)
pub const E2: u64 = 4; // group c4e2 (delete target)
pub const E3: u64 = 5; // extensible object (ACP target: invisible to u1 by default)
pub const E6: u64 = 6; // group c4e6, deleted in the template (recycled): target of kind "reap"
pub const NEW: u64 = 10; // created by kind "create"
pub const ATTR: u64 = 20; // attributetype c4attr
pub const ACP: u64 = 21; // access control profile c4acp
pub const OA: u64 = 22; // oauth2 client c4client
pub const DNAME_NEW: &str = "C4 Domain";

/// Domain level a transaction kind runs at. Since domain level 1.11 the schema is compiled in and
/// attribute-type entries no longer change it, so the "schema" kind runs on a server kept at the
/// last level whose schema is entry-driven (as the repository's own test_dynamic_schema_attr does).
pub fn level_of(kind: &str) -> DomainVersion {
    if kind == "schema" || kind == "schemaidx" || kind == "c6" || kind == "none14" {
        DOMAIN_LEVEL_14
    } else {
        DOMAIN_TGT_LEVEL
    }
}

/// kvc::srv::open_qs_file with an explicit domain level.
pub async fn open_qs_level(path: &Path, pool: u32, at: Duration, init: bool, level: DomainVersion) -> QueryServer {
    use kanidmd_lib::be::{Backend, BackendConfig};
    use kanidmd_lib::schema::Schema;
    sketching::test_init();
    let schema_outer = Schema::new().expect("schema");
    let idxmeta = {
        let schema_txn = schema_outer.write();
        schema_txn.reload_idxmeta()
    };
    let cfg = BackendConfig::new(Some(path), pool, kanidm_proto::internal::FsType::Generic, Some(2048));
    let be = Backend::new(cfg, idxmeta, false).expect("backend");
    let qs = QueryServer::new(be, schema_outer, "example.com".to_string(), at).expect("qs");
    if init {
        qs.initialise_helper(at, level).await.expect("init");
    }
    qs
}

pub async fn open(path: &Path, pool: u32, at: Duration, init: bool) -> Srv {
    open_level(path, pool, at, init, DOMAIN_TGT_LEVEL).await
}

pub async fn open_level(path: &Path, pool: u32, at: Duration, init: bool, level: DomainVersion) -> Srv {
    let qs = open_qs_level(path, pool, at, init, level).await;
    let (idms, d, a) = IdmServer::new(
        qs.clone(),
        &Url::from_str("https://idm.example.com").expect("url"),
        true,
        at,
    )
    .await
    .expect("idms");
    Srv { qs, idms: Arc::new(idms), _d: d, _a: a }
}

/// Bare reopen (QueryServer::new only): enough to read what is ON DISK through uuid lookups.
pub async fn open_bare(path: &Path, at: Duration) -> QueryServer {
    open_qs_file(path, 2, at, false).await
}

pub fn copy_db(from: &Path, to: &Path) {
    for suf in ["", "-wal", "-shm"] {
        let f = PathBuf::from(format!("{}{}", from.display(), suf));
        let t = PathBuf::from(format!("{}{}", to.display(), suf));
        let _ = std::fs::remove_file(&t);
        if f.exists() {
            std::fs::copy(&f, &t).expect("copy db");
        }
    }
}

/// Template database: initialised server + population, closed cleanly.
pub async fn make_template(path: &Path, level: DomainVersion) {
    let s = open_level(path, 4, t(0), true, level).await;
    let mut w = s.idms.proxy_write(t(1)).await.expect("write");
    w.qs_write
        .internal_create(vec![
            kanidmd_lib::entry_init!(
                (Attribute::Class, EntryClass::Object.to_value()),
                (Attribute::Class, EntryClass::Group.to_value()),
                (Attribute::Name, Value::new_iname("c4g1")),
                (Attribute::Uuid, Value::Uuid(uuid_e(G1))),
                (Attribute::Member, Value::Refer(uuid_e(U1))),
                (Attribute::Member, Value::Refer(uuid_e(E2)))
            ),
            kanidmd_lib::entry_init!(
                (Attribute::Class, EntryClass::Object.to_value()),
                (Attribute::Class, EntryClass::Account.to_value()),
                (Attribute::Class, EntryClass::Person.to_value()),
                (Attribute::Name, Value::new_iname("c4u1")),
                (Attribute::DisplayName, Value::new_utf8s("c4u1")),
                (Attribute::Uuid, Value::Uuid(uuid_e(U1)))
            ),
            kanidmd_lib::entry_init!(
                (Attribute::Class, EntryClass::Object.to_value()),
                (Attribute::Class, EntryClass::Group.to_value()),
                (Attribute::Name, Value::new_iname("c4e1")),
                (Attribute::Description, Value::new_utf8s("d0")),
                (Attribute::Uuid, Value::Uuid(uuid_e(E1)))
            ),
            kanidmd_lib::entry_init!(
                (Attribute::Class, EntryClass::Object.to_value()),
                (Attribute::Class, EntryClass::Group.to_value()),
                (Attribute::Name, Value::new_iname("c4e2")),
                (Attribute::Description, Value::new_utf8s("d0")),
                (Attribute::Uuid, Value::Uuid(uuid_e(E2)))
            ),
            kanidmd_lib::entry_init!(
                (Attribute::Class, EntryClass::Object.to_value()),
                (Attribute::Class, EntryClass::ExtensibleObject.to_value()),
                (Attribute::Description, Value::new_utf8s("secret")),
                (Attribute::Uuid, Value::Uuid(uuid_e(E3)))
            ),
        ])
        .expect("population");
    w.commit().expect("commit population");
    // one recycled entry for the reap transaction
    let mut w = s.idms.proxy_write(t(2)).await.expect("write");
    w.qs_write
        .internal_create(vec![kanidmd_lib::entry_init!(
            (Attribute::Class, EntryClass::Object.to_value()),
            (Attribute::Class, EntryClass::Group.to_value()),
            (Attribute::Name, Value::new_iname("c4e6")),
            (Attribute::Uuid, Value::Uuid(uuid_e(E6)))
        )])
        .expect("e6");
    w.commit().expect("commit e6");
    let mut w = s.idms.proxy_write(t(3)).await.expect("write");
    w.qs_write.internal_delete_uuid(uuid_e(E6)).expect("recycle e6");
    w.commit().expect("commit recycle");
}

/// Simulated time at which a kind's transaction runs (reap needs the recycle window to have passed).
pub fn txn_time(kind: &str, base: u64) -> Duration {
    if kind == "reap" {
        t(base + RECYCLEBIN_MAX_AGE + 10)
    } else {
        t(base)
    }
}

pub const KINDS: [&str; 7] = ["create", "modify", "delete", "schema", "acp", "oauth2", "domain"];

/// The operations of one transaction kind, as closures applied in order ("all" = every kind in
/// one transaction, used for abandon-at-every-boundary).
pub fn ops_of(kind: &str) -> Vec<&'static str> {
    match kind {
        "create" => vec!["create"],
        "modify" => vec!["modify"],
        "delete" => vec!["delete"],
        "schema" => vec!["schema"],
        "schemaidx" => vec!["schemaidx"],
        "acp" => vec!["acp"],
        "oauth2" => vec!["oauth2"],
        "domain" => vec!["domain"],
        "reap" => vec!["reap"],
        "reindex" => vec!["reindex"],
        // C06 writer: two related entries + schema + access profile + OAuth2 client + domain setting
        // (the configuration change comes FIRST and further modifies follow it in the same transaction)
        "c6" => vec!["domain", "modify", "modifyb", "schema", "acp", "oauth2"],
        // follow-up transaction of the C04 driver: one small successful write after the failed one
        "follow" => vec!["follow"],
        "all" => vec!["create", "modify", "delete", "schema", "acp", "oauth2", "domain"],
        "badop" => vec!["create", "dup"],
        _ => vec![],
    }
}

pub fn apply_op(w: &mut QueryServerWriteTransaction<'_>, op: &str) -> Result<(), OperationError> {
    match op {
        "create" => w.internal_create(vec![kanidmd_lib::entry_init!(
            (Attribute::Class, EntryClass::Object.to_value()),
            (Attribute::Class, EntryClass::Group.to_value()),
            (Attribute::Name, Value::new_iname("c4new")),
            (Attribute::Description, Value::new_utf8s("new")),
            (Attribute::Uuid, Value::Uuid(uuid_e(NEW)))
        )]),
        // creating the same entry twice: the second operation fails
        "dup" => w.internal_create(vec![kanidmd_lib::entry_init!(
            (Attribute::Class, EntryClass::Object.to_value()),
            (Attribute::Class, EntryClass::Group.to_value()),
            (Attribute::Name, Value::new_iname("c4new")),
            (Attribute::Uuid, Value::Uuid(uuid_e(NEW)))
        )]),
        "modify" => w.internal_modify_uuid(
            uuid_e(E1),
            &ModifyList::new_list(vec![
                Modify::Purged(Attribute::Name),
                Modify::Present(Attribute::Name, Value::new_iname("c4e1x")),
                Modify::Purged(Attribute::Description),
                Modify::Present(Attribute::Description, Value::new_utf8s("d1")),
            ]),
        ),
        "modifyb" => w.internal_modify_uuid(
            uuid_e(E2),
            &ModifyList::new_purge_and_set(Attribute::Description, Value::new_utf8s("d1")),
        ),
        "follow" => w.internal_modify_uuid(
            uuid_e(G1),
            &ModifyList::new_purge_and_set(Attribute::Description, Value::new_utf8s("follow")),
        ),
        "delete" => w.internal_delete_uuid(uuid_e(E2)),
        // recycled -> tombstone for everything older than the recycle window
        "reap" => w.purge_recycled().map(|_| ()),
        // purge every index table and rebuild all of them inside this transaction
        "reindex" => w.reindex(false),
        "schema" | "schemaidx" => w.internal_create(vec![kanidmd_lib::entry_init!(
            (Attribute::Class, EntryClass::Object.to_value()),
            (Attribute::Class, EntryClass::AttributeType.to_value()),
            (Attribute::Uuid, Value::Uuid(uuid_e(ATTR))),
            (Attribute::AttributeName, Value::new_iutf8("c4attr")),
            (Attribute::Description, Value::new_utf8s("c4 attribute")),
            (Attribute::MultiValue, Value::new_bool(false)),
            (Attribute::Unique, Value::new_bool(false)),
            (Attribute::Indexed, Value::new_bool(op == "schemaidx")),
            (Attribute::Syntax, Value::new_syntaxs("UTF8STRING").expect("syntax"))
        )]),
        "acp" => w.internal_create(vec![kanidmd_lib::entry_init!(
            (Attribute::Class, EntryClass::Object.to_value()),
            (Attribute::Class, EntryClass::AccessControlProfile.to_value()),
            (Attribute::Class, EntryClass::AccessControlTargetScope.to_value()),
            (Attribute::Class, EntryClass::AccessControlReceiverGroup.to_value()),
            (Attribute::Class, EntryClass::AccessControlSearch.to_value()),
            (Attribute::Name, Value::new_iname("c4acp")),
            (Attribute::Uuid, Value::Uuid(uuid_e(ACP))),
            (Attribute::AcpReceiverGroup, Value::Refer(uuid_e(G1))),
            (
                Attribute::AcpTargetScope,
                Value::new_json_filter_s(&format!("{{\"eq\":[\"uuid\",\"{}\"]}}", uuid_e(E3))).expect("filter")
            ),
            (Attribute::AcpSearchAttr, Value::from(Attribute::Uuid)),
            (Attribute::AcpSearchAttr, Value::from(Attribute::Class)),
            (Attribute::AcpSearchAttr, Value::from(Attribute::Description))
        )]),
        "oauth2" => w.internal_create(vec![kanidmd_lib::entry_init!(
            (Attribute::Class, EntryClass::Object.to_value()),
            (Attribute::Class, EntryClass::Account.to_value()),
            (Attribute::Class, EntryClass::OAuth2ResourceServer.to_value()),
            (Attribute::Class, EntryClass::OAuth2ResourceServerBasic.to_value()),
            (Attribute::Uuid, Value::Uuid(uuid_e(OA))),
            (Attribute::Name, Value::new_iname("c4client")),
            (Attribute::DisplayName, Value::new_utf8s("c4client")),
            (Attribute::OAuth2RsOriginLanding, Value::new_url_s("https://demo.example.com").expect("url")),
            (
                Attribute::OAuth2RsScopeMap,
                Value::new_oauthscopemap(uuid_e(G1), BTreeSet::from(["openid".to_string()])).expect("scopemap")
            )
        )]),
        "domain" => w.internal_modify_uuid(
            UUID_DOMAIN_INFO,
            &ModifyList::new_purge_and_set(Attribute::DomainDisplayName, Value::new_utf8s(DNAME_NEW)),
        ),
        _ => Err(OperationError::InvalidState),
    }
}

fn yn(b: bool) -> &'static str {
    if b {
        "y"
    } else {
        "n"
    }
}

/// What is ON DISK, by uuid lookups and an unindexed scan (works on a bare server too).
/// ent  : "<name>/<liveness>/<description>" of every model-range data entry
/// sche/acpe/oae : the configuration entry exists; dne: display name stored in the domain entry
pub fn observe_disk<'a, T: QueryServerTransaction<'a>>(r: &mut T) -> Map<String, J> {
    let mut m = Map::new();
    let mut ent: Vec<String> = Vec::new();
    for e in search_model(r) {
        let n = e.get_uuid().as_u128() as u64 & 0xffff;
        if n >= ATTR {
            continue;
        }
        ent.push(format!(
            "e{}/{}/{}/{}",
            n,
            ava_strings(&e, Attribute::Name).join("+"),
            liveness(&e),
            ava_strings(&e, Attribute::Description).join("+")
        ));
    }
    m.insert("ent".into(), json!(ent.join(" ")));
    let live = |r: &mut T, n: u64| -> bool { r.internal_search_uuid(uuid_e(n)).is_ok() };
    m.insert("sche".into(), json!(yn(live(r, ATTR))));
    m.insert("acpe".into(), json!(yn(live(r, ACP))));
    m.insert("oae".into(), json!(yn(live(r, OA))));
    let dne = r
        .internal_search_uuid(UUID_DOMAIN_INFO)
        .ok()
        .map(|e| ava_strings(&e, Attribute::DomainDisplayName).join("+"))
        .unwrap_or_else(|| "?".into());
    m.insert("dne".into(), json!(dne));
    m
}

/// Everything a reader sees on a LIVE server: the disk part plus index-driven lookups and the
/// server-wide settings held in memory (schema, access controls, domain info, OAuth2 clients).
pub async fn observe(s: &Srv) -> J {
    let mut pr = s.idms.proxy_read().await.expect("proxy_read");
    let oa = pr.oauth2_openid_discovery("c4client").is_ok();
    let r = &mut pr.qs_read;
    let mut m = observe_disk(r);
    // name -> uuid table and equality index
    let mut n2u = Vec::new();
    for n in ["c4new", "c4e1", "c4e1x", "c4e2"] {
        let a = r.name_to_uuid(n).is_ok();
        let f = kanidmd_lib::filter!(f_eq(Attribute::Name, PartialValue::new_iname(n)));
        let b = r.internal_search(f).map(|v| v.len()).unwrap_or(99);
        n2u.push(format!("{n}:{}{}", yn(a), b));
    }
    m.insert("idx".into(), json!(n2u.join(" ")));
    // schema in memory
    let sch = r.get_schema().get_attributes().contains_key(&Attribute::from("c4attr"));
    if std::env::var("KV_DEBUG").is_ok() {
        let ks: Vec<String> = r.get_schema().get_attributes().keys().map(|k| k.to_string()).filter(|k| k.starts_with('c')).collect();
        eprintln!("schema keys c*: {ks:?}");
    }
    m.insert("sch".into(), json!(yn(sch)));
    // access decision: can u1 see e3 ?
    let acp = match r.internal_search_uuid(uuid_e(U1)) {
        Ok(u1) => {
            let ident = Identity::from_impersonate_entry_readwrite(u1);
            let f = kanidmd_lib::filter!(f_eq(Attribute::Uuid, PartialValue::Uuid(uuid_e(E3))));
            match r.impersonate_search(f.clone(), f, &ident) {
                Ok(v) => yn(!v.is_empty()).to_string(),
                Err(e) => format!("err:{e:?}"),
            }
        }
        Err(_) => "nouser".to_string(),
    };
    m.insert("acp".into(), json!(acp));
    m.insert("dn".into(), json!(r.get_domain_display_name().to_string()));
    m.insert("oa".into(), json!(yn(oa)));
    // the replication update vector and the index metadata this reader holds
    let (rn, rmax) = kanidmd_lib::verif::txn::reader_ruv(r);
    m.insert("ruv".into(), json!(format!("n={} max={}.{}", rn, rmax.as_secs() as i64 - T0 as i64, rmax.subsec_nanos())));
    let (ik, ihas) = kanidmd_lib::verif::txn::reader_idxmeta(r, "c4attr");
    m.insert("ixm".into(), json!(format!("keys={} c4attr={}", ik, yn(ihas))));
    J::Object(m)
}

pub async fn observe_bare(path: &Path, at: Duration) -> J {
    let qs = open_bare(path, at).await;
    let mut r = qs.read().await.expect("read");
    J::Object(observe_disk(&mut r))
}
