//! C04: failed or abandoned write transactions leave no trace.
//! For every transaction kind and every storage point k reachable in it (counted by a dry run of
//! the H2 injector) the k-th point is made to fail; the state is observed before, after through a
//! fresh read transaction on the live server, and on a server reopened on the same file.
//! Also: drop-without-commit at every operation boundary, and a failing operation.
//!
//!   kv-txn c04 --out F --db DIR [--kinds create,schema,...] [--reopen-init] [--replay R]
use crate::world::*;
use kanidmd_lib::verif::txn as kvt;
use kvc::srv::*;
use kvc::util::*;
use serde_json::{json, Value as J};
use std::collections::BTreeSet;
use std::path::{Path, PathBuf};

const T_OPEN: u64 = 10;
const T_TXN: u64 = 20;
const T_REOPEN: u64 = 30;

/// summary of the storage points a transaction passes: "name*count" sorted by name (the flush
/// order inside the name tables follows hash-map iteration and is not stable, the counts are)
pub fn rle(names: &[&'static str]) -> String {
    let mut cnt: std::collections::BTreeMap<&'static str, usize> = Default::default();
    for n in names {
        *cnt.entry(n).or_insert(0) += 1;
    }
    cnt.iter().map(|(n, c)| format!("{n}*{c}")).collect::<Vec<_>>().join(" ")
}

fn disk_part(v: &J) -> J {
    let mut m = serde_json::Map::new();
    for k in ["ent", "sche", "acpe", "oae", "dne"] {
        m.insert(k.into(), v[k].clone());
    }
    J::Object(m)
}

enum Mode {
    Count,
    Fault(u64),
    Abandon(usize),
}

struct Outcome {
    res: &'static str,
    seen: u64,
    seen_ops: u64,
    names: Vec<&'static str>,
    fired: Option<(u64, &'static str)>,
    pre: J,
    live: J,
    live2: J,
    reopen: J,
    reopen_full: Option<J>,
}

async fn run_case(tpl: &Path, work: &Path, kind: &str, mode: Mode, reopen_init: bool) -> Outcome {

    copy_db(tpl, work);
    let level = level_of(kind);
    let s = open_level(work, 4, t(T_OPEN), true, level).await;
    let pre = observe(&s).await;
    let ops = ops_of(kind);
    match mode {
        Mode::Count | Mode::Abandon(_) => kvt::arm_count(),
        Mode::Fault(k) => kvt::arm_fault(k),
    }
    let mut res: &'static str;
    let mut seen_ops = 0;
    {
        match s.idms.proxy_write(t(T_TXN)).await {
            Err(_) => res = "beginerr",
            Ok(mut w) => {
                res = "ok";
                let upto = if let Mode::Abandon(j) = mode { j } else { ops.len() };
                for op in ops.iter().take(upto) {
                    if let Err(e) = apply_op(&mut w.qs_write, op) {
                        if std::env::var("KV_DEBUG").is_ok() {
                            eprintln!("op {op} failed: {e:?}");
                        }
                        res = "operr";
                        break;
                    }
                }
                seen_ops = kvt::seen();
                if res == "ok" {
                    if let Mode::Abandon(_) = mode {
                        drop(w);
                        res = "dropped";
                    } else {
                        res = match catch(|| w.commit()) {
                            Ok(Ok(())) => "ok",
                            Ok(Err(_)) => "commiterr",
                            Err(_) => "panic",
                        };
                    }
                } else {
                    drop(w);
                }
            }
        }
    }
    let (seen, names, fired) = kvt::disarm();
    let live = observe(&s).await;
    // a following SUCCESSFUL transaction: nothing of the failed one may surface with it
    // (only after a transaction that did NOT commit; the reopened database below therefore contains it)
    let live2 = if res != "ok" {
        let mut w = s.idms.proxy_write(t(T_TXN + 1)).await.expect("follow write");
        for op in ops_of("follow") {
            apply_op(&mut w.qs_write, op).expect("follow op");
        }
        w.commit().expect("follow commit");
        observe(&s).await
    } else {
        json!({})
    };
    drop(s);
    let reopen = observe_bare(work, t(T_REOPEN)).await;
    let reopen_full = if reopen_init {
        let s2 = open_level(work, 4, t(T_REOPEN + 1), true, level).await;
        Some(observe(&s2).await)
    } else {
        None
    };
    Outcome { res, seen, seen_ops, names, fired, pre, live, live2, reopen, reopen_full }
}

pub fn run(o: &Opts) -> i32 {
    let out = o.str("out", "/verif/work/C04/obs.ndjson");
    let dbdir = PathBuf::from(o.str("db", "/verif/work/C04/db"));
    let _ = std::fs::remove_dir_all(&dbdir);
    std::fs::create_dir_all(&dbdir).expect("db dir");
    let tpl_tgt = dbdir.join("template.db");
    let tpl_old = dbdir.join("template14.db");
    let work = dbdir.join("case.db");
    let reopen_init = o.flag("reopen-init");
    let mut kinds: Vec<String> = o.str("kinds", "create,schema,oauth2").split(',').map(String::from).collect();
    // replay: only the cases named in the file
    let mut only: Option<BTreeSet<(String, String, u64)>> = None;
    if let Some(rp) = o.get("replay") {
        let mut set = BTreeSet::new();
        let mut ks = BTreeSet::new();
        for r in read_ndjson(rp) {
            let a = r["a"].as_str().unwrap_or("").to_string();
            let kind = r["kind"].as_str().unwrap_or("").to_string();
            if a == "fault" || a == "abandon" || a == "opfail" {
                set.insert((a, kind.clone(), r["k"].as_u64().unwrap_or(0)));
                if KINDS.contains(&kind.as_str()) {
                    ks.insert(kind);
                }
            }
        }
        kinds = ks.into_iter().collect();
        only = Some(set);
    }
    let want = |a: &str, kind: &str, k: u64| -> bool {
        only.as_ref().map(|s| s.contains(&(a.to_string(), kind.to_string(), k))).unwrap_or(true)
    };
    let mut tr = Tracer::create(&out);
    let rt = runtime();
    let t0 = std::time::Instant::now();
    rt.block_on(async {
        make_template(&tpl_tgt, kanidmd_lib::prelude::DOMAIN_TGT_LEVEL).await;
        if kinds.iter().any(|k| level_of(k) != kanidmd_lib::prelude::DOMAIN_TGT_LEVEL) {
            make_template(&tpl_old, level_of("schema")).await;
        }
        // what the follow-up transaction alone leaves (a transaction was begun and dropped before it)
        let follow_tgt = run_case(&tpl_tgt, &work, "none", Mode::Abandon(0), false).await.live2;
        let follow_old = if kinds.iter().any(|k| level_of(k) != kanidmd_lib::prelude::DOMAIN_TGT_LEVEL) {
            run_case(&tpl_old, &work, "none14", Mode::Abandon(0), false).await.live2
        } else {
            json!({})
        };
        for kind in &kinds {
            let post2 = if level_of(kind) == kanidmd_lib::prelude::DOMAIN_TGT_LEVEL { follow_tgt.clone() } else { follow_old.clone() };
            let tpl = if level_of(kind) == kanidmd_lib::prelude::DOMAIN_TGT_LEVEL { tpl_tgt.clone() } else { tpl_old.clone() };
            // reference run: no fault; counts the storage points of this transaction
            let r = run_case(&tpl, &work, kind, Mode::Count, reopen_init).await;
            if r.res != "ok" {
                eprintln!("TOOL-ERROR reference run of kind {kind} did not commit: {}", r.res);
                std::process::exit(2);
            }
            let post = r.live.clone();
            let post_disk = r.reopen.clone();
            tr.emit(&json!({"a":"ref","kind":kind,"k":0,"n":r.seen,"nops":r.seen_ops,"points":rle(&r.names),"point":"none","fired":0,"phase":"commit","res":r.res,
                "pre":r.pre,"live":r.live,"reopen":r.reopen,"post":post,"postd":post_disk,
                "rf": if r.reopen_full.is_some() {1} else {0}, "reopenf": r.reopen_full.clone().unwrap_or(json!({}))}));
            let names = r.names.clone();
            let n = r.seen;
            let stride = o.u64("stride", 0);
            let sampled = stride > 0 && n > o.u64("sample-above", 150);
            let keep = |k: u64| -> bool {
                if !sampled {
                    return true;
                }
                let i = (k - 1) as usize;
                // first and last occurrence of every point name, every stride-th point, the tail
                let first = names.iter().position(|x| *x == names[i]) == Some(i);
                let last = names.iter().rposition(|x| *x == names[i]) == Some(i);
                first || last || k % stride == 0 || k + 3 > n
            };
            for k in 1..=r.seen {
                if !want("fault", kind, k) || (only.is_none() && !keep(k)) {
                    continue;
                }
                let c = run_case(&tpl, &work, kind, Mode::Fault(k), reopen_init).await;
                let (fk, fname) = c.fired.unwrap_or((0, "none"));
                tr.emit(&json!({"a":"fault","kind":kind,"k":k,"point":fname,"fired": if fk > 0 {1} else {0},
                    "phase": if k <= c.seen_ops && c.res == "operr" {"op"} else if c.res == "beginerr" {"begin"} else {"commit"},
                    "res":c.res,"pre":c.pre,"live":c.live,"live2":c.live2,"post2":post2,"reopen":c.reopen,"post":post,"postd":post_disk,
                    "rf": if c.reopen_full.is_some() {1} else {0}, "reopenf": c.reopen_full.clone().unwrap_or(json!({}))}));
            }
        }
        // abandon at every operation boundary of the transaction that does everything
        if only.is_none() || only.as_ref().map(|s| s.iter().any(|x| x.0 == "abandon")).unwrap_or(false) {
            let nops = ops_of("all").len();
            for j in 0..=nops {
                if !want("abandon", "all", j as u64) {
                    continue;
                }
                let c = run_case(&tpl_tgt, &work, "all", Mode::Abandon(j), reopen_init).await;
                tr.emit(&json!({"a":"abandon","kind":"all","k":j,"point":"none","fired":0,"phase":"op","res":c.res,
                    "pre":c.pre,"live":c.live,"live2":c.live2,"post2":follow_tgt.clone(),"reopen":c.reopen,"post":c.pre,"postd":disk_part(&c.pre),
                    "rf": if c.reopen_full.is_some() {1} else {0}, "reopenf": c.reopen_full.clone().unwrap_or(json!({}))}));
            }
        }
        // an operation that fails (duplicate create) after one that succeeded
        if want("opfail", "badop", 0) {
            let c = run_case(&tpl_tgt, &work, "badop", Mode::Count, reopen_init).await;
            tr.emit(&json!({"a":"opfail","kind":"badop","k":0,"point":"none","fired":0,"phase":"op","res":c.res,
                "pre":c.pre,"live":c.live,"live2":c.live2,"post2":follow_tgt.clone(),"reopen":c.reopen,"post":c.pre,"postd":disk_part(&c.pre),
                "rf": if c.reopen_full.is_some() {1} else {0}, "reopenf": c.reopen_full.clone().unwrap_or(json!({}))}));
        }
    });
    let n = tr.finish();
    let _ = std::fs::remove_dir_all(&dbdir);
    println!("OBSERVED lines={n} wall_ms={} out={out}", t0.elapsed().as_millis());
    0
}
