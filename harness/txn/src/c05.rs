//! C05: a crash at any point recovers to the before or after state.
//! Parent (`kv-txn c05`): prepares a file-backed database, and for every storage / crash point k of
//! a representative transaction forks `kv-txn crash-child`, which arms the H2 injector in crash mode
//! (std::process::abort() at point k) and runs the transaction; the parent then reopens the file and
//! logs what it finds: full projection of the stored state, the server's own verify(), and the
//! change identifier of a probe write made with a REGRESSED clock.
//!
//!   kv-txn c05 --out F --db DIR [--kinds create,delete,...] [--stride N] [--replay R]
//!   kv-txn crash-child --file PATH --kind K --k N
use crate::world::*;
use kanidmd_lib::prelude::*;
use kanidmd_lib::verif::txn as kvt;
use kvc::srv::*;
use kvc::util::*;
use serde_json::{json, Value as J};
use std::collections::BTreeSet;
use std::path::{Path, PathBuf};
use std::time::Duration;

const T_OPEN: u64 = 10;
const T_TXN: u64 = 20;
const T_RECOVER: u64 = 5; // the clock has gone BACK when the server restarts

fn ts_json(d: Duration) -> J {
    json!({"s": d.as_secs() as i64 - T0 as i64, "n": d.subsec_nanos()})
}

/// Child: open (as kanidmd does), arm the crash, run the transaction. Never returns normally when the
/// k-th point is reached.
pub fn child(o: &Opts) -> i32 {
    let file = PathBuf::from(o.str("file", ""));
    let kind = o.str("kind", "create");
    let k = o.u64("k", 0);
    let rt = runtime();
    rt.block_on(async {
        let s = open_level(&file, 4, t(T_OPEN), true, level_of(&kind)).await;
        if k > 0 {
            kvt::arm_crash(k);
        } else {
            kvt::arm_count();
        }
        let mut w = s.idms.proxy_write(txn_time(&kind, T_TXN)).await.expect("write");
        for op in ops_of(&kind) {
            apply_op(&mut w.qs_write, op).expect("op");
        }
        w.commit().expect("commit");
        let (seen, names, _) = kvt::disarm();
        println!("NOCRASH seen={seen} seq={} points={}", names.join(","), crate::c04::rle(&names));
    });
    0
}

/// Projection of everything stored (bare reopen): model-range entries with every attribute and
/// change identifier, total number of entries, persisted ts_max, lookup-table answers.
async fn stored(file: &Path) -> J {
    let qs = open_qs_level(file, 2, t(T_RECOVER), false, DOMAIN_TGT_LEVEL).await;
    let tsmax = {
        let mut w = qs.write(t(T_RECOVER)).await.expect("write");
        kvt::write_ts_max(&mut w, Duration::ZERO).expect("ts_max")
    };
    let mut r = qs.read().await.expect("read");
    let all = search_all(&mut r);
    let mut ent: Vec<String> = Vec::new();
    for e in search_model(&mut r) {
        let d = dump_entry(&e);
        let cids = d["cids"].as_object().map(|m| {
            m.iter().map(|(a, c)| format!("{a}@{}.{}", c["s"].as_u64().unwrap_or(0) as i64 - T0 as i64, c["n"])).collect::<Vec<_>>().join(",")
        }).unwrap_or_else(|| "tombstone".into());
        let attrs = d["attrs"].as_object().map(|m| {
            m.iter().filter(|(a, _)| *a != "last_modified_cid" && *a != "created_at_cid")
                .map(|(a, v)| {
                    let mut vals: Vec<String> = v.as_array().map(|x| x.iter().filter_map(|y| y.as_str().map(String::from)).collect()).unwrap_or_default();
                    if a == "key_internal_data" {
                        // key ids are random (generated when the key object is created): keep status and type only
                        vals = vals.iter().map(|s| s.split_once(": ").map(|p| p.1.to_string()).unwrap_or_else(|| s.clone())).collect();
                        vals.sort();
                    }
                    format!("{a}={}", vals.join("+"))
                })
                .collect::<Vec<_>>().join(";")
        }).unwrap_or_default();
        ent.push(format!("{}[{}]{{{}}}<{}>", d["id"].as_str().unwrap_or("?"), d["live"].as_str().unwrap_or("?"), attrs, cids));
    }
    let mut n2u = Vec::new();
    for n in ["c4new", "c4e1", "c4e1x", "c4e2", "c4g1"] {
        n2u.push(format!("{n}:{}", if r.name_to_uuid(n).is_ok() { "y" } else { "n" }));
    }
    // index state: which index / lookup tables exist and how much they hold (a dropped, empty or
    // half-rebuilt table changes these; exact keys are left out because a few are random per run)
    let (idxt, idxc) = match kvt::index_tables(&mut r) {
        Ok(t) => {
            let keys: usize = t.iter().map(|x| x.1).sum();
            let ids: usize = t.iter().map(|x| x.2).sum();
            let mut h: u64 = 0xcbf29ce484222325;
            for (n, k, i) in &t {
                for b in format!("{n}:{k}:{i};").bytes() {
                    h = (h ^ b as u64).wrapping_mul(0x100000001b3);
                }
            }
            (format!("tables={}", t.len()), format!("keys={keys} ids={ids} h={:08x}", (h >> 32) as u32 ^ h as u32))
        }
        Err(e) => (format!("err:{e:?}"), "err".to_string()),
    };
    // the backend's own check on the file as it is (before any start-up repair): verify_indexes etc.
    let mut bev = kvt::be_verify(&mut r);
    bev.sort();
    bev.dedup();
    let bev = if bev.is_empty() { "clean".to_string() } else { bev.join(",").chars().take(160).collect() };
    json!({"ent": ent.join(" "), "n": all.len(), "tsmax": ts_json(tsmax), "idx": n2u.join(" "), "idxt": idxt, "idxc": idxc, "bev": bev})
}

/// Greatest change identifier stamped anywhere in the database by this server.
fn committed_max<'a, T: QueryServerTransaction<'a>>(r: &mut T, srv: Uuid) -> Duration {
    let mut m = Duration::ZERO;
    for e in search_all(r) {
        match e.get_changestate().current() {
            State::Live { at, changes } => {
                for c in std::iter::once(at).chain(changes.values()) {
                    if c.s_uuid == srv && c.ts > m {
                        m = c.ts;
                    }
                }
            }
            State::Tombstone { at } => {
                if at.s_uuid == srv && at.ts > m {
                    m = at.ts;
                }
            }
        }
    }
    m
}

/// Full restart on the crashed file with a regressed clock: verify() and the identifier of a probe write.
async fn recover(file: &Path, level: DomainVersion) -> (Vec<String>, Duration, Duration, String) {
    let s = open_level(file, 4, t(T_RECOVER), true, level).await;
    let (verify, cmax, srv) = {
        let mut r = s.qs.read().await.expect("read");
        let v = kvt::verify(&mut r);
        // the probe transaction below tells us the server uuid; collect the maximum afterwards
        (v, Duration::ZERO, Uuid::nil())
    };
    let _ = (cmax, srv);
    let mut w = s.qs.write(t(T_RECOVER)).await.expect("write");
    let cid = kvt::txn_cid(&w);
    let cmax = committed_max(&mut w, cid.s_uuid);
    // the probe really writes (so the identifier is stamped), then commits
    w.internal_modify_uuid(uuid_e(G1), &ModifyList::new_purge_and_set(Attribute::Description, Value::new_utf8s("probe")))
        .expect("probe modify");
    w.commit().expect("probe commit");
    let mut r = s.qs.read().await.expect("read");
    let stamped = r
        .internal_search_uuid(uuid_e(G1))
        .ok()
        .and_then(|e| match e.get_changestate().current() {
            State::Live { changes, .. } => changes.get(&Attribute::Description).map(|c| c.ts),
            _ => None,
        })
        .unwrap_or(Duration::ZERO);
    let _ = stamped;
    (verify, if stamped > Duration::ZERO { stamped } else { cid.ts }, cmax, cid.s_uuid.to_string())
}

pub fn run(o: &Opts) -> i32 {
    let out = o.str("out", "/verif/work/C05/obs.ndjson");
    let dbdir = PathBuf::from(o.str("db", "/verif/work/C05/db"));
    let _ = std::fs::remove_dir_all(&dbdir);
    std::fs::create_dir_all(&dbdir).expect("db dir");
    let tpl_tgt = dbdir.join("template.db");
    let tpl_old = dbdir.join("template14.db");
    let work = dbdir.join("case.db");
    let mut kinds: Vec<String> = o.str("kinds", "create,delete").split(',').map(String::from).collect();
    let mut only: Option<BTreeSet<(String, u64)>> = None;
    if let Some(rp) = o.get("replay") {
        let mut set = BTreeSet::new();
        let mut ks = BTreeSet::new();
        for r in read_ndjson(rp) {
            if r["a"] == "crash" {
                let kind = r["kind"].as_str().unwrap_or("").to_string();
                set.insert((kind.clone(), r["k"].as_u64().unwrap_or(0)));
                ks.insert(kind);
            }
        }
        kinds = ks.into_iter().collect();
        only = Some(set);
    }
    let stride = o.u64("stride", 0);
    let exe = std::env::current_exe().expect("exe");
    let mut tr = Tracer::create(&out);
    let rt = runtime();
    let t0 = std::time::Instant::now();
    rt.block_on(async {
        make_template(&tpl_tgt, DOMAIN_TGT_LEVEL).await;
        if kinds.iter().any(|k| level_of(k) != DOMAIN_TGT_LEVEL) {
            make_template(&tpl_old, level_of("schema")).await;
        }
        for kind in &kinds {
            let level = level_of(kind);
            let tpl = if level == DOMAIN_TGT_LEVEL { &tpl_tgt } else { &tpl_old };
            // BEFORE: the state the child has when it begins the transaction (template + start-up)
            copy_db(tpl, &work);
            {
                let _s = open_level(&work, 4, t(T_OPEN), true, level).await;
            }
            let before = stored(&work).await;
            // AFTER: the same plus the committed transaction; the dry run also counts the points
            copy_db(tpl, &work);
            let outp = std::process::Command::new(&exe)
                .args(["crash-child", "--file", &work.display().to_string(), "--kind", kind, "--k", "0"])
                .env("RUST_LOG", "off")
                .output()
                .expect("spawn child");
            let so = String::from_utf8_lossy(&outp.stdout).to_string();
            let n: u64 = so
                .split_whitespace()
                .find_map(|w| w.strip_prefix("seen=").and_then(|x| x.parse().ok()))
                .unwrap_or_else(|| {
                    eprintln!("TOOL-ERROR reference child of kind {kind} failed: {so} {}", String::from_utf8_lossy(&outp.stderr));
                    std::process::exit(2)
                });
            let points = so.split("points=").nth(1).unwrap_or("").trim().to_string();
            let seq: Vec<String> = so
                .split_whitespace()
                .find_map(|w| w.strip_prefix("seq=").map(|x| x.split(',').map(String::from).collect()))
                .unwrap_or_default();
            let after = stored(&work).await;
            tr.emit(&json!({"a":"ref","kind":kind,"k":0,"n":n,"points":points,"before":before,"after":after}));
            for k in 1..=n {
                if let Some(s) = &only {
                    if !s.contains(&(kind.clone(), k)) {
                        continue;
                    }
                } else if stride > 0 && n > 150 {
                    // long transactions (reindex): the first 8 points, the last 4, every stride-th, and the
                    // first and last occurrence of every point name (= every boundary between phases)
                    let i = (k - 1) as usize;
                    let edge = seq.get(i).map(|nm| {
                        seq.iter().position(|x| x == nm) == Some(i) || seq.iter().rposition(|x| x == nm) == Some(i)
                    }).unwrap_or(false);
                    if !(k % stride == 0 || k <= 4 || k + 3 > n || edge) {
                        continue;
                    }
                }
                let tcase = std::time::Instant::now();
                copy_db(tpl, &work);
                let outp = std::process::Command::new(&exe)
                    .args(["crash-child", "--file", &work.display().to_string(), "--kind", kind, "--k", &k.to_string()])
                    .env("RUST_LOG", "off")
                    .output()
                    .expect("spawn child");
                let se = String::from_utf8_lossy(&outp.stderr).to_string();
                let point = se
                    .lines()
                    .find_map(|l| l.strip_prefix("VERIF-CRASH-AT ").map(|x| x.split_whitespace().nth(1).unwrap_or("?").to_string()))
                    .unwrap_or_else(|| "none".into());
                let crashed = !outp.status.success();
                if crashed && point == "none" {
                    eprintln!("TOOL-ERROR child died without reaching point {k} of kind {kind}: {se}");
                    std::process::exit(2);
                }
                let ta = std::time::Instant::now();
                let rec = stored(&work).await;
                let tb = std::time::Instant::now();
                let (verify, nextc, cmax, srv) = recover(&work, level).await;
                if std::env::var("KV_DEBUG").is_ok() {
                    eprintln!("timing: child+copy {:?} stored {:?} recover {:?}", ta - tcase, tb - ta, tb.elapsed());
                }
                tr.emit(&json!({"a":"crash","kind":kind,"k":k,"point":point,"crashed": if crashed {1} else {0},
                    "before":before,"after":after,"rec":rec,"verify":verify,"nextc":ts_json(nextc),"cmax":ts_json(cmax),"srv":srv}));
            }
        }
    });
    let n = tr.finish();
    let _ = std::fs::remove_dir_all(&dbdir);
    println!("OBSERVED lines={n} wall_ms={} out={out}", t0.elapsed().as_millis());
    0
}
