//! C06: read transactions see one consistent committed state.
//! One reader thread (IdmServer::proxy_read, then probes, each evaluated twice) against one writer
//! thread committing a transaction that changes two entries, the schema, an access profile, an
//! OAuth2 client and the domain display name. The interleaving of the reader's snapshot
//! acquisitions and the writer's publications is dictated by a schedule ("RWWR..." one letter per
//! H3 pause point released) produced by TLC (KTxnSnapMC): one witness per reachable vector.
//!
//!   kv-txn c06 --out F --db DIR --schedules S.ndjson        lines {"s":"RRWW..","pv":{probe:0|1}}
use crate::world::*;
use kanidmd_lib::prelude::*;
use kanidmd_lib::schema::SchemaTransaction;
use kanidmd_lib::verif::txn as kvt;
use kvc::srv::*;
use kvc::util::*;
use serde_json::{json, Value as J};
use std::cell::Cell;
use std::path::PathBuf;
use std::sync::{Arc, Condvar, Mutex};
use std::time::Duration;

const T_OPEN: u64 = 10;
const T_TXN: u64 = 20;

struct Ctl {
    sched: Vec<u8>,
    i: usize,
    log: Vec<(char, &'static str)>,
    stuck: bool,
    /// a thread is "running" from the moment it is released until it parks at its next pause
    /// point (or ends): exactly one thread runs at a time, so the interleaving is the schedule
    running: [bool; 2],
}
fn idx(role: u8) -> usize {
    if role == b'R' {
        0
    } else {
        1
    }
}
/// to be called by a scheduled thread when it has nothing more to do
fn finished(ctl: &Arc<(Mutex<Ctl>, Condvar)>, role: u8) {
    let (m, cv) = &**ctl;
    let mut g = m.lock().expect("ctl");
    g.running[idx(role)] = false;
    cv.notify_all();
}
thread_local! { static ROLE: Cell<u8> = const { Cell::new(0) }; }

fn install(sched: &str) -> Arc<(Mutex<Ctl>, Condvar)> {
    let ctl = Arc::new((Mutex::new(Ctl { sched: sched.as_bytes().to_vec(), i: 0, log: Vec::new(), stuck: false, running: [true, true] }), Condvar::new()));
    let c2 = ctl.clone();
    kvt::set_pause_handler(Some(Arc::new(move |label: &'static str| {
        let role = ROLE.with(|r| r.get());
        if role == 0 {
            return;
        }
        let (m, cv) = &*c2;
        let mut g = m.lock().expect("ctl");
        g.running[idx(role)] = false; // parked
        cv.notify_all();
        loop {
            if g.i >= g.sched.len() {
                // schedule consumed: the rest runs unscheduled, but still one thread at a time, so
                // that the last released group (the reader's probes) is not overlapped
                if !g.running[1 - idx(role)] {
                    g.running[idx(role)] = true;
                    return;
                }
            } else if g.sched[g.i] == role && !g.running[1 - idx(role)] {
                g.i += 1;
                g.log.push((role as char, label));
                g.running[idx(role)] = true;
                cv.notify_all();
                return;
            }
            let (g2, to) = cv.wait_timeout(g, Duration::from_secs(20)).expect("wait");
            g = g2;
            if to.timed_out() {
                // the other thread never arrives at a pause point: inconsistent schedule
                g.stuck = true;
                g.i = g.sched.len();
                cv.notify_all();
                return;
            }
        }
    })));
    ctl
}

fn ver(v: &str, old: &str, new: &str) -> u64 {
    if v == new {
        1
    } else if v == old {
        0
    } else {
        9
    }
}

/// All probes through ONE existing read transaction; raw answers and their versions.
fn probes(pr: &mut kanidmd_lib::idm::server::IdmServerProxyReadTransaction<'_>) -> (J, J) {
    let desc = |r: &mut QueryServerReadTransaction<'_>, n: u64| -> String {
        r.internal_search_uuid(uuid_e(n)).map(|e| ava_strings(&e, Attribute::Description).join("+")).unwrap_or_else(|e| format!("err:{e:?}"))
    };
    let oa = if pr.oauth2_openid_discovery("c4client").is_ok() { "y" } else { "n" };
    let r = &mut pr.qs_read;
    // B first: not resident in the entry cache, so this is the statement that fixes the SQLite snapshot
    let eb = desc(r, E2);
    let ea = desc(r, E1);
    let n2u = format!(
        "{}{}",
        if r.name_to_uuid("c4e1x").is_ok() { "y" } else { "n" },
        if r.name_to_uuid("c4e1").is_ok() { "y" } else { "n" }
    );
    let f = kanidmd_lib::filter!(f_eq(Attribute::Name, PartialValue::new_iname("c4e1x")));
    let idx = r.internal_search(f).map(|v| v.len().to_string()).unwrap_or_else(|_| "err".into());
    let sch = if r.get_schema().get_attributes().contains_key(&Attribute::from("c4attr")) { "y" } else { "n" };
    let acp = match r.internal_search_uuid(uuid_e(U1)) {
        Ok(u1) => {
            let ident = Identity::from_impersonate_entry_readwrite(u1);
            let f = kanidmd_lib::filter!(f_eq(Attribute::Uuid, PartialValue::Uuid(uuid_e(E3))));
            match r.impersonate_search(f.clone(), f, &ident) {
                Ok(v) => (if v.is_empty() { "n" } else { "y" }).to_string(),
                Err(e) => format!("err:{e:?}"),
            }
        }
        Err(_) => "nouser".to_string(),
    };
    let dn = r.get_domain_display_name().to_string();
    let raw = json!({"sch":sch,"dn":dn,"acp":acp,"oa":oa,"ea":ea,"eb":eb,"n2u":n2u,"idx":idx});
    let v = json!({"sch":ver(sch,"n","y"),"dn":ver(&dn,"Kanidm example.com",DNAME_NEW),"acp":ver(&acp,"n","y"),"oa":ver(oa,"n","y"),
        "ea":ver(&ea,"d0","d1"),"eb":ver(&eb,"d0","d1"),"n2u":ver(&n2u,"ny","yn"),"idx":ver(&idx,"0","1")});
    (raw, v)
}

pub fn run(o: &Opts) -> i32 {
    let out = o.str("out", "/verif/work/C06/obs.ndjson");
    let dbdir = PathBuf::from(o.str("db", "/verif/work/C06/db"));
    let _ = std::fs::remove_dir_all(&dbdir);
    std::fs::create_dir_all(&dbdir).expect("db dir");
    let tpl = dbdir.join("template14.db");
    let work = dbdir.join("case.db");
    let scheds = read_ndjson(&o.str("schedules", o.get("replay").unwrap_or("/verif/work/C06/schedules.ndjson")));
    let mut tr = Tracer::create(&out);
    let rt = runtime();
    let level = level_of("c6");
    let t0 = std::time::Instant::now();
    rt.block_on(make_template(&tpl, level));
    for sc in &scheds {
        let sched = sc["s"].as_str().unwrap_or("").to_string();
        copy_db(&tpl, &work);
        let s = rt.block_on(async {
            let s = open_level(&work, 4, t(T_OPEN), true, level).await;
            // cache residency: empty the caches, then read A only (B stays on disk)
            {
                let mut w = s.qs.write(t(T_OPEN + 1)).await.expect("write");
                w.clear_cache().expect("clear_cache");
                w.commit().expect("commit");
            }
            {
                let mut r = s.qs.read().await.expect("read");
                let _ = r.internal_search_uuid(uuid_e(E1));
            }
            {
                let w = s.qs.write(t(T_OPEN + 2)).await.expect("write");
                w.commit().expect("commit");
            }
            s.qs.try_quiesce();
            s
        });
        let ctl = install(&sched);
        let idms_r = s.idms.clone();
        let idms_w = s.idms.clone();
        let ctl_r = ctl.clone();
        let ctl_w = ctl.clone();
        let reader = std::thread::spawn(move || {
            ROLE.with(|r| r.set(b'R'));
            let rt = runtime();
            rt.block_on(async {
                let mut pr = idms_r.proxy_read().await.expect("proxy_read");
                kvt::pause("q.sql");
                let (raw1, v1) = probes(&mut pr);
                let (raw2, v2) = probes(&mut pr);
                finished(&ctl_r, b'R');
                (raw1, v1, raw2, v2)
            })
        });
        let writer = std::thread::spawn(move || {
            ROLE.with(|r| r.set(b'W'));
            let rt = runtime();
            rt.block_on(async {
                let mut w = idms_w.proxy_write(t(T_TXN)).await.expect("proxy_write");
                for op in ops_of("c6") {
                    apply_op(&mut w.qs_write, op).expect("writer op");
                }
                let ok = w.commit().is_ok();
                finished(&ctl_w, b'W');
                ok
            })
        });
        let (raw1, v1, raw2, v2) = reader.join().expect("reader thread");
        let wok = writer.join().expect("writer thread");
        kvt::set_pause_handler(None);
        let (log, stuck, used) = {
            let g = ctl.0.lock().expect("ctl");
            (g.log.clone(), g.stuck, g.i)
        };
        if stuck {
            eprintln!("TOOL-ERROR schedule {sched} could not be followed (released so far: {log:?})");
            return 2;
        }
        // what a fresh reader sees afterwards (must be the new state everywhere)
        let (_, vfin) = rt.block_on(async {
            let mut pr = s.idms.proxy_read().await.expect("proxy_read");
            probes(&mut pr)
        });
        let labels: Vec<J> = log.iter().map(|(t, l)| json!({"t": t.to_string(), "l": l})).collect();
        tr.emit(&json!({"a":"sched","s":sched,"used":used,"labels":labels,"pv":sc.get("pv").cloned().unwrap_or(json!({})),"wres": if wok {"ok"} else {"err"},
            "o1":v1,"o2":v2,"raw1":raw1,"raw2":raw2,"fin":vfin}));
        drop(s);
    }
    let n = tr.finish();
    let _ = std::fs::remove_dir_all(&dbdir);
    println!("OBSERVED lines={n} wall_ms={} out={out}", t0.elapsed().as_millis());
    0
}

/// `kv-txn order`: which commit does the tree under test have? One small write transaction is committed on
/// an in-memory server with a recording pause handler; the labels are printed in the order they were passed.
pub fn order(_o: &Opts) -> i32 {
    let rt = runtime();
    let log: Arc<Mutex<Vec<&'static str>>> = Arc::new(Mutex::new(Vec::new()));
    let l2 = log.clone();
    rt.block_on(async {
        let qs = new_qs(t(0)).await;
        let (idms, _d, _a) = new_idms(qs, t(0)).await;
        let mut w = idms.proxy_write(t(1)).await.expect("write");
        apply_op(&mut w.qs_write, "create").expect("op");
        kvt::set_pause_handler(Some(Arc::new(move |label: &'static str| {
            l2.lock().expect("log").push(label);
        })));
        let r = w.commit();
        kvt::set_pause_handler(None);
        r.expect("commit");
    });
    let labels = log.lock().expect("log").clone();
    println!("ORDER {}", serde_json::to_string(&labels).expect("json"));
    0
}
