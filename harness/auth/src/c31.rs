//! C31: concrete passwords (built by kv/checks/C31.py for every model case + random ones) submitted
//! through every password-setting path of a REAL IdmServer: credential update session (primary and
//! POSIX password, then commit) and the direct `set_unix_account_password`. After every request the
//! stored credential is read back and verified against the submitted password.
use crate::world::*;
use kanidm_proto::internal::PasswordFeedback;
use kanidmd_lib::idm::credupdatesession::InitCredentialUpdateEvent;
use kanidmd_lib::idm::event::UnixPasswordChangeEvent;
use kanidmd_lib::prelude::*;
use kanidmd_lib::value::CredentialType;
use kanidmd_lib::verif::auth as ka;
use kvc::srv::*;
use kvc::util::*;
use serde_json::{json, Value as J};
use std::collections::BTreeMap;
use std::time::Duration;

const INITIAL_PW: &str = "initial-Fjord-42-plinth-walrus-ember";
const TOTP_SECRET: &[u8] = b"verif-c31-totp-secret-abcdefgh";

fn why_of(e: &OperationError) -> String {
    match e {
        OperationError::PasswordQuality(v) => match v.first() {
            Some(PasswordFeedback::TooShort(_)) => "tooshort".into(),
            Some(PasswordFeedback::TooLong(_)) => "toolong".into(),
            Some(PasswordFeedback::BadListed) => "badlisted".into(),
            _ => "weak".into(),
        },
        other => format!("other:{}", err_class(other)),
    }
}

/// account-policy attributes of one group entry in the KAuthPolicy JSON shape (CA lists are not
/// used by this property: logged as absent)
fn pol_json(e: &EntrySealedCommitted) -> Option<J> {
    if !e.attribute_equality(Attribute::Class, &EntryClass::AccountPolicy.to_partialvalue()) {
        return None;
    }
    let u = |a: Attribute| e.get_ava_single_uint32(a).map(|v| (v as u64).min(2_000_000_000) as i64).unwrap_or(-1);
    let ct = e.get_ava_single_credential_type(Attribute::CredentialTypeMinimum).map(|c| c as i64).unwrap_or(-1);
    Some(json!({"pe": u(Attribute::PrivilegeExpiry), "se": u(Attribute::AuthSessionExpiry), "ml": u(Attribute::AuthPasswordMinimumLength),
                "ct": ct, "ca": {"has": 0, "l": {}}}))
}

async fn account_pols(w: &World, uuid: Uuid) -> Option<Vec<J>> {
    let e = w.entry(uuid).await?;
    let mut out = Vec::new();
    let groups: Vec<Uuid> = e.get_ava_as_refuuid(Attribute::MemberOf).map(|i| i.collect()).unwrap_or_default();
    for g in groups {
        if let Some(ge) = w.entry(g).await {
            if let Some(p) = pol_json(&ge) {
                out.push(p);
            }
        }
    }
    Some(out)
}

async fn stored_matches(w: &World, uuid: Uuid, attr: Attribute, pw: &str) -> bool {
    match w.entry(uuid).await {
        Some(e) => e.get_ava_single_credential(attr).and_then(|c| c.password_ref().ok()).and_then(|p| p.verify(pw).ok()) == Some(true),
        None => false,
    }
}

pub fn run(o: &Opts) -> i32 {
    let out = o.str("out", "/verif/work/C31/obs.ndjson");
    let cases = read_ndjson(&o.str("cases", "/verif/work/C31/cases.ndjson"));
    let mut tr = Tracer::create(&out);
    let rt = runtime();
    let ok = rt.block_on(async {
        let w = World::new().await;
        let mut now = T0 + 100;
        let tick = |now: &mut u64| -> Duration {
            *now += 2;
            Duration::from_secs(*now)
        };
        let Some(adm) = w.entry(UUID_IDM_ADMIN).await else { return false };
        let admin = Identity::from_impersonate_entry_readwrite(adm);
        // badlist (header line of the case file)
        let mut accounts: BTreeMap<String, u64> = BTreeMap::new();
        let crypto = kanidm_lib_crypto::CryptoPolicy::danger_test_minimum();
        for c in &cases {
            if c["a"] == "badlist" {
                let mut ml = ModifyList::new();
                for b in c["list"].as_array().cloned().unwrap_or_default() {
                    ml.push_mod(Modify::Present(Attribute::BadlistPassword, Value::new_iutf8(b.as_str().unwrap_or(""))));
                }
                if !c["list"].as_array().map(|a| a.is_empty()).unwrap_or(true) && w.modify(UUID_SYSTEM_CONFIG, ml, tick(&mut now)).await.is_err() {
                    eprintln!("TOOL-ERROR cannot set badlist");
                    return false;
                }
                continue;
            }
            // account for this policy variant: "p0" (built-in groups only) or "p<min>[m]" (extra group)
            let pol = c["pol"].as_str().unwrap_or("p0").to_string();
            let n = match accounts.get(&pol) {
                Some(n) => *n,
                None => {
                    let n = 7000 + accounts.len() as u64;
                    let ct = tick(&mut now);
                    let mut es = vec![World::person(n, &format!("qx{n}zr"), true)];
                    if pol != "p0" {
                        let m: u32 = pol.trim_start_matches('p').parse().unwrap_or(20);
                        let mut g = EntryInitNew::new();
                        g.add_ava(Attribute::Class, EntryClass::Object.to_value());
                        g.add_ava(Attribute::Class, EntryClass::Group.to_value());
                        g.add_ava(Attribute::Class, EntryClass::AccountPolicy.to_value());
                        g.add_ava(Attribute::Name, Value::new_iname(&format!("pwpol{n}")));
                        g.add_ava(Attribute::Uuid, Value::Uuid(uuid_e(n + 500)));
                        g.add_ava(Attribute::AuthPasswordMinimumLength, Value::Uint32(m));
                        g.add_ava(Attribute::CredentialTypeMinimum, Value::CredentialType(CredentialType::Mfa));
                        g.add_ava(Attribute::Member, Value::Refer(uuid_e(n)));
                        es.push(g);
                    }
                    if w.create(es, ct).await.is_err() {
                        eprintln!("TOOL-ERROR cannot create account for policy {pol}");
                        return false;
                    }
                    let totp = ka::totp_new(TOTP_SECRET.to_vec(), 30, "sha256", 6);
                    let Ok(cred) = ka::cred_build(&crypto, INITIAL_PW, Some(totp), None, ct) else { return false };
                    let Ok(ucred) = ka::cred_build(&crypto, INITIAL_PW, None, None, ct) else { return false };
                    if w.set_primary(uuid_e(n), cred, ct).await.is_err() || w.set_unix(uuid_e(n), ucred, ct).await.is_err() {
                        return false;
                    }
                    accounts.insert(pol.clone(), n);
                    n
                }
            };
            let target = uuid_e(n);
            let pw = c["pw"].as_str().unwrap_or("").to_string();
            let path = c["path"].as_str().unwrap_or("cu_primary");
            let Some(pols) = account_pols(&w, target).await else { return false };
            let (res, why): (String, String) = if path == "direct_unix" {
                let ct = tick(&mut now);
                let r = {
                    let Ok(mut pwx) = w.idms.proxy_write(ct).await else { return false };
                    let ev = UnixPasswordChangeEvent { ident: admin.clone(), target, cleartext: pw.clone() };
                    match pwx.set_unix_account_password(&ev) {
                        Ok(()) => pwx.commit(),
                        Err(e) => Err(e),
                    }
                };
                match r {
                    Ok(()) => ("ok".into(), "ok".into()),
                    Err(e) => ("err".into(), why_of(&e)),
                }
            } else {
                let ct = tick(&mut now);
                let tok = {
                    let Ok(mut pwx) = w.idms.proxy_write(ct).await else { return false };
                    match pwx.init_credential_update(&InitCredentialUpdateEvent::new(admin.clone(), target), ct) {
                        Ok((tok, _)) => {
                            if pwx.commit().is_err() {
                                return false;
                            }
                            tok
                        }
                        Err(e) => {
                            eprintln!("TOOL-ERROR cannot open credential update session: {e:?}");
                            return false;
                        }
                    }
                };
                let set = {
                    let Ok(cu) = w.idms.cred_update_transaction().await else { return false };
                    if path == "cu_unix" { cu.credential_unix_set_password(&tok, ct, &pw) } else { cu.credential_primary_set_password(&tok, ct, &pw) }
                };
                let ct2 = tick(&mut now);
                let Ok(mut pwx) = w.idms.proxy_write(ct2).await else { return false };
                match set {
                    Ok(_) => match pwx.commit_credential_update(&tok, ct2).and_then(|_| pwx.commit()) {
                        Ok(()) => ("ok".into(), "ok".into()),
                        Err(e) => ("err".into(), format!("commit:{}", err_class(&e))),
                    },
                    Err(e) => {
                        let _ = pwx.cancel_credential_update(&tok, ct2).and_then(|_| pwx.commit());
                        ("err".into(), why_of(&e))
                    }
                }
            };
            let attr = if path == "cu_primary" { Attribute::PrimaryCredential } else { Attribute::UnixPassword };
            let stored = stored_matches(&w, target, attr, &pw).await;
            let mut line = c.clone();
            line["a"] = json!("setpw");
            line["pols"] = json!(pols);
            line["blen"] = json!(pw.len());
            line["res"] = json!(res);
            line["why"] = json!(why);
            line["stored"] = json!(stored as u8);
            tr.emit(&line);
        }
        true
    });
    if !ok {
        eprintln!("TOOL-ERROR c31 driver failed");
        return 2;
    }
    println!("OBSERVED lines={} out={out}", tr.finish());
    0
}
