//! C35: account-policy resolution. Group entries carrying account-policy attributes are created on
//! a REAL in-memory server, read back, and `ResolvedAccountPolicy::fold_from` (through the in-lib
//! accessor, converting entries exactly as `load_account_policy` does) is run over every
//! permutation of every multiset of at most `n` policies from the policy list, plus seeded random
//! multisets with random values.
use crate::ca_data::*;
use kanidmd_lib::prelude::*;
use kanidmd_lib::value::CredentialType;
use kanidmd_lib::verif::auth as ka;
use kvc::srv::*;
use kvc::util::*;
use serde_json::{json, Map, Value as J};
use std::collections::BTreeMap;
use std::sync::Arc;

const CLAMP: u64 = 2_000_000_000; // TLC integers are 32 bit signed: u32::MAX is logged as this

fn dev_uuid(name: &str) -> Uuid {
    let n: u128 = name.trim_start_matches('g').parse().unwrap_or(0);
    Uuid::from_u128(0xd000_0000_0000_4000_8000_0000_0000_0000u128 + n)
}
fn dev_name(u: Uuid) -> String {
    format!("g{}", u.as_u128() - 0xd000_0000_0000_4000_8000_0000_0000_0000u128)
}
fn ca_pem(name: &str) -> &'static str {
    match name {
        "A" => CA_A,
        "B" => CA_B,
        _ => CA_C,
    }
}
fn cred_type(n: i64) -> Option<CredentialType> {
    Some(match n {
        0 => CredentialType::Any,
        5 => CredentialType::External,
        10 => CredentialType::Mfa,
        20 => CredentialType::Passkey,
        30 => CredentialType::AttestedPasskey,
        40 => CredentialType::AttestedResidentkey,
        _ => return None,
    })
}

fn group_entry(idx: usize, p: &J) -> Result<EntryInitNew, String> {
    let mut e = EntryInitNew::new();
    e.add_ava(Attribute::Class, EntryClass::Object.to_value());
    e.add_ava(Attribute::Class, EntryClass::Group.to_value());
    e.add_ava(Attribute::Class, EntryClass::AccountPolicy.to_value());
    e.add_ava(Attribute::Name, Value::new_iname(&format!("pol{idx}")));
    e.add_ava(Attribute::Uuid, Value::Uuid(uuid_e(5000 + idx as u64)));
    let g = |k: &str| p[k].as_i64().unwrap_or(-1);
    if g("pe") >= 0 {
        e.add_ava(Attribute::PrivilegeExpiry, Value::Uint32(g("pe") as u32));
    }
    if g("se") >= 0 {
        e.add_ava(Attribute::AuthSessionExpiry, Value::Uint32(g("se") as u32));
    }
    if g("ml") >= 0 {
        e.add_ava(Attribute::AuthPasswordMinimumLength, Value::Uint32(g("ml") as u32));
    }
    if g("ct") >= 0 {
        let ct = cred_type(g("ct")).ok_or("bad ct")?;
        e.add_ava(Attribute::CredentialTypeMinimum, Value::CredentialType(ct));
    }
    if p["ca"]["has"].as_i64() == Some(1) {
        let mut cas: Vec<(String, Option<Vec<Uuid>>)> = Vec::new();
        if let Some(o) = p["ca"]["l"].as_object() {
            for (ca, devs) in o {
                let names: Vec<&str> = devs.as_array().map(|a| a.iter().filter_map(|x| x.as_str()).collect()).unwrap_or_default();
                if names.contains(&"*") {
                    cas.push((ca_pem(ca).to_string(), None));
                } else {
                    cas.push((ca_pem(ca).to_string(), Some(names.iter().map(|n| dev_uuid(n)).collect())));
                }
            }
        }
        e.add_ava(Attribute::WebauthnAttestationCaList, ka::ca_list_value(&cas)?);
    }
    Ok(e)
}

fn out_json(o: &ka::ResolvedOut, kids: &BTreeMap<String, &'static str>) -> J {
    let ca = match &o.ca_list {
        None => json!({"has": 0, "l": {}}),
        Some(l) => {
            let mut m = Map::new();
            for (kid, blanket, devs) in l {
                let name = kids.get(kid).copied().unwrap_or("?");
                let v: Vec<String> = if *blanket { vec!["*".to_string()] } else { devs.iter().map(|d| dev_name(*d)).collect() };
                m.insert(name.to_string(), json!(v));
            }
            json!({"has": 1, "l": J::Object(m)})
        }
    };
    json!({
        "pe": o.privilege_expiry, "se": (o.authsession_expiry as u64).min(CLAMP), "ml": o.pw_min_length,
        "mx": o.pw_max_length, "ct": o.credential_policy, "ca": ca
    })
}

fn permutations(n: usize) -> Vec<Vec<usize>> {
    fn rec(cur: &mut Vec<usize>, used: &mut Vec<bool>, n: usize, out: &mut Vec<Vec<usize>>) {
        if cur.len() == n {
            out.push(cur.clone());
            return;
        }
        for i in 0..n {
            if !used[i] {
                used[i] = true;
                cur.push(i);
                rec(cur, used, n, out);
                cur.pop();
                used[i] = false;
            }
        }
    }
    let mut out = Vec::new();
    rec(&mut Vec::new(), &mut vec![false; n], n, &mut out);
    out
}

fn multisets(k: usize, n: usize) -> Vec<Vec<usize>> {
    // all non-decreasing index sequences of length 0..=n over 0..k
    let mut out = vec![vec![]];
    let mut layer: Vec<Vec<usize>> = vec![vec![]];
    for _ in 0..n {
        let mut nx = Vec::new();
        for m in &layer {
            let lo = m.last().copied().unwrap_or(0);
            for i in lo..k {
                let mut m2 = m.clone();
                m2.push(i);
                nx.push(m2);
            }
        }
        out.extend(nx.iter().cloned());
        layer = nx;
    }
    out
}

fn random_policy(rng: &mut Rng) -> J {
    let pick = |rng: &mut Rng, v: &[i64]| -> i64 { *rng.pick(v) };
    let pe = pick(rng, &[-1, 0, 1, 599, 600, 3599, 3600, 3601, 100000]);
    let pe = if rng.chance(1, 3) { rng.below(4000) as i64 } else { pe };
    let se = pick(rng, &[-1, 0, 1, 3600, 86400, 86401, 1999999999]);
    let se = if rng.chance(1, 3) { rng.below(100000) as i64 } else { se };
    let ml = pick(rng, &[-1, 0, 9, 10, 11, 14, 15, 16, 64, 128, 129]);
    let ct = pick(rng, &[-1, 0, 5, 10, 20, 30, 40]);
    let ca = if rng.chance(1, 2) {
        json!({"has": 0, "l": {}})
    } else {
        let mut m = Map::new();
        for ca in ["A", "B", "C"] {
            match rng.below(4) {
                0 => {}
                1 => {
                    m.insert(ca.to_string(), json!(["*"]));
                }
                _ => {
                    let mut v: Vec<String> = Vec::new();
                    for d in 1..=4 {
                        if rng.chance(1, 2) {
                            v.push(format!("g{d}"));
                        }
                    }
                    if !v.is_empty() {
                        m.insert(ca.to_string(), json!(v));
                    }
                }
            }
        }
        json!({"has": 1, "l": J::Object(m)})
    };
    json!({"pe": pe, "se": se, "ml": ml, "ct": ct, "ca": ca})
}

pub fn run(o: &Opts) -> i32 {
    let out = o.str("out", "/verif/work/C35/obs.ndjson");
    let mut tr = Tracer::create(&out);
    let n = o.u64("n", 3) as usize;
    let rt = runtime();
    rt.block_on(async {
        let mut kids: BTreeMap<String, &'static str> = BTreeMap::new();
        for (name, pem) in [("A", CA_A), ("B", CA_B), ("C", CA_C)] {
            kids.insert(ka::ca_kid(pem).expect("ca pem"), name);
        }
        // the work list: (policies, index multiset)
        let mut pols: Vec<J> = Vec::new();
        let mut work: Vec<Vec<usize>> = Vec::new();
        if let Some(rp) = o.get("replay") {
            for r in read_ndjson(rp) {
                let base = pols.len();
                let ins = r["in"].as_array().cloned().unwrap_or_default();
                work.push((0..ins.len()).map(|i| base + i).collect());
                pols.extend(ins);
            }
        } else {
            if let Some(pf) = o.get("pols") {
                pols = read_ndjson(pf);
                work = multisets(pols.len(), n);
            }
            let mut rng = Rng::new(o.seed());
            for _ in 0..o.u64("random", 0) {
                let k = rng.range(1, 5) as usize;
                let base = pols.len();
                for _ in 0..k {
                    let p = if rng.chance(1, 4) && base > 0 { pols[rng.below(base as u64) as usize].clone() } else { random_policy(&mut rng) };
                    pols.push(p);
                }
                work.push((base..base + k).collect());
            }
        }
        // create the group entries on a real server and read them back
        let qs = new_qs(t(0)).await;
        let mut entries: Vec<Arc<EntrySealedCommitted>> = Vec::new();
        {
            let mut w = qs.write(t(1)).await.expect("write");
            let es: Vec<EntryInitNew> = pols.iter().enumerate().map(|(i, p)| group_entry(i, p).expect("policy json")).collect();
            for chunk in es.chunks(200) {
                w.internal_create(chunk.to_vec()).expect("create policy groups");
            }
            w.commit().expect("commit");
        }
        {
            let mut r = qs.read().await.expect("read");
            for i in 0..pols.len() {
                let e = r.internal_search_uuid(uuid_e(5000 + i as u64)).expect("group entry");
                // the logged input is the policy AS STORED: an empty CA list has no values and is therefore
                // not stored at all (the attribute is absent on the entry)
                if pols[i]["ca"]["has"] == 1 && e.get_ava_set(Attribute::WebauthnAttestationCaList).is_none() {
                    pols[i]["ca"] = json!({"has": 0, "l": {}});
                }
                entries.push(e);
            }
        }
        for ms in &work {
            let perms = permutations(ms.len());
            let mut seen: Vec<Vec<usize>> = Vec::new(); // distinct orders of the multiset
            let mut plist: Vec<Vec<usize>> = Vec::new();
            let mut outs: Vec<J> = Vec::new();
            for p in perms {
                let order: Vec<usize> = p.iter().map(|i| ms[*i]).collect();
                if seen.contains(&order) {
                    continue;
                }
                seen.push(order.clone());
                let es: Vec<Arc<EntrySealedCommitted>> = order.iter().map(|i| entries[*i].clone()).collect();
                let res = catch(|| ka::fold_policy_entries(&es));
                match res {
                    Ok(r) => outs.push(out_json(&r, &kids)),
                    Err(_) => outs.push(json!({"pe": -2, "se": -2, "ml": -2, "mx": -2, "ct": -2, "ca": {"has": 0, "l": {}}})),
                }
                plist.push(p.iter().map(|i| i + 1).collect());
            }
            let ins: Vec<J> = ms.iter().map(|i| pols[*i].clone()).collect();
            tr.emit(&json!({"a": "fold", "in": ins, "perms": plist, "outs": outs}));
        }
    });
    println!("OBSERVED lines={} out={out}", tr.finish());
    0
}
