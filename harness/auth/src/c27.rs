//! C27: EVERY step sequence (Init / Begin(mech) / Cred(kind)) up to a bounded length, for every
//! credential configuration and validity window, through the REAL `IdmServerAuthTransaction::auth`
//! on accounts provisioned with real credentials (password, TOTP, backup codes; anonymous).
//! One auth transaction per step, delayed actions drained and applied after every sequence.
use crate::world::*;
use kanidm_proto::v1::AuthMech;
use kanidmd_lib::idm::authentication::AuthCredential;
use kanidmd_lib::prelude::*;
use kanidmd_lib::verif::auth as ka;
use kvc::srv::*;
use kvc::util::*;
use serde_json::{json, Value as J};
use std::collections::BTreeMap;
use std::time::Duration;

const PW_OK: &str = "correct horse battery staple 9471";
const PW_BAD: &str = "wrong horse battery staple 0000";
const TOTP_SECRET: &[u8] = b"verif-c27-totp-secret-abcdefgh";
const STEP: u64 = 30;
const ADVANCE: u64 = 120;
const MECHS: [&str; 7] = ["anonymous", "password", "passwordtotp", "passwordbackupcode", "passwordsecuritykey", "passkey", "oauth2trust"];
const CREDS: [&str; 8] = ["pw_ok", "pw_bad", "totp_cur", "totp_prev", "totp_stale", "backup_ok", "backup_bad", "anon"];

type Step = (String, String);

fn alphabet() -> Vec<Step> {
    let mut v = vec![("init".to_string(), String::new())];
    v.extend(MECHS.iter().map(|m| ("begin".to_string(), m.to_string())));
    v.extend(CREDS.iter().map(|c| ("cred".to_string(), c.to_string())));
    v
}

/// all sequences of length 1..=maxlen; `init_first`: the first step is Init
fn sequences(maxlen: usize, init_first: bool) -> Vec<Vec<Step>> {
    let al = alphabet();
    let mut out: Vec<Vec<Step>> = Vec::new();
    let mut layer: Vec<Vec<Step>> = if init_first { vec![vec![al[0].clone()]] } else { al.iter().map(|s| vec![s.clone()]).collect() };
    for _ in 0..maxlen {
        out.extend(layer.iter().cloned());
        let mut nx = Vec::new();
        for s in &layer {
            for a in &al {
                let mut s2 = s.clone();
                s2.push(a.clone());
                nx.push(s2);
            }
        }
        layer = nx;
    }
    out
}

fn mech_of(m: &str) -> AuthMech {
    match m {
        "anonymous" => AuthMech::Anonymous,
        "password" => AuthMech::Password,
        "passwordtotp" => AuthMech::PasswordTotp,
        "passwordbackupcode" => AuthMech::PasswordBackupCode,
        "passwordsecuritykey" => AuthMech::PasswordSecurityKey,
        "oauth2trust" => AuthMech::OAuth2Trust,
        _ => AuthMech::Passkey,
    }
}

struct Acct {
    n: u64,
    name: String,
    cfg: String,
    clock: u64,
    codes: Vec<String>, // unused backup codes
}

fn totp() -> kanidmd_lib::credential::totp::Totp {
    ka::totp_new(TOTP_SECRET.to_vec(), STEP, "sha256", 6)
}
fn code_at(ct: u64) -> u32 {
    totp().do_totp_duration_from_epoch(&Duration::from_secs(ct)).unwrap_or(0)
}

async fn provision(w: &World, a: &mut Acct, fresh: bool) -> bool {
    let ct = Duration::from_secs(a.clock);
    if a.cfg == "anon" {
        return true;
    }
    if fresh && w.create(vec![World::person(a.n, &a.name, false)], ct).await.is_err() {
        return false;
    }
    if a.cfg == "none" {
        return true;
    }
    let pol = kanidm_lib_crypto::CryptoPolicy::danger_test_minimum();
    let t = if a.cfg == "pwtotp" || a.cfg == "pwtotpbackup" { Some(totp()) } else { None };
    let codes: Option<Vec<String>> = if a.cfg == "pwtotpbackup" {
        a.codes = (0..48).map(|i| format!("bk-{}-{}-{i:03}", a.n, a.clock)).collect();
        Some(a.codes.clone())
    } else {
        None
    };
    let Ok(cred) = ka::cred_build(&pol, PW_OK, t, codes, ct) else { return false };
    w.set_primary(uuid_e(a.n), cred, ct).await.is_ok()
}

async fn set_window(w: &World, a: &Acct, win: &str, ct: u64) -> bool {
    let uuid = if a.cfg == "anon" { UUID_ANONYMOUS } else { uuid_e(a.n) };
    let mut ml = ModifyList::new();
    ml.push_mod(Modify::Purged(Attribute::AccountValidFrom));
    ml.push_mod(Modify::Purged(Attribute::AccountExpire));
    let dt = |s: u64| Value::new_datetime_epoch(Duration::from_secs(s));
    match win {
        "before" => ml.push_mod(Modify::Present(Attribute::AccountValidFrom, dt(ct + 100_000))),
        "after" => ml.push_mod(Modify::Present(Attribute::AccountExpire, dt(ct - 10))),
        "expiring" => ml.push_mod(Modify::Present(Attribute::AccountExpire, dt(ct + 60))),
        "starting" => ml.push_mod(Modify::Present(Attribute::AccountValidFrom, dt(ct + 60))),
        _ => {}
    }
    w.modify(uuid, ml, Duration::from_secs(ct)).await.is_ok()
}

/// run one sequence; `adv` = 1-based index of the step before which the clock jumps (0: never)
async fn run_seq(tr: &mut Tracer, w: &mut World, a: &mut Acct, win: &str, adv: usize, seq: &[Step]) -> bool {
    let base = a.clock;
    if win != "in" || a.cfg == "anon" {
        if !set_window(w, a, win, base).await {
            return false;
        }
    }
    let seqj: Vec<J> = seq.iter().map(|(x, y)| json!([x, y])).collect();
    tr.emit(&json!({"a": "reset", "cfg": a.cfg, "w": win, "adv": adv, "seq": seqj}));
    let mut sid = Uuid::from_u128(0x5e55_0000_0000_4000_8000_0000_0000_0001u128 + a.clock as u128);
    let mut failed = false;
    for (i, (act, x)) in seq.iter().enumerate() {
        let advanced = adv != 0 && i + 1 >= adv;
        let ct = base + if advanced { ADVANCE } else { 0 };
        let d = Duration::from_secs(ct);
        let step = match act.as_str() {
            "init" => World::init_step(&a.name, false),
            "begin" => World::begin_step(sid, mech_of(x)),
            _ => {
                let c = match x.as_str() {
                    "pw_ok" => AuthCredential::Password(PW_OK.into()),
                    "pw_bad" => AuthCredential::Password(PW_BAD.into()),
                    "totp_cur" => AuthCredential::Totp(code_at(ct)),
                    "totp_prev" => AuthCredential::Totp(code_at(ct - STEP)),
                    "totp_stale" => {
                        let (cur, prev) = (code_at(ct), code_at(ct - STEP));
                        let mut k = 3;
                        let mut c = code_at(ct - k * STEP);
                        while c == cur || c == prev {
                            k += 1;
                            c = code_at(ct - k * STEP);
                        }
                        AuthCredential::Totp(c)
                    }
                    "backup_ok" => AuthCredential::BackupCode(a.codes.pop().unwrap_or_else(|| "bk-none".into())),
                    "backup_bad" => AuthCredential::BackupCode("bk-not-a-code".into()),
                    _ => AuthCredential::Anonymous,
                };
                World::cred_step(sid, c)
            }
        };
        let out = w.auth_step_nopanic(step, d).await;
        if act == "init" {
            if let Some(s) = out.sessionid {
                sid = s;
            }
        }
        if out.class == "denied" {
            failed = true;
        }
        // severity information only (not judged): is a token issued here accepted as a bearer at this time?
        let usable = match &out.token {
            Some(t) => w.ident_of(t, d).await.is_some() as u8,
            None => 0,
        };
        let mechs: Vec<String> = if out.class == "choose" || out.class == "continue" { out.detail.clone() } else { vec![] };
        tr.emit(&json!({"a": act, "x": x, "t": advanced as u8, "res": out.class, "mechs": mechs, "tok": out.token.is_some() as u8, "use": usable,
                        "why": if out.class == "denied" { out.detail.first().cloned().unwrap_or_default() } else { String::new() }}));
    }
    let end = base + if adv != 0 { ADVANCE } else { 0 };
    let kinds = w.drain_delayed(Duration::from_secs(end)).await;
    if kinds.iter().any(|k| k.ends_with(":err")) {
        eprintln!("TOOL-ERROR delayed action failed: {kinds:?}");
        return false;
    }
    // next sequence on this account starts after every soft-lock window has passed
    let jump = match a.cfg.as_str() {
        "pw" => if failed { 86_411 } else { 1 },
        "pwtotp" | "pwtotpbackup" => if failed { 101 } else { 1 },
        _ => 1,
    };
    a.clock = end + jump;
    if a.cfg == "pwtotpbackup" && a.codes.len() < 6 {
        return provision(w, a, false).await;
    }
    true
}

struct Pool {
    accts: BTreeMap<String, Vec<Acct>>,
    next_n: u64,
}
impl Pool {
    async fn get<'a>(&'a mut self, w: &World, key: &str, cfg: &str) -> Option<&'a mut Acct> {
        let v = self.accts.entry(key.to_string()).or_default();
        // password-only accounts burn a day of simulated time per failing sequence: rotate
        let need_new = v.last().map(|a| a.clock > 2_100_000_000).unwrap_or(true);
        if need_new {
            self.next_n += 1;
            let n = self.next_n;
            let mut a = Acct { n, name: if cfg == "anon" { "anonymous".into() } else { format!("c27u{n}") }, cfg: cfg.to_string(), clock: T0 + 1000, codes: vec![] };
            if cfg == "anon" && !v.is_empty() {
                return None; // a single anonymous account exists; its clock cannot run out (jump 1)
            }
            if !provision(w, &mut a, true).await {
                return None;
            }
            v.push(a);
        }
        v.last_mut()
    }
}

pub fn run(o: &Opts) -> i32 {
    let out = o.str("out", "/verif/work/C27/obs.ndjson");
    let mut tr = Tracer::create(&out);
    let maxlen = o.u64("maxlen", 4) as usize;
    let sidelen = o.u64("sidelen", 3) as usize;
    let rt = runtime();
    let ok = rt.block_on(async {
        let mut w = World::new().await;
        let mut pool = Pool { accts: BTreeMap::new(), next_n: 0 };
        if let Some(rp) = o.get("replay") {
            for r in read_ndjson(rp) {
                if r["a"] != "reset" {
                    continue;
                }
                let cfg = r["cfg"].as_str().unwrap_or("pw").to_string();
                let win = r["w"].as_str().unwrap_or("in").to_string();
                let adv = r["adv"].as_u64().unwrap_or(0) as usize;
                let seq: Vec<Step> = r["seq"].as_array().map(|a| a.iter().map(|s| (s[0].as_str().unwrap_or("").to_string(), s[1].as_str().unwrap_or("").to_string())).collect()).unwrap_or_default();
                let key = format!("{cfg}/{win}");
                let Some(a) = pool.get(&w, &key, &cfg).await else { return false };
                let mut a2 = std::mem::replace(a, Acct { n: 0, name: String::new(), cfg: String::new(), clock: 0, codes: vec![] });
                let ok = run_seq(&mut tr, &mut w, &mut a2, &win, adv, &seq).await;
                if let Some(slot) = pool.accts.get_mut(&key).and_then(|v| v.last_mut()) {
                    *slot = a2;
                }
                if !ok {
                    return false;
                }
            }
            return true;
        }
        // (1) full depth: in-window accounts, first step Init
        let full = sequences(maxlen, true);
        let side = sequences(sidelen, true);
        let any2 = sequences(2, false);
        let mut plan: Vec<(String, String, usize, Vec<Step>)> = Vec::new();
        for cfg in ["pw", "pwtotp", "pwtotpbackup", "anon"] {
            for s in &full {
                plan.push((cfg.into(), "in".into(), 0, s.clone()));
            }
            for s in &any2 {
                if s[0].0 != "init" {
                    plan.push((cfg.into(), "in".into(), 0, s.clone()));
                }
            }
        }
        // (2) bounded depth: no credential, out-of-window, window crossed by a clock advance
        for s in &side {
            plan.push(("none".into(), "in".into(), 0, s.clone()));
        }
        for cfg in ["pw", "pwtotp", "anon"] {
            for win in ["before", "after"] {
                for s in &side {
                    plan.push((cfg.into(), win.into(), 0, s.clone()));
                }
            }
        }
        for cfg in ["pw", "pwtotp", "pwtotpbackup", "anon"] {
            for win in ["expiring", "starting"] {
                for s in &side {
                    for adv in 2..=s.len() {
                        plan.push((cfg.into(), win.into(), adv, s.clone()));
                    }
                }
            }
        }
        for (i, (cfg, win, adv, seq)) in plan.iter().enumerate() {
            // the auth-session table of a server is only pruned by a periodic task: start a fresh server
            // (and fresh accounts) regularly so that memory and lookup time stay flat
            if i > 0 && i % 20_000 == 0 {
                w = World::new().await;
                pool = Pool { accts: BTreeMap::new(), next_n: pool.next_n };
            }
            let key = format!("{cfg}/{win}");
            let Some(a) = pool.get(&w, &key, cfg).await else { return false };
            let mut a2 = std::mem::replace(a, Acct { n: 0, name: String::new(), cfg: String::new(), clock: 0, codes: vec![] });
            let ok = run_seq(&mut tr, &mut w, &mut a2, win, *adv, seq).await;
            if let Some(slot) = pool.accts.get_mut(&key).and_then(|v| v.last_mut()) {
                *slot = a2;
            }
            if !ok {
                return false;
            }
        }
        true
    });
    if !ok {
        eprintln!("TOOL-ERROR c27 driver could not provision / run");
        return 2;
    }
    println!("OBSERVED lines={} out={out}", tr.finish());
    0
}
