//! C29: every case (secret, algorithm, digits, step, time, candidate code) through the REAL
//! `Totp::verify`. Cases come from kv/checks/C29.py (model cases concretised + random ones); all
//! other fields of a case are passed through unchanged for the trace spec.
use kanidmd_lib::credential::totp::{Totp, TotpAlgo, TotpDigits};
use kvc::util::*;
use serde_json::json;
use std::time::Duration;

pub fn run(o: &Opts) -> i32 {
    let out = o.str("out", "/verif/work/C29/obs.ndjson");
    let cases = o.str("cases", "/verif/work/C29/cases.ndjson");
    let mut tr = Tracer::create(&out);
    for mut c in read_ndjson(&cases) {
        let secret = hex::decode(c["secret"].as_str().unwrap_or("")).unwrap_or_default();
        let algo = match c["algo"].as_str().unwrap_or("") {
            "sha1" => TotpAlgo::Sha1,
            "sha256" => TotpAlgo::Sha256,
            _ => TotpAlgo::Sha512,
        };
        let digits = if c["digits"].as_u64() == Some(8) { TotpDigits::Eight } else { TotpDigits::Six };
        let step = c["step"].as_u64().unwrap_or(30);
        let t = c["t"].as_u64().unwrap_or(0);
        let code = c["code"].as_u64().unwrap_or(0) as u32;
        let totp = Totp::new(secret, step, algo, digits);
        let res = catch(|| totp.verify(code, Duration::from_secs(t)));
        let (r, cls) = match res {
            Ok(true) => (1, "accept"),
            Ok(false) => (0, "reject"),
            Err(_) => (0, "panic"),
        };
        c["a"] = json!("verify");
        c["res"] = json!(r);
        c["cls"] = json!(cls);
        tr.emit(&c);
    }
    println!("OBSERVED lines={} out={out}", tr.finish());
    0
}
