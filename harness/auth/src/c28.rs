//! C28: the REAL `CredSoftLock` driven directly (model behaviours at the real constants, seeded
//! random long histories) and through the server paths that consult it (`IdmServer::auth`
//! Init/Begin/Cred, `auth_unix`, `reauth_init` + Cred) with right and wrong credentials.
use crate::world::*;
use kanidm_proto::v1::{AuthIssueSession, AuthMech};
use kanidmd_lib::idm::authentication::{AuthCredential, AuthState, ReauthRequest};
use kanidmd_lib::idm::event::UnixUserAuthEvent;
use kanidmd_lib::prelude::*;
use kanidmd_lib::verif::auth as ka;
use kvc::srv::*;
use kvc::util::*;
use serde_json::{json, Value as J};

const DAY: u64 = 86400;
static CLOCK: std::sync::atomic::AtomicU64 = std::sync::atomic::AtomicU64::new(T0);
const LOCKED_MSG: &str = "Account is temporarily locked";
const LOCKED_MSG_REAUTH: &str = "Credential is temporarily locked";

fn st_json(p: &Option<ka::SoftLockProj>) -> J {
    match p {
        Some(p) => json!({"k": p.kind, "n": p.count, "r": p.reset_at, "u": p.unlock_at, "le": p.last_expire_at}),
        None => json!({"k": "init", "n": 0, "r": 0, "u": 0, "le": 0}),
    }
}
fn exp_opt(e: i64) -> Option<u64> {
    if e < 0 { None } else { Some(e as u64) }
}

/// one protocol attempt on a directly held lock, as the server paths perform it
fn direct_attempt(sl: &mut ka::SoftLockH, ct: u64, exp: i64, wrong: bool) -> &'static str {
    sl.time_step(ct, exp_opt(exp));
    if !sl.is_valid() {
        "refused"
    } else if wrong {
        sl.fail(ct);
        "fail"
    } else {
        "ok"
    }
}

fn emit_event(tr: &mut Tracer, sl: &mut ka::SoftLockH, e: &str, ct: u64, exp: i64, wrong: bool) -> bool {
    let line = match e {
        "time" => {
            sl.time_step(ct, exp_opt(exp));
            json!({"a": "time", "ct": ct, "exp": exp})
        }
        "fail" => {
            sl.fail(ct);
            json!({"a": "fail", "ct": ct})
        }
        _ => {
            let res = direct_attempt(sl, ct, exp, wrong);
            json!({"a": "attempt", "path": "direct", "ct": ct, "exp": exp, "wrong": wrong as u8, "res": res})
        }
    };
    let p = sl.proj();
    if p.is_none() {
        return false;
    }
    let mut line = line;
    line["v"] = json!(sl.is_valid() as u8);
    line["st"] = st_json(&p);
    tr.emit(&line);
    true
}

fn run_behaviour(tr: &mut Tracer, b: &J) -> bool {
    let pol = b["pol"].as_str().unwrap_or("password");
    let w = b["w"].as_u64().unwrap_or(DAY);
    let mut sl = ka::SoftLockH::new(pol, w);
    let (k0, t0) = (b["k0"].as_u64().unwrap_or(0), b["t0"].as_u64().unwrap_or(0));
    for _ in 0..k0 {
        sl.fail(t0);
    }
    let p = sl.proj();
    if p.is_none() {
        return false;
    }
    // proto=1 only if no raw failure occurs (prefix or event)
    let evs = b["evs"].as_array().cloned().unwrap_or_default();
    let raw = k0 > 0 || evs.iter().any(|e| e["e"] == "fail");
    tr.emit(&json!({"a": "reset", "pol": pol, "w": w, "proto": (!raw) as u8, "k0": k0, "t0": t0, "evs": evs, "st": st_json(&p)}));
    for e in &evs {
        let ok = emit_event(tr, &mut sl, e["e"].as_str().unwrap_or(""), e["ct"].as_u64().unwrap_or(0), e["exp"].as_i64().unwrap_or(-1), e["wrong"].as_u64() == Some(1));
        if !ok {
            return false;
        }
    }
    true
}

/// Seeded random long history at the real constants, biased towards the moments that matter.
fn random_history(tr: &mut Tracer, rng: &mut Rng, len: u64) -> bool {
    let totp = rng.chance(1, 3);
    let (pol, w) = if totp { ("totp", *rng.pick(&[30u64, 60, 45])) } else { ("password", DAY) };
    let proto = rng.chance(1, 2);
    let admin = rng.chance(1, 4);
    let mut sl = ka::SoftLockH::new(pol, w);
    let mut now = T0 + rng.below(2 * DAY);
    if rng.chance(1, 3) {
        now = (now / w + 1) * w - rng.range(1, 12); // shortly before a window end
    }
    let mut evs: Vec<J> = Vec::new();
    // generate against a scratch clone so the reset line can carry the whole history (replay)
    let mut scratch = sl.clone();
    for _ in 0..len {
        let p = match scratch.proj() {
            Some(p) => p,
            None => return false,
        };
        let mut cands = vec![now, now + 1, now + rng.range(1, 20)];
        if p.kind == "locked" {
            cands.extend([p.unlock_at, p.unlock_at + 1, p.unlock_at + 1, p.unlock_at + 1]);
        }
        if p.kind != "init" {
            cands.extend([p.reset_at, p.reset_at + 1]);
        }
        if rng.chance(1, 40) {
            cands.push(now + w + 1);
        }
        let cands: Vec<u64> = cands.into_iter().filter(|c| *c >= now && *c < 2_100_000_000).collect();
        let ct = *rng.pick(&cands);
        now = ct;
        let exp: i64 = if admin && rng.chance(1, 6) { *rng.pick(&[ct as i64 - 1, ct as i64 + 500, ct as i64 - 100000, ct as i64]) } else { -1 };
        let kind = if proto { 2 } else { rng.below(3) };
        let ev = match kind {
            0 => json!({"e": "time", "ct": ct, "exp": exp, "wrong": 0}),
            1 => json!({"e": "fail", "ct": ct, "exp": -1, "wrong": 0}),
            _ => json!({"e": "attempt", "ct": ct, "exp": exp, "wrong": rng.chance(5, 6) as u8}),
        };
        match ev["e"].as_str().unwrap_or("") {
            "time" => scratch.time_step(ct, exp_opt(exp)),
            "fail" => scratch.fail(ct),
            _ => {
                direct_attempt(&mut scratch, ct, exp, ev["wrong"] == 1);
            }
        }
        evs.push(ev);
    }
    let p = sl.proj();
    tr.emit(&json!({"a": "reset", "pol": pol, "w": w, "proto": proto as u8, "k0": 0, "t0": 0, "evs": evs, "st": st_json(&p)}));
    for e in &evs {
        if !emit_event(tr, &mut sl, e["e"].as_str().unwrap_or(""), e["ct"].as_u64().unwrap_or(0), e["exp"].as_i64().unwrap_or(-1), e["wrong"] == 1) {
            return false;
        }
    }
    true
}

// ------------------------------------------------------------------------------------ server paths

const PW_OK: &str = "correct horse battery staple 9471";
const PW_BAD: &str = "wrong horse battery staple 0000";
const TOTP_SECRET: &[u8] = b"verif-totp-secret-0123456789";

struct Acct {
    n: u64,
    name: String,
    kind: &'static str, // pw | pwtotp | unix
    cred: Uuid,
    step: u64,
    token: Option<compact_jwt::JwsCompact>,
}

fn totp_code(step: u64, ct: u64, right: bool) -> u32 {
    let t = ka::totp_new(TOTP_SECRET.to_vec(), step, "sha256", 6);
    let d = std::time::Duration::from_secs(ct);
    let cur = t.do_totp_duration_from_epoch(&d).unwrap_or(0);
    if right {
        return cur;
    }
    let prev = t.do_totp_duration_from_epoch(&std::time::Duration::from_secs(ct - step)).unwrap_or(0);
    let mut c = (cur + 1) % 1_000_000;
    while c == cur || c == prev {
        c = (c + 1) % 1_000_000;
    }
    c
}

/// one attempt through a server path; returns res class
async fn server_attempt(w: &mut World, a: &mut Acct, path: &str, ct: u64, wrong: bool, wrong_second: bool) -> String {
    let d = std::time::Duration::from_secs(ct);
    match path {
        "ldap" => {
            let Ok(ev) = kanidmd_lib::idm::event::LdapAuthEvent::from_parts(uuid_e(a.n), (if wrong { PW_BAD } else { PW_OK }).to_string()) else { return "other".into() };
            let mut txn = match w.idms.auth().await {
                Ok(t) => t,
                Err(_) => return "other".into(),
            };
            let r = txn.auth_ldap(&ev, d).await;
            let _ = txn.commit();
            match r {
                Ok(Some(_)) => "ok".into(),
                Ok(None) => "none".into(),
                Err(_) => "other".into(),
            }
        }
        "unix" => {
            let Some(entry) = w.entry(uuid_e(a.n)).await else { return "other".into() };
            let ev = UnixUserAuthEvent { ident: Identity::from_impersonate_entry_readwrite(entry), target: uuid_e(a.n), cleartext: (if wrong { PW_BAD } else { PW_OK }).to_string() };
            let mut txn = match w.idms.auth().await {
                Ok(t) => t,
                Err(_) => return "other".into(),
            };
            let r = txn.auth_unix(&ev, d).await;
            let _ = txn.commit();
            match r {
                Ok(Some(_)) => "ok".into(),
                Ok(None) => "none".into(),
                Err(_) => "other".into(),
            }
        }
        _ => {
            // auth or reauth: obtain the first credential prompt
            let (sid, first) = if path == "reauth" {
                let Some(tok) = a.token.clone() else { return "skip".into() };
                let Some(ident) = w.ident_of(&tok, d).await else { return "skip".into() };
                let mut txn = match w.idms.auth().await {
                    Ok(t) => t,
                    Err(_) => return "other".into(),
                };
                let r = txn.reauth_init(ident, AuthIssueSession::Token, d, client_info(None), ReauthRequest::GrantReadWrite).await;
                let _ = txn.commit();
                match r {
                    Ok(ar) => match ar.state {
                        AuthState::Continue(_) => (ar.sessionid, "continue".to_string()),
                        AuthState::Denied(m) if m == LOCKED_MSG_REAUTH => return "refused".into(),
                        AuthState::Denied(m) => return format!("other:reauth denied:{m}"),
                        _ => return "other:reauth state".into(),
                    },
                    Err(e) => return format!("other:reauth {}", err_class(&e)),
                }
            } else {
                let i = w.auth_step(World::init_step(&a.name, false), d).await;
                if i.class != "choose" {
                    return "other".into();
                }
                let Some(sid) = i.sessionid else { return "other".into() };
                let mech = if a.kind == "pwtotp" { AuthMech::PasswordTotp } else { AuthMech::Password };
                let b = w.auth_step(World::begin_step(sid, mech), d).await;
                match b.class.as_str() {
                    "continue" => (sid, "continue".to_string()),
                    "denied" if b.detail.first().map(|s| s.as_str()) == Some(LOCKED_MSG) => return "refused".into(),
                    _ => return "other".into(),
                }
            };
            let _ = first;
            let mut steps: Vec<AuthCredential> = Vec::new();
            if a.kind == "pwtotp" {
                steps.push(AuthCredential::Totp(totp_code(a.step, ct, !wrong)));
                steps.push(AuthCredential::Password((if wrong_second { PW_BAD } else { PW_OK }).to_string()));
            } else {
                steps.push(AuthCredential::Password((if wrong { PW_BAD } else { PW_OK }).to_string()));
            }
            for c in steps {
                let r = w.auth_step(World::cred_step(sid, c), d).await;
                match r.class.as_str() {
                    "continue" => continue,
                    "success" => {
                        if path == "auth" {
                            a.token = r.token.clone();
                        }
                        let kinds = w.drain_delayed(d).await;
                        if kinds.iter().any(|k| k.ends_with(":err")) {
                            eprintln!("NOTE delayed action failed at {ct}: {kinds:?}");
                        }
                        return "ok".into();
                    }
                    "denied" => {
                        let m = r.detail.first().cloned().unwrap_or_default();
                        return if m == LOCKED_MSG { "refused".into() } else { "fail".into() };
                    }
                    _ => return "other".into(),
                }
            }
            "other".into()
        }
    }
}

async fn server_history(tr: &mut Tracer, w: &mut World, rng: &mut Rng, n: u64, len: u64, script: Option<&J>) -> bool {
    // account + credential
    let kind: &'static str = match script.map(|s| s["kind"].as_str().unwrap_or("pw").to_string()).unwrap_or_else(|| rng.pick(&["pw", "pw", "pwtotp", "unix"]).to_string()).as_str() {
        "pwtotp" => "pwtotp",
        "unix" => "unix",
        _ => "pw",
    };
    let step = 30u64;
    let name = format!("sl{n}");
    // histories share one server: simulated time never goes backwards across them (a server whose
    // clock is ahead expires the session records of "earlier" logins, which breaks reauth)
    let base = CLOCK.load(std::sync::atomic::Ordering::Relaxed);
    let first_ct = script.and_then(|s| s["evs"].as_array().and_then(|a| a.first().and_then(|e| e["ct"].as_u64())));
    let ct0 = std::time::Duration::from_secs(first_ct.map(|c| c - 5).unwrap_or(base + 5));
    if w.create(vec![World::person(n, &name, kind == "unix")], ct0).await.is_err() {
        return false;
    }
    let pol = kanidm_lib_crypto::CryptoPolicy::danger_test_minimum();
    let totp = if kind == "pwtotp" { Some(ka::totp_new(TOTP_SECRET.to_vec(), step, "sha256", 6)) } else { None };
    let Ok(cred) = ka::cred_build(&pol, PW_OK, totp, None, ct0) else { return false };
    let cred_id = ka::cred_uuid(&cred);
    let ok = if kind == "unix" { w.set_unix(uuid_e(n), cred, ct0).await } else { w.set_primary(uuid_e(n), cred, ct0).await };
    if ok.is_err() {
        return false;
    }
    let mut a = Acct { n, name, kind, cred: cred_id, step, token: None };
    let (polname, win) = if kind == "pwtotp" { ("totp", step) } else { ("password", DAY) };
    // events: generated (seeded) or scripted (replay)
    let scripted: Option<Vec<J>> = script.map(|s| s["evs"].as_array().cloned().unwrap_or_default());
    let admin = rng.chance(1, 4);
    let mut now = base + 10 + rng.below(1000);
    if rng.chance(1, 3) {
        now = (now / win + 1) * win - rng.range(1, 12);
    }
    let mut exp: i64 = -1;
    let mut lines: Vec<J> = Vec::new();
    let mut evs: Vec<J> = Vec::new();
    let total = scripted.as_ref().map(|v| v.len() as u64).unwrap_or(len);
    for i in 0..total {
        let p = ka::server_softlock(&w.idms, a.cred).await;
        let ev = if let Some(sc) = &scripted {
            sc[i as usize].clone()
        } else {
            let mut cands = vec![now, now + 1, now + rng.range(1, 15)];
            if let Some(p) = &p {
                if p.kind == "locked" {
                    cands.extend([p.unlock_at, p.unlock_at + 1, p.unlock_at + 1, p.unlock_at + 1]);
                }
                if p.kind != "init" && rng.chance(1, 8) {
                    cands.extend([p.reset_at, p.reset_at + 1]);
                }
            }
            let cands: Vec<u64> = cands.into_iter().filter(|c| *c >= now).collect();
            let ct = *rng.pick(&cands);
            if admin && rng.chance(1, 10) {
                json!({"e": "admin", "ct": ct, "exp": *rng.pick(&[ct as i64 - 1, ct as i64 + 500, ct as i64 - 5000])})
            } else {
                let path = if kind == "unix" { "unix" } else if a.token.is_some() && rng.chance(1, 3) { "reauth" } else { "auth" };
                let wrong = rng.chance(4, 5);
                // pwtotp: a wrong attempt is either a wrong code, or a right code then a wrong password
                let wrong_totp = wrong && rng.chance(1, 2);
                json!({"e": "attempt", "path": path, "ct": ct, "wrong": wrong as u8, "wt": wrong_totp as u8})
            }
        };
        let ct = ev["ct"].as_u64().unwrap_or(now);
        now = ct;
        evs.push(ev.clone());
        if ev["e"] == "admin" {
            exp = ev["exp"].as_i64().unwrap_or(-1);
            let v = Value::new_datetime_epoch(std::time::Duration::from_secs(exp as u64));
            if w.modify(uuid_e(n), ModifyList::new_purge_and_set(Attribute::AccountSoftlockExpire, v), std::time::Duration::from_secs(ct)).await.is_err() {
                return false;
            }
            continue;
        }
        let path = ev["path"].as_str().unwrap_or("auth").to_string();
        let wrong = ev["wrong"] == 1;
        let (w1, w2) = if kind == "pwtotp" { (wrong && ev["wt"] == 1, wrong && ev["wt"] != 1) } else { (wrong, false) };
        let res = server_attempt(w, &mut a, &path, ct, w1, w2).await;
        if res == "skip" {
            continue;
        }
        // an answer the driver does not classify (refused for a reason other than the lock) is data:
        // it is logged as "refused" with a note and judged like any refusal
        let other = res.starts_with("other");
        let note = if other { res.clone() } else { String::new() };
        let res = if other { "refused".to_string() } else { res };
        let after = ka::server_softlock(&w.idms, a.cred).await;
        let valid = after.as_ref().map(|p| p.valid).unwrap_or(true);
        lines.push(json!({"a": "attempt", "path": path, "ct": ct, "exp": exp, "wrong": wrong as u8, "res": res, "other": other as u8, "note": note, "v": valid as u8, "st": st_json(&after)}));
    }
    CLOCK.store(now + 2000, std::sync::atomic::Ordering::Relaxed);
    tr.emit(&json!({"a": "reset", "pol": polname, "w": win, "proto": 1, "server": 1, "kind": kind, "evs": evs, "st": st_json(&None)}));
    for l in &lines {
        tr.emit(l);
    }
    true
}

/// Model-generated interleavings of entry paths on ONE credential (KAuthSoftLockPaths): accounts
/// without a POSIX password whose primary credential is password / password+TOTP, with or without
/// primary-credential fallback; the first event is the first use of the credential since the
/// server started.
async fn paths_histories(tr: &mut Tracer, behaviours: &[J]) -> bool {
    let mut w = World::new().await;
    let t0 = std::time::Duration::from_secs(T0 + 5);
    if w.modify(UUID_DOMAIN_INFO, ModifyList::new_purge_and_set(Attribute::LdapAllowUnixPwBind, Value::Bool(true)), t0).await.is_err() {
        return false;
    }
    let pol = kanidm_lib_crypto::CryptoPolicy::danger_test_minimum();
    let step = 30u64;
    let mut es: Vec<EntryInitNew> = Vec::new();
    let mut creds: Vec<Uuid> = Vec::new();
    let mut fbgroup = EntryInitNew::new();
    fbgroup.add_ava(Attribute::Class, EntryClass::Object.to_value());
    fbgroup.add_ava(Attribute::Class, EntryClass::Group.to_value());
    fbgroup.add_ava(Attribute::Class, EntryClass::AccountPolicy.to_value());
    fbgroup.add_ava(Attribute::Name, Value::new_iname("verif_fallback_on"));
    fbgroup.add_ava(Attribute::Uuid, Value::Uuid(uuid_e(2999)));
    fbgroup.add_ava(Attribute::AllowPrimaryCredFallback, Value::new_bool(true));
    for (j, b) in behaviours.iter().enumerate() {
        let n = 3000 + j as u64;
        let kind = b["kind"].as_str().unwrap_or("pw");
        let totp = if kind == "pwtotp" { Some(ka::totp_new(TOTP_SECRET.to_vec(), step, "sha256", 6)) } else { None };
        let Ok(cred) = ka::cred_build(&pol, PW_OK, totp, None, t0) else { return false };
        creds.push(ka::cred_uuid(&cred));
        let mut e = World::person(n, &format!("sp{n}"), true);
        e.add_ava(Attribute::PrimaryCredential, Value::new_credential("primary", cred));
        es.push(e);
        if b["fb"] == 1 {
            fbgroup.add_ava(Attribute::Member, Value::Refer(uuid_e(n)));
        }
    }
    es.push(fbgroup);
    for chunk in es.chunks(300) {
        if let Err(e) = w.create(chunk.to_vec(), t0).await {
            eprintln!("TOOL-ERROR cannot create path-history accounts: {e:?}");
            return false;
        }
    }
    for (j, b) in behaviours.iter().enumerate() {
        let n = 3000 + j as u64;
        let kind: &'static str = if b["kind"] == "pwtotp" { "pwtotp" } else { "pw" };
        let mut a = Acct { n, name: format!("sp{n}"), kind, cred: creds[j], step, token: None };
        // shift by whole days: keeps every model time aligned with UTC days and TOTP steps
        let shift = DAY * (j as u64 + 1);
        let evs = b["evs"].as_array().cloned().unwrap_or_default();
        let (polname, win) = if kind == "pwtotp" { ("totp", step) } else { ("password", DAY) };
        tr.emit(&json!({"a": "reset", "pol": polname, "w": win, "ckind": kind, "fb": b["fb"], "proto": 1, "server": 1, "paths": 1,
                        "kind": kind, "evs": evs, "st": st_json(&None)}));
        for (i, ev) in evs.iter().enumerate() {
            let path = ev["path"].as_str().unwrap_or("auth").to_string();
            let wrong = ev["wrong"] == 1;
            let ct = ev["ct"].as_u64().unwrap_or(T0) + shift;
            // password+TOTP through the web path: a wrong guess is alternately a wrong code, or a right code and a wrong password
            let (w1, w2) = if kind == "pwtotp" && path == "auth" { (wrong && i % 2 == 0, wrong && i % 2 == 1) } else { (wrong, false) };
            let res = server_attempt(&mut w, &mut a, &path, ct, w1, w2).await;
            let other = res.starts_with("other");
            let note = if other { res.clone() } else { String::new() };
            let res = if other { "refused".to_string() } else { res };
            let after = ka::server_softlock(&w.idms, a.cred).await;
            let valid = after.as_ref().map(|p| p.valid).unwrap_or(true);
            tr.emit(&json!({"a": "attempt", "path": path, "ct": ct, "exp": -1, "wrong": wrong as u8, "res": res, "other": other as u8, "note": note,
                            "v": valid as u8, "st": st_json(&after)}));
        }
    }
    true
}

pub fn run(o: &Opts) -> i32 {
    let out = o.str("out", "/verif/work/C28/obs.ndjson");
    let mut tr = Tracer::create(&out);
    let mut rng = Rng::new(o.seed());
    if let Some(rp) = o.get("replay") {
        // a replay file holds reset lines (with the whole event list) possibly followed by the
        // observed lines: re-execute every reset line's history
        let rt = runtime();
        let mut n = 100;
        for r in read_ndjson(rp) {
            if r["a"] != "reset" {
                continue;
            }
            if r["paths"] == 1 {
                let b = json!({"kind": r["ckind"], "fb": r["fb"], "evs": r["evs"]});
                if !rt.block_on(paths_histories(&mut tr, &[b])) {
                    return 2;
                }
            } else if r["server"] == 1 {
                n += 1;
                let ok = rt.block_on(async {
                    let mut w = World::new().await;
                    server_history(&mut tr, &mut w, &mut rng, n, 0, Some(&r)).await
                });
                if !ok {
                    return 2;
                }
            } else if !run_behaviour(&mut tr, &r) {
                return 2;
            }
        }
        println!("OBSERVED lines={} out={out}", tr.finish());
        return 0;
    }
    if let Some(pf) = o.get("paths") {
        let bs = read_ndjson(pf);
        let rt = runtime();
        if !rt.block_on(paths_histories(&mut tr, &bs)) {
            eprintln!("TOOL-ERROR path histories failed");
            return 2;
        }
    }
    if let Some(bf) = o.get("behaviours") {
        for b in read_ndjson(bf) {
            if !run_behaviour(&mut tr, &b) {
                eprintln!("TOOL-ERROR cannot project CredSoftLock (Debug format changed?)");
                return 2;
            }
        }
    }
    for _ in 0..o.u64("random", 0) {
        if !random_history(&mut tr, &mut rng, o.u64("len", 400)) {
            eprintln!("TOOL-ERROR cannot project CredSoftLock (Debug format changed?)");
            return 2;
        }
    }
    let ns = o.u64("server", 0);
    if ns > 0 {
        let rt = runtime();
        let ok = rt.block_on(async {
            let mut w = World::new().await;
            for i in 0..ns {
                // the first three histories are fixed: one per credential kind, long enough to cross 3 / 9 / 25
                let script_kind = match i {
                    0 => Some("pw"),
                    1 => Some("pwtotp"),
                    2 => Some("unix"),
                    _ => None,
                };
                let len = o.u64("slen", 60);
                let ok = match script_kind {
                    Some(k) => {
                        // not a script of events: only fixes the kind
                        let mut r2 = Rng::new(o.seed() * 1000 + i);
                        let forced = json!({"kind": k});
                        server_history_kind(&mut tr, &mut w, &mut r2, 200 + i, len, forced["kind"].as_str().unwrap_or("pw")).await
                    }
                    None => server_history(&mut tr, &mut w, &mut rng, 200 + i, len, None).await,
                };
                if !ok {
                    return false;
                }
            }
            true
        });
        if !ok {
            return 2;
        }
    }
    println!("OBSERVED lines={} out={out}", tr.finish());
    0
}

async fn server_history_kind(tr: &mut Tracer, w: &mut World, rng: &mut Rng, n: u64, len: u64, kind: &str) -> bool {
    // draw until the generator's first choice is the wanted kind (keeps one code path)
    loop {
        let mut probe = rng.clone();
        let k = *probe.pick(&["pw", "pw", "pwtotp", "unix"]);
        if k == kind {
            return server_history(tr, w, rng, n, len, None).await;
        }
        rng.next();
    }
}
