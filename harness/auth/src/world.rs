//! Shared driver for the auth group: a REAL IdmServer over an in-memory QueryServer, simulated
//! time passed as `ct` to every call, the delayed-action queue drained and applied as the server's
//! own task does (one write transaction per action).
#![allow(dead_code)]
use compact_jwt::JwsCompact;
use futures::FutureExt;
use kanidm_proto::v1::{AuthAllowed, AuthIssueSession, AuthMech};
use kanidmd_lib::credential::Credential;
use kanidmd_lib::idm::authentication::{AuthCredential, AuthState};
use kanidmd_lib::idm::delayed::DelayedAction;
use kanidmd_lib::idm::event::{AuthEvent, AuthEventStep, AuthEventStepCred, AuthEventStepInit, AuthEventStepMech};
use kanidmd_lib::prelude::*;
use kvc::srv::*;
use std::sync::Arc;

pub struct World {
    pub idms: IdmServer,
    pub delayed: IdmServerDelayed,
    pub audit: IdmServerAudit,
}

/// Result of one `IdmServerAuthTransaction::auth` step, as the trace specs see it.
#[derive(Debug, Clone)]
pub struct StepOut {
    pub class: String, // choose | continue | denied | success | external | err:<Kind>
    pub detail: Vec<String>,
    pub sessionid: Option<Uuid>,
    pub token: Option<JwsCompact>,
}

pub fn err_class<T: std::fmt::Debug>(e: &T) -> String {
    let s = format!("{e:?}");
    let head: String = s.chars().take_while(|c| c.is_ascii_alphanumeric()).collect();
    format!("err:{head}")
}

pub fn client_info(tok: Option<JwsCompact>) -> ClientAuthInfo {
    ClientAuthInfo::new(Source::Internal, None, tok, None)
}

impl World {
    pub async fn new() -> Self {
        let qs = new_qs(t(0)).await;
        let (idms, delayed, audit) = new_idms(qs, t(0)).await;
        World { idms, delayed, audit }
    }

    pub async fn modify(&self, uuid: Uuid, ml: ModifyList<ModifyInvalid>, ct: Duration) -> Result<(), OperationError> {
        let mut w = self.idms.proxy_write(ct).await?;
        w.qs_write.internal_modify_uuid(uuid, &ml)?;
        w.commit()
    }

    pub async fn create(&self, es: Vec<EntryInitNew>, ct: Duration) -> Result<(), OperationError> {
        let mut w = self.idms.proxy_write(ct).await?;
        w.qs_write.internal_create(es)?;
        w.commit()
    }

    pub fn person(n: u64, name: &str, posix: bool) -> EntryInitNew {
        let mut e = EntryInitNew::new();
        e.add_ava(Attribute::Class, EntryClass::Object.to_value());
        e.add_ava(Attribute::Class, EntryClass::Account.to_value());
        e.add_ava(Attribute::Class, EntryClass::Person.to_value());
        if posix {
            e.add_ava(Attribute::Class, EntryClass::PosixAccount.to_value());
        }
        e.add_ava(Attribute::Name, Value::new_iname(name));
        e.add_ava(Attribute::Uuid, Value::Uuid(uuid_e(n)));
        e.add_ava(Attribute::Description, Value::new_utf8s(name));
        e.add_ava(Attribute::DisplayName, Value::new_utf8s(name));
        e
    }

    pub async fn set_primary(&self, uuid: Uuid, cred: Credential, ct: Duration) -> Result<(), OperationError> {
        self.modify(uuid, ModifyList::new_purge_and_set(Attribute::PrimaryCredential, Value::new_credential("primary", cred)), ct).await
    }
    pub async fn set_unix(&self, uuid: Uuid, cred: Credential, ct: Duration) -> Result<(), OperationError> {
        self.modify(uuid, ModifyList::new_purge_and_set(Attribute::UnixPassword, Value::new_credential("unix", cred)), ct).await
    }

    pub async fn entry(&self, uuid: Uuid) -> Option<Arc<EntrySealedCommitted>> {
        let mut r = self.idms.proxy_read().await.ok()?;
        r.qs_read.internal_search_uuid(uuid).ok()
    }

    /// Drain the delayed-action queue and apply every action in its own write transaction at `ct`,
    /// as `kanidmd`'s delayed-action task does. Returns the kinds applied.
    pub async fn drain_delayed(&mut self, ct: Duration) -> Vec<String> {
        let mut kinds = Vec::new();
        loop {
            let mut buf: Vec<DelayedAction> = Vec::with_capacity(16);
            // `unconstrained`: tokio's cooperative budget must not make a non-empty queue look empty
            // (this driver runs as one never-yielding task, so the budget can be exhausted here)
            let n = tokio::task::unconstrained(self.delayed.recv_many(&mut buf)).now_or_never().unwrap_or(0);
            if n == 0 {
                break;
            }
            for da in buf {
                let kind = match &da {
                    DelayedAction::PwUpgrade(_) => "pwupgrade",
                    DelayedAction::UnixPwUpgrade(_) => "unixpwupgrade",
                    DelayedAction::WebauthnCounterIncrement(_) => "wancounter",
                    DelayedAction::BackupCodeRemoval(_) => "backupcoderemoval",
                    DelayedAction::AuthSessionRecord(_) => "authsessionrecord",
                };
                let ok = match self.idms.proxy_write(ct).await {
                    Ok(mut w) => w.process_delayedaction(&da, ct).and_then(|_| w.commit()).is_ok(),
                    Err(_) => false,
                };
                kinds.push(format!("{kind}:{}", if ok { "ok" } else { "err" }));
            }
        }
        // the audit queue is not judged: just keep it from growing
        while self.audit.audit_rx().try_recv().is_ok() {}
        kinds
    }

    /// One auth step in its own auth transaction (as one HTTP request does).
    pub async fn auth_step(&self, step: AuthEventStep, ct: Duration) -> StepOut {
        let mut a = match self.idms.auth().await {
            Ok(a) => a,
            Err(e) => return StepOut { class: err_class(&e), detail: vec![], sessionid: None, token: None },
        };
        let ae = AuthEvent { ident: None, step };
        let r = a.auth(&ae, ct, client_info(None)).await;
        let out = match r {
            Ok(ar) => {
                let sid = Some(ar.sessionid);
                match ar.state {
                    AuthState::Choose(m) => StepOut { class: "choose".into(), detail: m.iter().map(mech_name).collect(), sessionid: sid, token: None },
                    AuthState::Continue(al) => StepOut { class: "continue".into(), detail: al.iter().map(allowed_name).collect(), sessionid: sid, token: None },
                    AuthState::External(_) => StepOut { class: "external".into(), detail: vec![], sessionid: sid, token: None },
                    AuthState::Denied(reason) => StepOut { class: "denied".into(), detail: vec![reason], sessionid: sid, token: None },
                    AuthState::Success(tok, _) => StepOut { class: "success".into(), detail: vec![], sessionid: sid, token: Some(*tok) },
                }
            }
            Err(e) => StepOut { class: err_class(&e), detail: vec![], sessionid: None, token: None },
        };
        let _ = a.commit();
        out
    }

    /// as `auth_step`, a panic inside kanidm becomes the result class "panic"
    pub async fn auth_step_nopanic(&self, step: AuthEventStep, ct: Duration) -> StepOut {
        match std::panic::AssertUnwindSafe(self.auth_step(step, ct)).catch_unwind().await {
            Ok(o) => o,
            Err(_) => StepOut { class: "panic".into(), detail: vec![], sessionid: None, token: None },
        }
    }

    pub fn init_step(name: &str, privileged: bool) -> AuthEventStep {
        AuthEventStep::Init(AuthEventStepInit { username: name.to_string(), issue: AuthIssueSession::Token, privileged })
    }
    pub fn begin_step(sid: Uuid, mech: AuthMech) -> AuthEventStep {
        AuthEventStep::Begin(AuthEventStepMech { sessionid: sid, mech })
    }
    pub fn cred_step(sid: Uuid, cred: AuthCredential) -> AuthEventStep {
        AuthEventStep::Cred(AuthEventStepCred { sessionid: sid, cred })
    }

    /// Identity of a bearer token at `ct` (None if the token is not accepted).
    pub async fn ident_of(&self, tok: &JwsCompact, ct: Duration) -> Option<Identity> {
        use kanidmd_lib::idm::server::IdmServerTransaction;
        let mut r = self.idms.proxy_read().await.ok()?;
        r.validate_client_auth_info_to_ident(client_info(Some(tok.clone())), ct).ok()
    }
}

pub fn mech_name(m: &AuthMech) -> String {
    match m {
        AuthMech::Anonymous => "anonymous",
        AuthMech::Password => "password",
        AuthMech::PasswordTotp => "passwordtotp",
        AuthMech::PasswordBackupCode => "passwordbackupcode",
        AuthMech::PasswordSecurityKey => "passwordsecuritykey",
        AuthMech::Passkey => "passkey",
        AuthMech::OAuth2Trust => "oauth2trust",
    }
    .to_string()
}

pub fn allowed_name(a: &AuthAllowed) -> String {
    match a {
        AuthAllowed::Anonymous => "anonymous",
        AuthAllowed::BackupCode => "backupcode",
        AuthAllowed::Password => "password",
        AuthAllowed::Totp => "totp",
        AuthAllowed::SecurityKey(_) => "securitykey",
        AuthAllowed::Passkey(_) => "passkey",
    }
    .to_string()
}
