//! Group driver `auth` (C27 C28 C29 C31 C35 C37): runs the REAL kanidm code and records observed
//! traces (ndjson) which TLC validates against the TLA+ specifications in /verif/spec.
use kvc::util::Opts;
mod c27;
mod c28;
mod c29;
mod c31;
mod c35;
mod c37;
mod ca_data;
mod world;

fn main() {
    let args: Vec<String> = std::env::args().collect();
    if args.len() < 2 {
        eprintln!("usage: {} <subcommand> [--key value ...]", args[0]);
        std::process::exit(2);
    }
    let opts = Opts::parse(&args[2..]);
    let rc = match args[1].as_str() {
        "c27" => c27::run(&opts),
        "c28" => c28::run(&opts),
        "c29" => c29::run(&opts),
        "c31" => c31::run(&opts),
        "c35" => c35::run(&opts),
        "c37" => c37::run(&opts),
        other => {
            eprintln!("unknown subcommand {other}");
            2
        }
    };
    std::process::exit(rc);
}
