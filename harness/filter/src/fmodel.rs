//! Shared by c01 / c02 / c41: the bijection between the KFilter model alphabet and concrete kanidm
//! values, filter JSON <-> real filters, a real server with the two model attributes, populations.
use kanidmd_lib::filter::{Filter, FilterInvalid, FilterResolved, FC};
use kanidmd_lib::prelude::*;
use kanidmd_lib::value::IndexType;
use kanidmd_lib::verif::filter as kvf;
use kvc::srv::*;
use kvc::util::*;
use serde_json::{json, Value as J};
use std::collections::BTreeMap;

// The schema of the target domain level is fixed in memory (schema entries are no longer loaded), so the
// model attributes are SHIPPED attributes carried by extensibleobject entries:
pub const ATTR_A: &str = "denied_name"; // model "a": multi-valued iname strings (eq / pres / sub indexes)
pub const ATTR_B: &str = "auth_password_minimum_length"; // model "b": uint32 (eq / pres / ord indexes), SINGLE valued:
                                             // the shipped schema has no multi-valued ordered attribute
/// model value id -> string (KFilter.tla StrOf: 1="abx" 2="xab"); index 0 unused
pub const STRS: [&str; 3] = ["", "abx", "xab"];
/// model needle id -> string (KFilter.tla NeedleOf: 0="ab" 1="bx" 2="xa")
pub const NEEDLES: [&str; 3] = ["ab", "bx", "xa"];
pub const V_OBJECT: u64 = 90;
pub const V_RECYCLED: u64 = 91;
pub const V_TOMBSTONE: u64 = 92;

pub fn tool_error(msg: &str) -> ! {
    eprintln!("TOOL-ERROR {msg}");
    std::process::exit(2)
}

/// The TLA+ module fixes the character strings behind value / needle ids and their order; make sure
/// the concrete strings used here are the same objects (checked against the char encoding a=1 b=2 x=3).
pub fn check_tables() {
    let enc = |s: &str| -> Vec<u8> {
        s.chars()
            .map(|c| match c {
                'a' => 1,
                'b' => 2,
                'x' => 3,
                _ => 9,
            })
            .collect()
    };
    let ok = enc(STRS[1]) == vec![1, 2, 3]
        && enc(STRS[2]) == vec![3, 1, 2]
        && enc(NEEDLES[0]) == vec![1, 2]
        && enc(NEEDLES[1]) == vec![2, 3]
        && enc(NEEDLES[2]) == vec![3, 1]
        && STRS[1] < STRS[2]
        && NEEDLES[0] < NEEDLES[1]
        && NEEDLES[1] < NEEDLES[2];
    if !ok {
        tool_error("string tables disagree with KFilter.tla");
    }
}

pub fn attr(m: &str) -> Attribute {
    match m {
        "a" => Attribute::from(ATTR_A),
        "b" => Attribute::from(ATTR_B),
        "class" => Attribute::Class,
        "uuid" => Attribute::Uuid,
        o => Attribute::from(o),
    }
}
pub fn model_attr(a: &Attribute) -> String {
    match a.as_str() {
        ATTR_A => "a".into(),
        ATTR_B => "b".into(),
        o => o.to_string(),
    }
}
pub fn managed_attrs() -> Vec<Attribute> {
    vec![attr("a"), attr("b")]
}
pub fn itype(s: &str) -> IndexType {
    kvf::itype_from(s).unwrap_or_else(|| tool_error("bad index type"))
}

/// model value -> PartialValue for an equality / ordering term
pub fn pv_value(a: &str, v: u64) -> PartialValue {
    match a {
        "a" => PartialValue::new_iname(STRS.get(v as usize).copied().unwrap_or("zzz")),
        "b" => PartialValue::Uint32(v as u32),
        "class" => PartialValue::new_iutf8(if v == V_TOMBSTONE { "tombstone" } else { "recycled" }),
        "uuid" => PartialValue::Uuid(uuid_e(v)),
        _ => PartialValue::new_iutf8("x"),
    }
}
/// model needle -> PartialValue for a substring term (on "b" there is no string form: use the number)
pub fn pv_needle(a: &str, n: u64) -> PartialValue {
    match a {
        "a" => PartialValue::new_iname(NEEDLES.get(n as usize).copied().unwrap_or("zzz")),
        _ => pv_value(a, n),
    }
}

fn jstr<'a>(j: &'a J, k: &str) -> Result<&'a str, String> {
    j.get(k).and_then(|x| x.as_str()).ok_or_else(|| format!("missing {k}"))
}
fn ju64(j: &J, k: &str) -> Result<u64, String> {
    j.get(k).and_then(|x| x.as_u64()).ok_or_else(|| format!("missing {k}"))
}

/// model filter JSON -> kanidm FC
pub fn fc_from_json(j: &J) -> Result<FC, String> {
    let k = jstr(j, "k")?;
    Ok(match k {
        "eq" => FC::Eq(attr(jstr(j, "a")?), pv_value(jstr(j, "a")?, ju64(j, "v")?)),
        "pres" => FC::Pres(attr(jstr(j, "a")?)),
        "sub" => FC::Cnt(attr(jstr(j, "a")?), pv_needle(jstr(j, "a")?, ju64(j, "v")?)),
        "lt" => FC::LessThan(attr(jstr(j, "a")?), pv_value(jstr(j, "a")?, ju64(j, "v")?)),
        "inv" => FC::Invalid(attr(jstr(j, "a")?)),
        "self" => FC::SelfUuid,
        "and" | "or" => {
            let fs = j.get("fs").and_then(|x| x.as_array()).ok_or("missing fs")?;
            let v: Result<Vec<FC>, String> = fs.iter().map(fc_from_json).collect();
            if k == "and" {
                FC::And(v?)
            } else {
                FC::Or(v?)
            }
        }
        "not" => FC::AndNot(Box::new(fc_from_json(j.get("f").ok_or("missing f")?)?)),
        o => return Err(format!("unknown filter kind {o}")),
    })
}

/// Build the filter the way production code does: `filter!` (ignore-hidden wrapper) or `filter_all!`.
pub fn filter_from_json(j: &J, wrap: bool) -> Result<Filter<FilterInvalid>, String> {
    let fc = fc_from_json(j)?;
    Ok(if wrap { Filter::new_ignore_hidden(fc) } else { Filter::new(fc) })
}

fn pv_model(a: &Attribute, pv: &PartialValue, needle: bool) -> J {
    match pv {
        PartialValue::Iname(s) => {
            let tab: &[&str] = if needle { &NEEDLES } else { &STRS };
            match tab.iter().position(|x| *x == s.as_str() && !x.is_empty()) {
                Some(i) => json!(i),
                None => json!(-1),
            }
        }
        PartialValue::Uint32(n) => json!(n),
        PartialValue::Iutf8(s) if a == &Attribute::Class => match s.as_str() {
            "recycled" => json!(V_RECYCLED),
            "tombstone" => json!(V_TOMBSTONE),
            _ => json!(-1),
        },
        PartialValue::Uuid(u) => {
            let n = name_of(*u);
            // a uuid outside the model population (e.g. the internal identity resolving Self) is "nobody" = 0
            match n.strip_prefix('e').and_then(|x| x.parse::<u64>().ok()) {
                Some(i) => json!(i),
                None => json!(0),
            }
        }
        _ => json!(-1),
    }
}

/// Real resolved filter -> the model's resolved-filter JSON (slope 0 = None).
pub fn resolved_to_json(fr: &FilterResolved) -> J {
    let sl = |s: &Option<std::num::NonZeroU8>| s.map(|x| x.get()).unwrap_or(0);
    match fr {
        FilterResolved::Eq(a, v, s) => json!({"k":"eq","a":model_attr(a),"v":pv_model(a, v, false),"s":sl(s)}),
        FilterResolved::Cnt(a, v, s) => json!({"k":"sub","a":model_attr(a),"v":pv_model(a, v, true),"s":sl(s)}),
        FilterResolved::Stw(a, v, s) => json!({"k":"stw","a":model_attr(a),"v":pv_model(a, v, true),"s":sl(s)}),
        FilterResolved::Enw(a, v, s) => json!({"k":"enw","a":model_attr(a),"v":pv_model(a, v, true),"s":sl(s)}),
        FilterResolved::Pres(a, s) => json!({"k":"pres","a":model_attr(a),"s":sl(s)}),
        FilterResolved::LessThan(a, v, s) => json!({"k":"lt","a":model_attr(a),"v":pv_model(a, v, false),"s":sl(s)}),
        FilterResolved::Or(l, s) => json!({"k":"or","fs":l.iter().map(resolved_to_json).collect::<Vec<_>>(),"s":sl(s)}),
        FilterResolved::And(l, s) => json!({"k":"and","fs":l.iter().map(resolved_to_json).collect::<Vec<_>>(),"s":sl(s)}),
        FilterResolved::Inclusion(l, s) => json!({"k":"inc","fs":l.iter().map(resolved_to_json).collect::<Vec<_>>(),"s":sl(s)}),
        FilterResolved::AndNot(f, s) => json!({"k":"not","f":resolved_to_json(f),"s":sl(s)}),
        FilterResolved::Invalid(a) => json!({"k":"inv","a":model_attr(a),"s":1}),
    }
}

/// One model entry: value ids of a, of b, recycled?
#[derive(Clone, Debug, PartialEq)]
pub struct Shape {
    pub a: Vec<u64>,
    pub b: Vec<u64>,
    pub recycled: bool,
}
impl Shape {
    pub fn from_json(j: &J) -> Shape {
        let l = |k: &str| -> Vec<u64> {
            j.get(k).and_then(|x| x.as_array()).map(|v| v.iter().filter_map(|x| x.as_u64()).collect()).unwrap_or_default()
        };
        Shape { a: l("a"), b: l("b"), recycled: j.get("rc").and_then(|x| x.as_bool()).unwrap_or(false) }
    }
}
/// the 16 shapes in the order of KFilterMC.ShapeSeq (bit 1,2 of i-1: a has 1,2; bit 3,4: b has 1,2)
/// (ids 13..16 have two values of b: not constructible here, the single-valued b caps the population at 12)
pub fn full16() -> Vec<Shape> {
    (0..12u64)
        .map(|m| Shape {
            a: [1u64, 2].iter().copied().filter(|j| (m >> (j - 1)) & 1 == 1).collect(),
            b: [1u64, 2].iter().copied().filter(|j| (m >> (j + 1)) & 1 == 1).collect(),
            recycled: false,
        })
        .collect()
}

fn entry_of(n: u64, sh: &Shape) -> EntryInitNew {
    let mut e: EntryInitNew = Entry::new();
    e.add_ava(Attribute::Class, EntryClass::Object.to_value());
    e.add_ava(Attribute::Class, EntryClass::ExtensibleObject.to_value());
    e.add_ava(Attribute::Uuid, Value::Uuid(uuid_e(n)));
    for v in &sh.a {
        e.add_ava(attr("a"), Value::new_iname(STRS[*v as usize]));
    }
    for v in &sh.b {
        e.add_ava(attr("b"), Value::new_uint32(*v as u32));
    }
    e
}

/// Fresh in-memory server at the target domain level.
pub async fn new_server() -> QueryServer {
    new_qs(t(0)).await
}

/// Create model entries e1..eN with the given shapes (recycled ones are deleted afterwards, which
/// moves them to the recycle bin keeping their attributes).
pub async fn populate(qs: &QueryServer, shapes: &[Shape], at: u64) {
    let mut wr = qs.write(t(at)).await.unwrap_or_else(|_| tool_error("write txn"));
    let es: Vec<EntryInitNew> = shapes.iter().enumerate().map(|(i, s)| entry_of(i as u64 + 1, s)).collect();
    if !es.is_empty() {
        wr.internal_create(es).unwrap_or_else(|e| tool_error(&format!("populate {e:?}")));
    }
    for (i, s) in shapes.iter().enumerate() {
        if s.recycled {
            wr.internal_delete_uuid(uuid_e(i as u64 + 1)).unwrap_or_else(|e| tool_error(&format!("recycle {e:?}")));
        }
    }
    wr.commit().unwrap_or_else(|e| tool_error(&format!("populate commit {e:?}")));
}

/// Change the shape of live model entries in place (exercises incremental index maintenance).
pub async fn reshape(qs: &QueryServer, changes: &[(u64, Shape)], at: u64) {
    let mut wr = qs.write(t(at)).await.unwrap_or_else(|_| tool_error("write txn"));
    for (n, sh) in changes {
        let mut mods = vec![m_purge(attr("a")), m_purge(attr("b"))];
        for v in &sh.a {
            mods.push(m_pres(attr("a"), &Value::new_iname(STRS[*v as usize])));
        }
        for v in &sh.b {
            mods.push(m_pres(attr("b"), &Value::new_uint32(*v as u32)));
        }
        wr.internal_modify_uuid(uuid_e(*n), &ModifyList::new_list(mods))
            .unwrap_or_else(|e| tool_error(&format!("reshape {e:?}")));
    }
    wr.commit().unwrap_or_else(|e| tool_error(&format!("reshape commit {e:?}")));
}

/// Override the index layout of the model attributes; keys like "a.eq".
pub async fn set_layout(qs: &QueryServer, keys: &[String], reload_slopes: bool, at: u64) {
    let mut wr = qs.write(t(at)).await.unwrap_or_else(|_| tool_error("write txn"));
    let ks: Vec<(Attribute, IndexType)> = keys
        .iter()
        .filter_map(|k| {
            let (a, ty) = k.split_once('.')?;
            if a == "a" || a == "b" {
                Some((attr(a), itype(ty)))
            } else {
                None
            }
        })
        .collect();
    kvf::set_index_layout(&mut wr, &managed_attrs(), &ks, reload_slopes).unwrap_or_else(|e| tool_error(&format!("set layout {e:?}")));
    wr.commit().unwrap_or_else(|e| tool_error(&format!("layout commit {e:?}")));
}

/// Observed state for a `reset` line: the model population as stored (read back from the real server),
/// the number of other entries, the index metadata (with slopes) of a, b, class, uuid.
pub struct Snapshot {
    pub db: J,
    pub others: u64,
    pub idx: J,
    /// backend entry id -> model id (0 = not a model entry)
    pub idmap: BTreeMap<u64, u64>,
    #[allow(dead_code)]
    pub other_ids: Vec<u64>,
}
pub fn model_id(u: Uuid) -> Option<u64> {
    name_of(u).strip_prefix('e').and_then(|x| x.parse::<u64>().ok()).filter(|n| *n < 10_000)
}
pub fn snapshot<'a, T: QueryServerTransaction<'a>>(txn: &mut T) -> Snapshot {
    let all = search_all(txn);
    let mut db = Vec::new();
    let mut idmap = BTreeMap::new();
    let mut other_ids = Vec::new();
    for e in &all {
        match model_id(e.get_uuid()) {
            Some(n) => {
                let mut a: Vec<u64> = ava_strings(e, attr("a"))
                    .iter()
                    .map(|s| STRS.iter().position(|x| x == s).unwrap_or(99) as u64)
                    .collect();
                a.sort();
                let mut b: Vec<u64> = ava_strings(e, attr("b")).iter().filter_map(|s| s.parse().ok()).collect();
                b.sort();
                let live = liveness(e);
                // 90 = "object": every entry has a class (the repaired rewrite anchors NOT terms on pres(class))
                let class: Vec<u64> = match live {
                    "live" => vec![V_OBJECT],
                    "recycled" => vec![V_OBJECT, V_RECYCLED],
                    _ => vec![V_OBJECT, V_TOMBSTONE],
                };
                db.push(json!({"id": n, "a": a, "b": b, "class": class}));
                idmap.insert(e.get_id(), n);
            }
            None => {
                if liveness(e) != "live" || e.attribute_pres(attr("a")) || e.attribute_pres(attr("b")) {
                    tool_error("a non-model entry is not live or carries a model attribute: the 'others' block is not uniform");
                }
                idmap.insert(e.get_id(), 0);
                other_ids.push(e.get_id());
            }
        }
    }
    let lay = kvf::index_layout(txn, &[attr("a"), attr("b"), Attribute::Class, Attribute::Uuid]);
    let mut idx = serde_json::Map::new();
    for (a, ty, s) in lay {
        idx.insert(format!("{}.{}", model_attr(&Attribute::from(a.as_str())), ty), json!(s));
    }
    Snapshot { db: J::Array(db), others: other_ids.len() as u64, idx: J::Object(idx), idmap, other_ids }
}

/// Project a set of backend ids / entries to (sorted model ids, others flag 0 none / 1 all / 2 some).
pub fn project_ids(snap: &Snapshot, ids: impl Iterator<Item = u64>) -> (Vec<u64>, u64) {
    let mut m = Vec::new();
    let mut o = 0u64;
    for id in ids {
        match snap.idmap.get(&id) {
            Some(0) | None => o += 1,
            Some(n) => m.push(*n),
        }
    }
    m.sort();
    let flag = if o == 0 {
        0
    } else if o == snap.others {
        1
    } else {
        2
    };
    (m, flag)
}

/// The real `Ord for Attribute` order of the attributes the model mentions (KFilter.AttrOrder).
pub fn attr_order() -> J {
    let mut v = vec![attr("class"), attr("uuid"), attr("a"), attr("b")];
    v.sort();
    json!(v.iter().map(model_attr).collect::<Vec<_>>())
}

/// Random model filter (JSON) to `depth` / `width`.
pub fn random_filter(rng: &mut Rng, depth: u64, width: u64, allow_self: bool) -> J {
    let leaf = |rng: &mut Rng| -> J {
        match rng.below(if allow_self { 12 } else { 11 }) {
            0 | 1 => json!({"k":"eq","a":"a","v":rng.range(1, 2)}),
            2 | 3 => json!({"k":"eq","a":"b","v":rng.range(1, 2)}),
            4 => json!({"k":"pres","a":"a"}),
            5 => json!({"k":"pres","a":"b"}),
            6 | 7 => json!({"k":"lt","a":"b","v":rng.range(1, 3)}),
            8 | 9 => json!({"k":"sub","a":"a","v":rng.range(0, 2)}),
            10 => json!({"k":"inv","a": if rng.chance(1, 2) {"a"} else {"b"}}),
            _ => json!({"k":"self"}),
        }
    };
    if depth == 0 || rng.chance(1, 4) {
        return leaf(rng);
    }
    match rng.below(5) {
        0 | 1 => {
            let n = rng.range(1, width);
            json!({"k":"and","fs":(0..n).map(|_| random_filter(rng, depth - 1, width, allow_self)).collect::<Vec<_>>()})
        }
        2 | 3 => {
            let n = rng.range(1, width);
            json!({"k":"or","fs":(0..n).map(|_| random_filter(rng, depth - 1, width, allow_self)).collect::<Vec<_>>()})
        }
        _ => json!({"k":"not","f":random_filter(rng, depth - 1, width, allow_self)}),
    }
}

/// All filters of connective depth <= 1 over the full leaf alphabet (the model's D1 with LeavesFull).
pub fn depth1_filters() -> Vec<J> {
    let leaves: Vec<J> = vec![
        json!({"k":"eq","a":"a","v":1}),
        json!({"k":"eq","a":"a","v":2}),
        json!({"k":"eq","a":"b","v":1}),
        json!({"k":"eq","a":"b","v":2}),
        json!({"k":"pres","a":"a"}),
        json!({"k":"pres","a":"b"}),
        json!({"k":"lt","a":"b","v":2}),
        json!({"k":"lt","a":"b","v":3}),
        json!({"k":"sub","a":"a","v":0}),
        json!({"k":"sub","a":"a","v":1}),
        json!({"k":"inv","a":"a"}),
    ];
    let mut out = leaves.clone();
    for x in &leaves {
        out.push(json!({"k":"not","f":x}));
        out.push(json!({"k":"and","fs":[x]}));
        out.push(json!({"k":"or","fs":[x]}));
        for y in &leaves {
            out.push(json!({"k":"and","fs":[x, y]}));
            out.push(json!({"k":"or","fs":[x, y]}));
        }
    }
    out
}
