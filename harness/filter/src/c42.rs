//! C42: the REAL SCIM filter printer (Display for ScimFilter / ScimComplexFilter) and the REAL peg parser
//! (scimfilter::parse via FromStr).  Lines (judged by spec/KScimTextTrace.tla):
//!  {"a":"rt","ast":T,"text":S,"lex":b,"toks":[{t,s}],"parsed":T'|{"k":"err"},"same":b,"lim":128}
//!  {"a":"prec","toks":[{t,s}],"text":S,"parsed":T'|{"k":"err"},"lim":128}
//! T: {"k":"and"|"or","l","r"} {"k":"not","e"} {"k":"cx","a","e"} {"k":"leaf","p","op","v"} (v = JSON text of the value)
use kanidm_proto::attribute::{Attribute, SubAttribute};
use kanidm_proto::scim_v1::{AttrPath, JsonValue, ScimComplexFilter, ScimFilter};
use kvc::util::*;
use serde_json::{json, Value as J};
use std::str::FromStr;

const LIMIT: u64 = 128; // SCIM_FILTER_MAX_DEPTH (private constant; exercised from both sides below)

fn vtext(v: &JsonValue) -> String {
    serde_json::to_string(v).unwrap_or_default()
}
fn path_text(p: &AttrPath) -> String {
    p.to_string()
}

fn to_json(f: &ScimFilter) -> J {
    let leaf = |p: &AttrPath, op: &str, v: Option<&JsonValue>| json!({"k":"leaf","p":path_text(p),"op":op,"v":v.map(vtext).unwrap_or_default()});
    match f {
        ScimFilter::Or(a, b) => json!({"k":"or","l":to_json(a),"r":to_json(b)}),
        ScimFilter::And(a, b) => json!({"k":"and","l":to_json(a),"r":to_json(b)}),
        ScimFilter::Not(e) => json!({"k":"not","e":to_json(e)}),
        ScimFilter::Present(p) => leaf(p, "pr", None),
        ScimFilter::Equal(p, v) => leaf(p, "eq", Some(v)),
        ScimFilter::NotEqual(p, v) => leaf(p, "ne", Some(v)),
        ScimFilter::Contains(p, v) => leaf(p, "co", Some(v)),
        ScimFilter::StartsWith(p, v) => leaf(p, "sw", Some(v)),
        ScimFilter::EndsWith(p, v) => leaf(p, "ew", Some(v)),
        ScimFilter::Greater(p, v) => leaf(p, "gt", Some(v)),
        ScimFilter::Less(p, v) => leaf(p, "lt", Some(v)),
        ScimFilter::GreaterOrEqual(p, v) => leaf(p, "ge", Some(v)),
        ScimFilter::LessOrEqual(p, v) => leaf(p, "le", Some(v)),
        ScimFilter::Complex(a, e) => json!({"k":"cx","a":a.to_string(),"e":cto_json(e)}),
    }
}
fn cto_json(f: &ScimComplexFilter) -> J {
    let leaf = |p: &SubAttribute, op: &str, v: Option<&JsonValue>| json!({"k":"leaf","p":p.to_string(),"op":op,"v":v.map(vtext).unwrap_or_default()});
    match f {
        ScimComplexFilter::Or(a, b) => json!({"k":"or","l":cto_json(a),"r":cto_json(b)}),
        ScimComplexFilter::And(a, b) => json!({"k":"and","l":cto_json(a),"r":cto_json(b)}),
        ScimComplexFilter::Not(e) => json!({"k":"not","e":cto_json(e)}),
        ScimComplexFilter::Present(p) => leaf(p, "pr", None),
        ScimComplexFilter::Equal(p, v) => leaf(p, "eq", Some(v)),
        ScimComplexFilter::NotEqual(p, v) => leaf(p, "ne", Some(v)),
        ScimComplexFilter::Contains(p, v) => leaf(p, "co", Some(v)),
        ScimComplexFilter::StartsWith(p, v) => leaf(p, "sw", Some(v)),
        ScimComplexFilter::EndsWith(p, v) => leaf(p, "ew", Some(v)),
        ScimComplexFilter::Greater(p, v) => leaf(p, "gt", Some(v)),
        ScimComplexFilter::Less(p, v) => leaf(p, "lt", Some(v)),
        ScimComplexFilter::GreaterOrEqual(p, v) => leaf(p, "ge", Some(v)),
        ScimComplexFilter::LessOrEqual(p, v) => leaf(p, "le", Some(v)),
    }
}

const OPS: [&str; 9] = ["eq", "ne", "co", "sw", "ew", "gt", "lt", "ge", "le"];
fn mk_leaf(p: AttrPath, op: &str, v: JsonValue) -> ScimFilter {
    match op {
        "pr" => ScimFilter::Present(p),
        "eq" => ScimFilter::Equal(p, v),
        "ne" => ScimFilter::NotEqual(p, v),
        "co" => ScimFilter::Contains(p, v),
        "sw" => ScimFilter::StartsWith(p, v),
        "ew" => ScimFilter::EndsWith(p, v),
        "gt" => ScimFilter::Greater(p, v),
        "lt" => ScimFilter::Less(p, v),
        "ge" => ScimFilter::GreaterOrEqual(p, v),
        _ => ScimFilter::LessOrEqual(p, v),
    }
}
fn mk_cleaf(p: SubAttribute, op: &str, v: JsonValue) -> ScimComplexFilter {
    match op {
        "pr" => ScimComplexFilter::Present(p),
        "eq" => ScimComplexFilter::Equal(p, v),
        "ne" => ScimComplexFilter::NotEqual(p, v),
        "co" => ScimComplexFilter::Contains(p, v),
        "sw" => ScimComplexFilter::StartsWith(p, v),
        "ew" => ScimComplexFilter::EndsWith(p, v),
        "gt" => ScimComplexFilter::Greater(p, v),
        "lt" => ScimComplexFilter::Less(p, v),
        "ge" => ScimComplexFilter::GreaterOrEqual(p, v),
        _ => ScimComplexFilter::LessOrEqual(p, v),
    }
}

// attribute names: known, custom, mixed case, digits / '-' / '_', and names equal to grammar keywords
const NAMES: [&str; 14] = ["name", "mail", "displayname", "x", "userName", "B", "a-b_9", "Z9-", "and", "or", "not", "pr", "eq", "notes"];
const SAFE_NAMES: [&str; 6] = ["name", "mail", "x", "userName", "a-b_9", "notes"];

/// scalar values; `safe` = its JSON text has no space, bracket or parenthesis (the dumb lexer can split it)
fn rand_value(rng: &mut Rng, safe: bool) -> JsonValue {
    let strs_safe = ["", "a", "bob", "a\"b", "back\\slash", "tab\there", "uni\u{00e9}\u{4e16}", "nul\u{0000}l", "x\"", "\\"];
    let strs_any = ["with space", "(paren)", "a) or (b pr", "[br]", "new\nline", " lead", "a and b", "q\" )", "]",
                    "dir C:\\tmp\\", "x \\", "(\\\\", "\" \\"];
    match rng.below(8) {
        0 => json!(rng.below(1000)),
        1 => json!(-(rng.below(100000) as i64)),
        2 => [json!(1.5), json!(-0.25), json!(1e300), json!(1.0), json!(6.02e-23), json!(u64::MAX), json!(i64::MIN)][rng.below(7) as usize].clone(),
        3 => json!(rng.chance(1, 2)),
        4 => JsonValue::Null,
        _ => {
            if safe || rng.chance(1, 2) {
                json!(*rng.pick(&strs_safe))
            } else {
                json!(*rng.pick(&strs_any))
            }
        }
    }
}
fn rand_path(rng: &mut Rng, safe: bool) -> AttrPath {
    let n: &[&str] = if safe { &SAFE_NAMES } else { &NAMES };
    let a = Attribute::from(*rng.pick(n));
    let s = if rng.chance(1, 3) { Some(SubAttribute::from(*rng.pick(n))) } else { None };
    AttrPath { a, s }
}
fn rand_cfilter(rng: &mut Rng, depth: u64, safe: bool) -> ScimComplexFilter {
    if depth == 0 || rng.chance(1, 3) {
        let n: &[&str] = if safe { &SAFE_NAMES } else { &NAMES };
        let p = SubAttribute::from(*rng.pick(n));
        return if rng.chance(1, 5) { mk_cleaf(p, "pr", JsonValue::Null) } else { mk_cleaf(p, rng.pick(&OPS), rand_value(rng, safe)) };
    }
    match rng.below(3) {
        0 => ScimComplexFilter::And(Box::new(rand_cfilter(rng, depth - 1, safe)), Box::new(rand_cfilter(rng, depth - 1, safe))),
        1 => ScimComplexFilter::Or(Box::new(rand_cfilter(rng, depth - 1, safe)), Box::new(rand_cfilter(rng, depth - 1, safe))),
        _ => ScimComplexFilter::Not(Box::new(rand_cfilter(rng, depth - 1, safe))),
    }
}
fn rand_filter(rng: &mut Rng, depth: u64, safe: bool) -> ScimFilter {
    if depth == 0 || rng.chance(1, 4) {
        let p = rand_path(rng, safe);
        return if rng.chance(1, 5) { mk_leaf(p, "pr", JsonValue::Null) } else { mk_leaf(p, rng.pick(&OPS), rand_value(rng, safe)) };
    }
    match rng.below(7) {
        0 | 1 => ScimFilter::And(Box::new(rand_filter(rng, depth - 1, safe)), Box::new(rand_filter(rng, depth - 1, safe))),
        2 | 3 => ScimFilter::Or(Box::new(rand_filter(rng, depth - 1, safe)), Box::new(rand_filter(rng, depth - 1, safe))),
        4 | 5 => ScimFilter::Not(Box::new(rand_filter(rng, depth - 1, safe))),
        _ => {
            let n: &[&str] = if safe { &SAFE_NAMES } else { &NAMES };
            ScimFilter::Complex(Attribute::from(*rng.pick(n)), Box::new(rand_cfilter(rng, depth.min(3) - 1, safe)))
        }
    }
}

fn from_json(j: &J) -> Option<ScimFilter> {
    Some(match j["k"].as_str()? {
        "and" => ScimFilter::And(Box::new(from_json(&j["l"])?), Box::new(from_json(&j["r"])?)),
        "or" => ScimFilter::Or(Box::new(from_json(&j["l"])?), Box::new(from_json(&j["r"])?)),
        "not" => ScimFilter::Not(Box::new(from_json(&j["e"])?)),
        "cx" => ScimFilter::Complex(Attribute::from(j["a"].as_str()?), Box::new(cfrom_json(&j["e"])?)),
        "leaf" => {
            let p = j["p"].as_str()?;
            let ap = match p.split_once('.') {
                Some((a, s)) => AttrPath { a: Attribute::from(a), s: Some(SubAttribute::from(s)) },
                None => AttrPath { a: Attribute::from(p), s: None },
            };
            let op = j["op"].as_str()?;
            let v = if op == "pr" { JsonValue::Null } else { serde_json::from_str(j["v"].as_str()?).ok()? };
            mk_leaf(ap, op, v)
        }
        _ => return None,
    })
}
fn cfrom_json(j: &J) -> Option<ScimComplexFilter> {
    Some(match j["k"].as_str()? {
        "and" => ScimComplexFilter::And(Box::new(cfrom_json(&j["l"])?), Box::new(cfrom_json(&j["r"])?)),
        "or" => ScimComplexFilter::Or(Box::new(cfrom_json(&j["l"])?), Box::new(cfrom_json(&j["r"])?)),
        "not" => ScimComplexFilter::Not(Box::new(cfrom_json(&j["e"])?)),
        "leaf" => {
            let op = j["op"].as_str()?;
            let v = if op == "pr" { JsonValue::Null } else { serde_json::from_str(j["v"].as_str()?).ok()? };
            mk_cleaf(SubAttribute::from(j["p"].as_str()?), op, v)
        }
        _ => return None,
    })
}

// ---- the second copy of the grammar / printer: scim_proto::filter (libs/scim_proto/src/filter.rs)
use scim_proto::filter as g2;
fn to_json2(f: &g2::ScimFilter) -> J {
    let leaf = |p: &g2::AttrPath, op: &str, v: Option<&JsonValue>| json!({"k":"leaf","p":p.to_string(),"op":op,"v":v.map(vtext).unwrap_or_default()});
    match f {
        g2::ScimFilter::Or(a, b) => json!({"k":"or","l":to_json2(a),"r":to_json2(b)}),
        g2::ScimFilter::And(a, b) => json!({"k":"and","l":to_json2(a),"r":to_json2(b)}),
        g2::ScimFilter::Not(e) => json!({"k":"not","e":to_json2(e)}),
        g2::ScimFilter::Present(p) => leaf(p, "pr", None),
        g2::ScimFilter::Equal(p, v) => leaf(p, "eq", Some(v)),
        g2::ScimFilter::NotEqual(p, v) => leaf(p, "ne", Some(v)),
        g2::ScimFilter::Contains(p, v) => leaf(p, "co", Some(v)),
        g2::ScimFilter::StartsWith(p, v) => leaf(p, "sw", Some(v)),
        g2::ScimFilter::EndsWith(p, v) => leaf(p, "ew", Some(v)),
        g2::ScimFilter::Greater(p, v) => leaf(p, "gt", Some(v)),
        g2::ScimFilter::Less(p, v) => leaf(p, "lt", Some(v)),
        g2::ScimFilter::GreaterOrEqual(p, v) => leaf(p, "ge", Some(v)),
        g2::ScimFilter::LessOrEqual(p, v) => leaf(p, "le", Some(v)),
        g2::ScimFilter::Complex(a, e) => json!({"k":"cx","a":a,"e":cto_json2(e)}),
    }
}
fn cto_json2(f: &g2::ScimComplexFilter) -> J {
    let leaf = |p: &String, op: &str, v: Option<&JsonValue>| json!({"k":"leaf","p":p,"op":op,"v":v.map(vtext).unwrap_or_default()});
    match f {
        g2::ScimComplexFilter::Or(a, b) => json!({"k":"or","l":cto_json2(a),"r":cto_json2(b)}),
        g2::ScimComplexFilter::And(a, b) => json!({"k":"and","l":cto_json2(a),"r":cto_json2(b)}),
        g2::ScimComplexFilter::Not(e) => json!({"k":"not","e":cto_json2(e)}),
        g2::ScimComplexFilter::Present(p) => leaf(p, "pr", None),
        g2::ScimComplexFilter::Equal(p, v) => leaf(p, "eq", Some(v)),
        g2::ScimComplexFilter::NotEqual(p, v) => leaf(p, "ne", Some(v)),
        g2::ScimComplexFilter::Contains(p, v) => leaf(p, "co", Some(v)),
        g2::ScimComplexFilter::StartsWith(p, v) => leaf(p, "sw", Some(v)),
        g2::ScimComplexFilter::EndsWith(p, v) => leaf(p, "ew", Some(v)),
        g2::ScimComplexFilter::Greater(p, v) => leaf(p, "gt", Some(v)),
        g2::ScimComplexFilter::Less(p, v) => leaf(p, "lt", Some(v)),
        g2::ScimComplexFilter::GreaterOrEqual(p, v) => leaf(p, "ge", Some(v)),
        g2::ScimComplexFilter::LessOrEqual(p, v) => leaf(p, "le", Some(v)),
    }
}
fn chars_json(s: &str) -> Vec<String> {
    s.chars().map(|c| c.to_string()).collect()
}
/// One string value through print -> parse of BOTH grammar copies, in three positions: plain leaf, left operand of an AND
/// (text continues after the value), inside a complex filter.  `vc` / `vt`: characters of the value and of its printed text.
fn emit_value_family(tr: &mut Tracer, val: &str, shapes: u64) {
    let v = json!(val);
    let vt = vtext(&v);
    for shape in 0..shapes {
        // copy 1: kanidm_proto::scim_v1
        let leaf1 = mk_leaf(AttrPath { a: Attribute::from("x"), s: None }, "eq", v.clone());
        let f1 = match shape {
            0 => leaf1,
            1 => ScimFilter::And(Box::new(leaf1), Box::new(pr_leaf("name"))),
            _ => ScimFilter::Complex(Attribute::from("m"), Box::new(mk_cleaf(SubAttribute::from("s"), "co", v.clone()))),
        };
        let text = f1.to_string();
        let (pj, pf) = parse_json(&text);
        let same = pf.as_ref().map(|p| *p == f1).unwrap_or(false);
        tr.emit(&json!({"a":"rt","g":1,"ast":to_json(&f1),"text":text,"lex":false,"toks":[],"parsed":pj,"same":same,"lim":LIMIT,
            "vc":chars_json(val),"vt":chars_json(&vt)}));
        // copy 2: scim_proto::filter
        let p2 = match g2::AttrPath::from_str("x") {
            Ok(p) => p,
            Err(_) => {
                eprintln!("TOOL-ERROR scim_proto attrpath");
                std::process::exit(2)
            }
        };
        let leaf2 = g2::ScimFilter::Equal(p2, v.clone());
        let f2 = match shape {
            0 => leaf2,
            1 => g2::ScimFilter::And(Box::new(leaf2), Box::new(g2::ScimFilter::Present(g2::AttrPath::from_str("name").unwrap_or_else(|_| std::process::exit(2))))),
            _ => g2::ScimFilter::Complex("m".to_string(), Box::new(g2::ScimComplexFilter::Contains("s".to_string(), v.clone()))),
        };
        let text2 = f2.to_string();
        let (pj2, same2) = match catch(|| g2::ScimFilter::from_str(&text2)) {
            Ok(Ok(p)) => (to_json2(&p), p == f2),
            Ok(Err(_)) => (json!({"k":"err"}), false),
            Err(_) => (json!({"k":"panic"}), false),
        };
        tr.emit(&json!({"a":"rt","g":2,"ast":to_json2(&f2),"text":text2,"lex":false,"toks":[],"parsed":pj2,"same":same2,"lim":LIMIT,
            "vc":chars_json(val),"vt":chars_json(&vt)}));
    }
}

fn tok(t: &str, s: &str) -> J {
    json!({"t":t,"s":s})
}
/// Dumb lexer for texts whose literals are `safe`: brackets are tokens, `word[` opens a complex filter,
/// everything else splits at whitespace.  Only used to hand the text to the model grammar (L2).
fn lex(text: &str) -> Vec<J> {
    let mut out = Vec::new();
    let mut cur = String::new();
    let flush = |cur: &mut String, out: &mut Vec<J>| {
        if !cur.is_empty() {
            out.push(tok("w", cur));
            cur.clear();
        }
    };
    for c in text.chars() {
        match c {
            '(' | ')' | ']' => {
                flush(&mut cur, &mut out);
                out.push(tok(&c.to_string(), ""));
            }
            '[' => {
                out.push(tok("cxo", &cur));
                cur.clear();
            }
            ' ' | '\t' | '\n' => flush(&mut cur, &mut out),
            _ => cur.push(c),
        }
    }
    flush(&mut cur, &mut out);
    out
}
fn unlex(toks: &[J]) -> String {
    // tokens -> text with the spacing the grammar wants: one space between tokens, none after an opening
    // bracket / `attr[` and none before a closing bracket
    let mut s = String::new();
    for (i, t) in toks.iter().enumerate() {
        let ty = t["t"].as_str().unwrap_or("");
        let piece = match ty {
            "w" => t["s"].as_str().unwrap_or("").to_string(),
            "cxo" => format!("{}[", t["s"].as_str().unwrap_or("")),
            o => o.to_string(),
        };
        let prev_open = i > 0 && (toks[i - 1]["t"] == "cxo" || toks[i - 1]["t"] == "(");
        let closing = ty == ")" || ty == "]";
        if i > 0 && !prev_open && !closing {
            s.push(' ');
        }
        s.push_str(&piece);
    }
    s
}

fn parse_json(text: &str) -> (J, Option<ScimFilter>) {
    match catch(|| ScimFilter::from_str(text)) {
        Ok(Ok(f)) => (to_json(&f), Some(f)),
        Ok(Err(_)) => (json!({"k":"err"}), None),
        Err(_) => (json!({"k":"panic"}), None),
    }
}

fn emit_rt(tr: &mut Tracer, f: &ScimFilter, safe: bool) {
    let text = f.to_string();
    let (pj, pf) = parse_json(&text);
    let same = pf.as_ref().map(|p| p == f).unwrap_or(false);
    let toks = if safe { lex(&text) } else { vec![] };
    tr.emit(&json!({"a":"rt","ast":to_json(f),"text":text,"lex":safe,"toks":toks,"parsed":pj,"same":same,"lim":LIMIT}));
}
fn emit_prec(tr: &mut Tracer, toks: &[J]) {
    let text = unlex(toks);
    let (pj, _) = parse_json(&text);
    tr.emit(&json!({"a":"prec","toks":toks,"text":text,"parsed":pj,"lim":LIMIT}));
}

/// infix rendering with only the parentheses that precedence needs, plus random redundant ones
fn infix(f: &J, rng: &mut Rng, parent: u8, out: &mut Vec<J>) {
    // binding strength: or 0, and 1, not / leaf / cx 2
    let k = f["k"].as_str().unwrap_or("");
    let lvl = match k {
        "or" => 0,
        "and" => 1,
        _ => 2,
    };
    let paren = lvl < parent || rng.chance(1, 6);
    if paren {
        out.push(tok("(", ""));
    }
    match k {
        "or" | "and" => {
            infix(&f["l"], rng, lvl, out);
            out.push(tok("w", k));
            infix(&f["r"], rng, lvl + 1, out);
        }
        "not" => {
            out.push(tok("w", "not"));
            out.push(tok("(", ""));
            infix(&f["e"], rng, 0, out);
            out.push(tok(")", ""));
        }
        "cx" => {
            out.push(tok("cxo", f["a"].as_str().unwrap_or("x")));
            infix(&f["e"], rng, 0, out);
            out.push(tok("]", ""));
        }
        _ => {
            out.push(tok("w", f["p"].as_str().unwrap_or("x")));
            out.push(tok("w", f["op"].as_str().unwrap_or("pr")));
            if f["op"] != "pr" {
                out.push(tok("w", f["v"].as_str().unwrap_or("1")));
            }
        }
    }
    if paren {
        out.push(tok(")", ""));
    }
}

fn pr_leaf(a: &str) -> ScimFilter {
    ScimFilter::Present(AttrPath { a: Attribute::from(a), s: None })
}

pub fn run(o: &Opts) -> i32 {
    let out = o.str("out", "/verif/work/C42/obs.ndjson");
    let mut tr = Tracer::create(&out);
    let mut rng = Rng::new(o.seed());
    if let Some(rp) = o.get("replay") {
        for r in read_ndjson(rp) {
            match r["a"].as_str().unwrap_or("") {
                // a line of the string-value family: the whole family of that value again (both grammar copies)
                "rt" if r.get("vc").is_some() => {
                    let val: String = r["vc"].as_array().map(|v| v.iter().filter_map(|c| c.as_str()).collect()).unwrap_or_default();
                    emit_value_family(&mut tr, &val, 3);
                }
                "rt" => match from_json(&r["ast"]) {
                    Some(f) => emit_rt(&mut tr, &f, r["lex"].as_bool().unwrap_or(false)),
                    None => {
                        eprintln!("TOOL-ERROR bad ast in replay file");
                        return 2;
                    }
                },
                "prec" => {
                    let toks: Vec<J> = r["toks"].as_array().cloned().unwrap_or_default();
                    emit_prec(&mut tr, &toks);
                }
                _ => {}
            }
        }
        println!("OBSERVED lines={} out={out}", tr.finish());
        return 0;
    }
    // (A1) every AST of connective depth <= `adepth` over a small leaf set, all ten comparison operators and the
    //      complex form at depth <= 1
    let leaves: Vec<ScimFilter> = vec![
        pr_leaf("name"),
        mk_leaf(AttrPath { a: Attribute::from("x"), s: Some(SubAttribute::from("y")) }, "eq", json!("v")),
        mk_leaf(AttrPath { a: Attribute::from("mail"), s: None }, "gt", json!(5)),
    ];
    let cx = ScimFilter::Complex(Attribute::from("mail"), Box::new(ScimComplexFilter::And(
        Box::new(mk_cleaf(SubAttribute::from("type"), "eq", json!("work"))),
        Box::new(ScimComplexFilter::Not(Box::new(mk_cleaf(SubAttribute::from("primary"), "pr", JsonValue::Null)))))));
    let comb = |s: &Vec<ScimFilter>| -> Vec<ScimFilter> {
        let mut v = Vec::new();
        for a in s {
            v.push(ScimFilter::Not(Box::new(a.clone())));
            for b in s {
                v.push(ScimFilter::And(Box::new(a.clone()), Box::new(b.clone())));
                v.push(ScimFilter::Or(Box::new(a.clone()), Box::new(b.clone())));
            }
        }
        v
    };
    let mut l0 = leaves.clone();
    l0.push(cx);
    let mut t1 = l0.clone();
    t1.extend(comb(&l0));
    let mut t2 = l0.clone();
    t2.extend(comb(&t1));
    let asts = if o.u64("adepth", 2) >= 2 { t2 } else { t1 };
    let mut n_ast = 0u64;
    for f in &asts {
        emit_rt(&mut tr, f, true);
        n_ast += 1;
    }
    for op in OPS.iter().chain(["pr"].iter()) {
        emit_rt(&mut tr, &mk_leaf(AttrPath { a: Attribute::from("x"), s: None }, op, json!(7)), true);
        emit_rt(&mut tr, &ScimFilter::Complex(Attribute::from("m"), Box::new(mk_cleaf(SubAttribute::from("s"), op, json!("q")))), true);
    }
    // (A2) precedence strings: the model's exhaustive alphabet spelled out (A = `a pr`, B = `b pr`), all strings <= plen tokens
    let plen = o.u64("plen", 4) as usize;
    let alpha: Vec<Vec<J>> = vec![
        vec![tok("w", "a"), tok("w", "pr")],
        vec![tok("w", "b"), tok("w", "pr")],
        vec![tok("w", "and")],
        vec![tok("w", "or")],
        vec![tok("w", "not")],
        vec![tok("(", "")],
        vec![tok(")", "")],
    ];
    let mut strs: Vec<Vec<usize>> = vec![vec![]];
    let mut n_prec = 0u64;
    for _ in 0..plen {
        let mut nx = Vec::new();
        for s in &strs {
            for k in 0..alpha.len() {
                let mut t = s.clone();
                t.push(k);
                nx.push(t);
            }
        }
        for s in &nx {
            let toks: Vec<J> = s.iter().flat_map(|k| alpha[*k].clone()).collect();
            emit_prec(&mut tr, &toks);
            n_prec += 1;
        }
        strs = nx;
    }
    // the statement's own example and friends
    for text in ["a pr or b pr and c pr", "a pr and b pr or c pr", "a pr or b pr or c pr", "not (a pr) and b pr", "a pr and not (b pr or c pr)",
                 "m[s pr or t pr and u pr] and a pr"] {
        emit_prec(&mut tr, &lex(text));
    }
    // (A3) deep chains around the real limit: groups, not-chains, left / right nested AND / OR, printed ASTs
    for n in [1u64, 2, 100, 125, 126, 127, 128, 129, 130, 200] {
        let mut toks = Vec::new();
        for _ in 0..n {
            toks.push(tok("(", ""));
        }
        toks.push(tok("w", "a"));
        toks.push(tok("w", "pr"));
        for _ in 0..n {
            toks.push(tok(")", ""));
        }
        emit_prec(&mut tr, &toks);
        let mut toks = Vec::new();
        for _ in 0..n {
            toks.push(tok("w", "not"));
            toks.push(tok("(", ""));
        }
        toks.push(tok("w", "a"));
        toks.push(tok("w", "pr"));
        for _ in 0..n {
            toks.push(tok(")", ""));
        }
        emit_prec(&mut tr, &toks);
    }
    for n in [1u64, 30, 62, 63, 64, 65, 125, 126, 127, 128, 129] {
        // printed forms: n nested connectives over a leaf (printed nesting = n + 1 (+1 top) for and/or, 2n + 2 for not)
        let mut l = pr_leaf("a");
        let mut r = pr_leaf("a");
        let mut nn = pr_leaf("a");
        for i in 0..n {
            l = ScimFilter::And(Box::new(l), Box::new(pr_leaf("b")));
            r = ScimFilter::Or(Box::new(pr_leaf("b")), Box::new(r));
            if i < 70 {
                nn = ScimFilter::Not(Box::new(nn));
            }
        }
        emit_rt(&mut tr, &l, true);
        emit_rt(&mut tr, &r, true);
        emit_rt(&mut tr, &nn, true);
    }
    // (A4) string values: every string over {a, blank, ( ) [ ] backslash quote tab} up to `vlen` characters - backslash and quote at
    //      EVERY position including the last, together with separators / brackets in the same value - through both grammar copies
    let vlen = o.u64("vlen", 3);
    let alpha: [char; 9] = ['a', ' ', '(', ')', '[', ']', '\\', '"', '\t'];
    let mut vals: Vec<String> = vec![String::new()];
    let mut layer: Vec<String> = vec![String::new()];
    for _ in 0..vlen {
        let mut nx = Vec::new();
        for s in &layer {
            for c in alpha.iter() {
                let mut t = s.clone();
                t.push(*c);
                nx.push(t);
            }
        }
        vals.extend(nx.iter().cloned());
        layer = nx;
    }
    let mut n_vals = 0u64;
    for v in &vals {
        // lengths <= 2 in all three positions, longer ones as a plain leaf
        emit_value_family(&mut tr, v, if v.chars().count() <= 2 { 3 } else { 1 });
        n_vals += 1;
    }
    for v in ["C:\\Program Files\\", "a \\", "(x)\\\\", "say \"hi\" \\", "tab\t\\ ", "] \\\""] {
        emit_value_family(&mut tr, v, 3);
    }
    // (B) seeded random: ASTs with every operator, paths with sub-attributes, keyword-named attributes, complex filters, nasty literals;
    //     infix strings with minimal / redundant parentheses; garbage token strings
    let depth = o.u64("depth", 5);
    for i in 0..o.u64("random", 0) {
        let safe = i % 2 == 0;
        let d = rng.range(1, depth);
        let f = rand_filter(&mut rng, d, safe);
        emit_rt(&mut tr, &f, safe);
        if safe {
            let mut toks = Vec::new();
            let d2 = rng.range(1, depth);
            let g = to_json(&rand_filter(&mut rng, d2, true));
            infix(&g, &mut rng, 0, &mut toks);
            if rng.chance(1, 8) && !toks.is_empty() {
                // damage it
                let k = rng.below(toks.len() as u64) as usize;
                toks.remove(k);
            }
            emit_prec(&mut tr, &toks);
        }
    }
    println!("OBSERVED lines={} asts={n_ast} prec={n_prec} values={n_vals} out={out}", tr.finish());
    0
}
