//! C02: filters through the REAL `Filter::resolve` (resolve_idx + optimise with chosen index metadata and
//! slopes, or resolve_no_idx + fast_optimise without), then the REAL per-entry test of the rewritten filter
//! on every stored entry.  Lines:
//!  {"a":"reset",...}  (as c01: the population read back from the server)
//!  {"a":"rewrite","f":F,"sid":n,"mode":"idx"|"noidx","ix":{"a.eq":slope,..},"rf":RF,"m":[ids],"mo":o}
//!  F is the complete original filter (the ignore-hidden wrapper, when used, is spelled out in F).
use crate::fmodel::*;
use kanidm_proto::attribute::Attribute as PAttr;
use kanidm_proto::scim_v1::{AttrPath, ScimFilter};
use kanidmd_lib::filter::{Filter, FilterInvalid};
use kanidmd_lib::prelude::*;
use kanidmd_lib::value::IndexType;
use kanidmd_lib::verif::filter as kvf;
use kvc::srv::*;
use kvc::util::*;
use serde_json::{json, Value as J};

fn hidden() -> J {
    json!({"k":"not","f":{"k":"or","fs":[{"k":"eq","a":"class","v":V_TOMBSTONE},{"k":"eq","a":"class","v":V_RECYCLED}]}})
}
fn wrap(f: &J) -> J {
    json!({"k":"and","fs":[hidden(), f]})
}

/// KFilterMC.SlopeOfKey
fn mc_slope(k: &str) -> u8 {
    match k {
        "a.eq" | "b.eq" => 2,
        "a.pres" | "a.sub" | "b.pres" => 4,
        "b.ord" => 5,
        "class.eq" => 3,
        "uuid.eq" => 1,
        _ => 7,
    }
}
const ALL_KEYS: [&str; 8] = ["a.eq", "a.pres", "a.sub", "b.eq", "b.pres", "b.ord", "class.eq", "uuid.eq"];

fn random_ix(rng: &mut Rng) -> Vec<(String, u8)> {
    // random subset of keys, slopes from a small range so that ties are frequent
    let mut v = Vec::new();
    for k in ALL_KEYS.iter() {
        if rng.chance(3, 4) {
            v.push((k.to_string(), rng.range(1, 4) as u8));
        }
    }
    v
}

static SKIPPED: std::sync::atomic::AtomicU64 = std::sync::atomic::AtomicU64::new(0);

fn has_sw_ew(f: &J) -> bool {
    match f["k"].as_str().unwrap_or("") {
        "stw" | "enw" => true,
        "and" | "or" => f["fs"].as_array().map(|v| v.iter().any(has_sw_ew)).unwrap_or(false),
        "not" => has_sw_ew(&f["f"]),
        _ => false,
    }
}
/// Starts-with / ends-with terms have no FC constructor: such filters are built through the SCIM translation
/// (`Filter::from_scim_ro`: sw -> Stw, ew -> Enw, co -> Cnt, eq -> Eq, pr -> Pres, binary and / or, not).
fn scim_of(f: &J) -> Result<ScimFilter, String> {
    let a = f["a"].as_str().unwrap_or("a");
    let path = || AttrPath { a: PAttr::from(attr(a).as_str()), s: None };
    let ndl = |f: &J| json!(NEEDLES.get(f["v"].as_u64().unwrap_or(0) as usize).copied().unwrap_or("zzz"));
    Ok(match f["k"].as_str().unwrap_or("") {
        "stw" if a == "a" => ScimFilter::StartsWith(path(), ndl(f)),
        "enw" if a == "a" => ScimFilter::EndsWith(path(), ndl(f)),
        "sub" if a == "a" => ScimFilter::Contains(path(), ndl(f)),
        "eq" if a == "a" => ScimFilter::Equal(path(), json!(STRS.get(f["v"].as_u64().unwrap_or(0) as usize).copied().unwrap_or("zzz"))),
        "pres" => ScimFilter::Present(path()),
        "not" => ScimFilter::Not(Box::new(scim_of(&f["f"])?)),
        k @ ("and" | "or") => {
            let fs = f["fs"].as_array().ok_or("fs")?;
            if fs.len() != 2 {
                return Err("scim and/or are binary".into());
            }
            let (l, r) = (Box::new(scim_of(&fs[0])?), Box::new(scim_of(&fs[1])?));
            if k == "and" { ScimFilter::And(l, r) } else { ScimFilter::Or(l, r) }
        }
        o => return Err(format!("not expressible through SCIM: {o}")),
    })
}
/// Model filter -> real filter. `And[hidden, x]` with a SCIM-built x is joined with `Filter::join_parts_and`.
fn build_filter(rd: &mut QueryServerReadTransaction<'_>, ident: &Identity, f: &J) -> Result<Filter<FilterInvalid>, String> {
    if !has_sw_ew(f) {
        return filter_from_json(f, false);
    }
    if f["k"] == "and" && f["fs"].as_array().map(|v| v.len() == 2 && v[0] == hidden()).unwrap_or(false) {
        let inner = build_filter(rd, ident, &f["fs"][1])?;
        return Ok(Filter::join_parts_and(filter_from_json(&hidden(), false)?, inner));
    }
    Filter::from_scim_ro(ident, &scim_of(f)?, rd).map_err(|e| format!("from_scim_ro {e:?}"))
}

fn observe(
    rd: &mut QueryServerReadTransaction<'_>,
    tr: &mut Tracer,
    snap: &Snapshot,
    all: &[std::sync::Arc<EntrySealedCommitted>],
    f: &J,
    sid: u64,
    ix: Option<&[(String, u8)]>,
) {
    let me = all.iter().find(|e| e.get_uuid() == uuid_e(sid)).cloned().unwrap_or_else(|| tool_error("self entry missing"));
    let ident = Identity::from_impersonate_entry_readwrite(me);
    let filt = match build_filter(rd, &ident, f) {
        Ok(x) => x,
        // a TLC case with a starts-with / ends-with term inside a one-element AND / OR has no SCIM spelling: not replayed
        Err(e) if e.contains("scim and/or are binary") => {
            SKIPPED.fetch_add(1, std::sync::atomic::Ordering::Relaxed);
            return;
        }
        Err(e) => tool_error(&format!("bad filter json: {e}")),
    };
    let keys: Option<Vec<(Attribute, IndexType, u8)>> = ix.map(|v| {
        v.iter()
            .filter_map(|(k, s)| {
                let (a, ty) = k.split_once('.')?;
                Some((attr(a), itype(ty), *s))
            })
            .collect()
    });
    let ixj: J = match ix {
        Some(v) => J::Object(v.iter().map(|(k, s)| (k.clone(), json!(s))).collect()),
        None => json!({}),
    };
    let r = catch(|| kvf::resolve_with(rd, &filt, &ident, keys.as_deref()));
    let (rf, m, mo) = match r {
        Ok(Ok(rf)) => {
            let (m, mo) = project_ids(snap, all.iter().filter(|e| e.entry_match_no_index(&rf)).map(|e| e.get_id()));
            (resolved_to_json(rf.to_inner()), json!(m), mo)
        }
        Ok(Err(e)) => (json!({"k":"err","e":format!("{e:?}"),"s":0}), json!([]), 2),
        Err(_) => (json!({"k":"panic","s":0}), json!([]), 2),
    };
    tr.emit(&json!({"a":"rewrite","f":f,"sid":sid,"mode": if ix.is_some() {"idx"} else {"noidx"},"ix":ixj,"rf":rf,"m":m,"mo":mo}));
}

fn leaves_with_self() -> Vec<J> {
    let mut v: Vec<J> = depth1_filters().into_iter().take(11).collect();
    v.push(json!({"k":"self"}));
    v
}
fn depth1_with_self() -> Vec<J> {
    let leaves = leaves_with_self();
    let mut out = leaves.clone();
    for x in &leaves {
        out.push(json!({"k":"not","f":x}));
        out.push(json!({"k":"and","fs":[x]}));
        out.push(json!({"k":"or","fs":[x]}));
        for y in &leaves {
            out.push(json!({"k":"and","fs":[x, y]}));
            out.push(json!({"k":"or","fs":[x, y]}));
        }
    }
    out
}

/// The substring family with SHARED attribute and value: contains / starts-with / ends-with "ab" on `a` (entries hold "abx" and
/// "xab": all three kinds differ on them) plus the same kinds on another needle and an equality.  Binary and / or and not only
/// (what the SCIM translation can build); depth <= 2, so that flattening brings terms of different kinds next to each other.
fn subfam(depth2: bool) -> Vec<J> {
    let leaves: Vec<J> = vec![
        json!({"k":"sub","a":"a","v":0}),
        json!({"k":"stw","a":"a","v":0}),
        json!({"k":"enw","a":"a","v":0}),
    ];
    let extra: Vec<J> = vec![json!({"k":"stw","a":"a","v":2}), json!({"k":"enw","a":"a","v":1}), json!({"k":"eq","a":"a","v":1})];
    let comb = |s: &Vec<J>| -> Vec<J> {
        let mut out = Vec::new();
        for x in s {
            out.push(json!({"k":"not","f":x}));
            for y in s {
                out.push(json!({"k":"and","fs":[x, y]}));
                out.push(json!({"k":"or","fs":[x, y]}));
            }
        }
        out
    };
    let mut l1 = leaves.clone();
    l1.extend(extra);
    let mut d1 = l1.clone();
    d1.extend(comb(&l1));
    if !depth2 {
        return d1;
    }
    // depth 2 over the three shared-value leaves
    let mut t1 = leaves.clone();
    t1.extend(comb(&leaves));
    let mut d2 = d1;
    d2.extend(comb(&t1));
    d2
}
fn random_subfam(rng: &mut Rng, depth: u64) -> J {
    if depth == 0 || rng.chance(1, 4) {
        return match rng.below(8) {
            0 | 1 => json!({"k":"sub","a":"a","v":rng.below(2)}),
            2 | 3 => json!({"k":"stw","a":"a","v":rng.below(3)}),
            4 | 5 => json!({"k":"enw","a":"a","v":rng.below(3)}),
            6 => json!({"k":"eq","a":"a","v":rng.range(1, 2)}),
            _ => json!({"k":"pres","a": if rng.chance(1, 2) {"a"} else {"b"}}),
        };
    }
    match rng.below(5) {
        0 | 1 => json!({"k":"and","fs":[random_subfam(rng, depth - 1), random_subfam(rng, depth - 1)]}),
        2 | 3 => json!({"k":"or","fs":[random_subfam(rng, depth - 1), random_subfam(rng, depth - 1)]}),
        _ => json!({"k":"not","f":random_subfam(rng, depth - 1)}),
    }
}

/// all filters of depth<=2 / width<=2 over the 5-leaf alphabet of KFilterMC.LeavesTiny (10015 filters)
fn depth2_tiny() -> Vec<J> {
    let leaves: Vec<J> = vec![
        json!({"k":"eq","a":"a","v":1}),
        json!({"k":"eq","a":"b","v":1}),
        json!({"k":"pres","a":"a"}),
        json!({"k":"lt","a":"b","v":2}),
        json!({"k":"sub","a":"a","v":1}),
    ];
    let comb = |s: &Vec<J>| -> Vec<J> {
        let mut out = Vec::new();
        for x in s {
            out.push(json!({"k":"not","f":x}));
            out.push(json!({"k":"and","fs":[x]}));
            out.push(json!({"k":"or","fs":[x]}));
            for y in s {
                out.push(json!({"k":"and","fs":[x, y]}));
                out.push(json!({"k":"or","fs":[x, y]}));
            }
        }
        out
    };
    let mut d1 = leaves.clone();
    d1.extend(comb(&leaves));
    let mut d2 = leaves.clone();
    d2.extend(comb(&d1));
    d2
}

pub fn run(o: &Opts) -> i32 {
    check_tables();
    let out = o.str("out", "/verif/work/C02/obs.ndjson");
    let mut tr = Tracer::create(&out);
    let rt = runtime();
    let mut rng = Rng::new(o.seed());
    // steps: (filter, sid, ix)
    let mut steps: Vec<(J, u64, Option<Vec<(String, u8)>>)> = Vec::new();
    let mc_all: Vec<(String, u8)> = ALL_KEYS.iter().map(|k| (k.to_string(), mc_slope(k))).collect();
    if let Some(rp) = o.get("replay") {
        for r in read_ndjson(rp) {
            if r["a"] == "rewrite" {
                let ix = if r["mode"] == "idx" {
                    Some(r["ix"].as_object().map(|m| m.iter().map(|(k, v)| (k.clone(), v.as_u64().unwrap_or(1) as u8)).collect()).unwrap_or_default())
                } else {
                    None
                };
                steps.push((r["f"].clone(), r["sid"].as_u64().unwrap_or(1), ix));
            }
        }
    } else {
        // (A) cases chosen by TLC (with the model's slopes for the case's index keys)
        if let Some(cf) = o.get("cases") {
            for c in read_ndjson(cf) {
                let ix: Vec<(String, u8)> = c["keys"].as_array().map(|v| v.iter().filter_map(|x| x.as_str()).map(|k| (k.to_string(), mc_slope(k))).collect()).unwrap_or_default();
                let f = if c["w"].as_bool().unwrap_or(false) { wrap(&c["f"]) } else { c["f"].clone() };
                steps.push((f.clone(), 1, Some(ix)));
                steps.push((f, 1, None));
            }
        }
        // every depth<=1 filter over the full alphabet + self: raw and wrapped, both resolve paths
        if !o.flag("no-depth1") {
            for f in depth1_with_self() {
                let ix = random_ix(&mut rng);
                steps.push((f.clone(), 2, Some(mc_all.clone())));
                steps.push((wrap(&f), 2, Some(ix)));
                steps.push((f, 2, None));
            }
        }
        // the substring family (Cnt / Stw / Enw sharing attribute and value), every filter of depth <= 2: both resolve paths,
        // raw and under the ignore-hidden wrapper
        if !o.flag("no-depth1") {
            for f in subfam(true) {
                steps.push((f.clone(), 1, Some(mc_all.clone())));
                // without index metadata only a root AND is sorted and de-duplicated (fast_optimise)
                if f["k"] == "and" {
                    steps.push((f.clone(), 1, None));
                }
                if f["k"] == "or" {
                    steps.push((wrap(&f), 1, Some(mc_all.clone())));
                }
            }
        }
        // the complete depth<=2 space of the exhaustive model run (thorough)
        if o.flag("depth2-all") {
            for f in depth2_tiny() {
                steps.push((f.clone(), 1, Some(mc_all.clone())));
                steps.push((f, 1, None));
            }
        }
        // (B) seeded random deeper / wider filters, random index key subsets and slopes
        let depth = o.u64("depth", 4);
        let width = o.u64("width", 3);
        for _ in 0..o.u64("random", 0) {
            let d = rng.range(1, depth);
            let mut f = if rng.chance(1, 3) { random_subfam(&mut rng, d.min(5)) } else { random_filter(&mut rng, d, width, true) };
            if rng.chance(1, 2) {
                f = wrap(&f);
            }
            let sid = rng.range(1, 12);
            let ix = if rng.chance(1, 4) { None } else { Some(random_ix(&mut rng)) };
            steps.push((f, sid, ix));
        }
    }
    rt.block_on(async {
        let qs = new_server().await;
        let mut shapes = full16();
        shapes.push(Shape { a: vec![2], b: vec![1], recycled: true });
        populate(&qs, &shapes, 2).await;
        let mut rd = qs.read().await.unwrap_or_else(|_| tool_error("read txn"));
        let snap = snapshot(&mut rd);
        let all = search_all(&mut rd);
        tr.emit(&json!({"a":"reset","keys":[],"reload":false,
            "shapes":shapes.iter().map(|s| json!({"a":s.a,"b":s.b,"rc":s.recycled})).collect::<Vec<_>>(),
            "db":snap.db,"others":snap.others,"idx":snap.idx,"attrord":attr_order(),"thres":0}));
        for (f, sid, ix) in &steps {
            observe(&mut rd, &mut tr, &snap, &all, f, *sid, ix.as_deref());
        }
    });
    let n = tr.finish();
    println!("OBSERVED lines={n} skipped_not_expressible={} out={out}", SKIPPED.load(std::sync::atomic::Ordering::Relaxed));
    0
}
