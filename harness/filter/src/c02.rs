//! C02: filters through the REAL `Filter::resolve` (resolve_idx + optimise with chosen index metadata and
//! slopes, or resolve_no_idx + fast_optimise without), then the REAL per-entry test of the rewritten filter
//! on every stored entry.  Lines:
//!  {"a":"reset",...}  (as c01: the population read back from the server)
//!  {"a":"rewrite","f":F,"sid":n,"mode":"idx"|"noidx","ix":{"a.eq":slope,..},"rf":RF,"m":[ids],"mo":o}
//!  F is the complete original filter (the ignore-hidden wrapper, when used, is spelled out in F).
use crate::fmodel::*;
use kanidmd_lib::prelude::*;
use kanidmd_lib::value::IndexType;
use kanidmd_lib::verif::filter as kvf;
use kvc::srv::*;
use kvc::util::*;
use serde_json::{json, Value as J};

fn hidden() -> J {
    json!({"k":"not","f":{"k":"or","fs":[{"k":"eq","a":"class","v":V_TOMBSTONE},{"k":"eq","a":"class","v":V_RECYCLED}]}})
}
fn wrap(f: &J) -> J {
    json!({"k":"and","fs":[hidden(), f]})
}

/// KFilterMC.SlopeOfKey
fn mc_slope(k: &str) -> u8 {
    match k {
        "a.eq" | "b.eq" => 2,
        "a.pres" | "a.sub" | "b.pres" => 4,
        "b.ord" => 5,
        "class.eq" => 3,
        "uuid.eq" => 1,
        _ => 7,
    }
}
const ALL_KEYS: [&str; 8] = ["a.eq", "a.pres", "a.sub", "b.eq", "b.pres", "b.ord", "class.eq", "uuid.eq"];

fn random_ix(rng: &mut Rng) -> Vec<(String, u8)> {
    // random subset of keys, slopes from a small range so that ties are frequent
    let mut v = Vec::new();
    for k in ALL_KEYS.iter() {
        if rng.chance(3, 4) {
            v.push((k.to_string(), rng.range(1, 4) as u8));
        }
    }
    v
}

fn observe(
    rd: &mut QueryServerReadTransaction<'_>,
    tr: &mut Tracer,
    snap: &Snapshot,
    all: &[std::sync::Arc<EntrySealedCommitted>],
    f: &J,
    sid: u64,
    ix: Option<&[(String, u8)]>,
) {
    let filt = match filter_from_json(f, false) {
        Ok(x) => x,
        Err(e) => tool_error(&format!("bad filter json: {e}")),
    };
    let me = all.iter().find(|e| e.get_uuid() == uuid_e(sid)).cloned().unwrap_or_else(|| tool_error("self entry missing"));
    let ident = Identity::from_impersonate_entry_readwrite(me);
    let keys: Option<Vec<(Attribute, IndexType, u8)>> = ix.map(|v| {
        v.iter()
            .filter_map(|(k, s)| {
                let (a, ty) = k.split_once('.')?;
                Some((attr(a), itype(ty), *s))
            })
            .collect()
    });
    let ixj: J = match ix {
        Some(v) => J::Object(v.iter().map(|(k, s)| (k.clone(), json!(s))).collect()),
        None => json!({}),
    };
    let r = catch(|| kvf::resolve_with(rd, &filt, &ident, keys.as_deref()));
    let (rf, m, mo) = match r {
        Ok(Ok(rf)) => {
            let (m, mo) = project_ids(snap, all.iter().filter(|e| e.entry_match_no_index(&rf)).map(|e| e.get_id()));
            (resolved_to_json(rf.to_inner()), json!(m), mo)
        }
        Ok(Err(e)) => (json!({"k":"err","e":format!("{e:?}"),"s":0}), json!([]), 2),
        Err(_) => (json!({"k":"panic","s":0}), json!([]), 2),
    };
    tr.emit(&json!({"a":"rewrite","f":f,"sid":sid,"mode": if ix.is_some() {"idx"} else {"noidx"},"ix":ixj,"rf":rf,"m":m,"mo":mo}));
}

fn leaves_with_self() -> Vec<J> {
    let mut v: Vec<J> = depth1_filters().into_iter().take(11).collect();
    v.push(json!({"k":"self"}));
    v
}
fn depth1_with_self() -> Vec<J> {
    let leaves = leaves_with_self();
    let mut out = leaves.clone();
    for x in &leaves {
        out.push(json!({"k":"not","f":x}));
        out.push(json!({"k":"and","fs":[x]}));
        out.push(json!({"k":"or","fs":[x]}));
        for y in &leaves {
            out.push(json!({"k":"and","fs":[x, y]}));
            out.push(json!({"k":"or","fs":[x, y]}));
        }
    }
    out
}

/// all filters of depth<=2 / width<=2 over the 5-leaf alphabet of KFilterMC.LeavesTiny (10015 filters)
fn depth2_tiny() -> Vec<J> {
    let leaves: Vec<J> = vec![
        json!({"k":"eq","a":"a","v":1}),
        json!({"k":"eq","a":"b","v":1}),
        json!({"k":"pres","a":"a"}),
        json!({"k":"lt","a":"b","v":2}),
        json!({"k":"sub","a":"a","v":1}),
    ];
    let comb = |s: &Vec<J>| -> Vec<J> {
        let mut out = Vec::new();
        for x in s {
            out.push(json!({"k":"not","f":x}));
            out.push(json!({"k":"and","fs":[x]}));
            out.push(json!({"k":"or","fs":[x]}));
            for y in s {
                out.push(json!({"k":"and","fs":[x, y]}));
                out.push(json!({"k":"or","fs":[x, y]}));
            }
        }
        out
    };
    let mut d1 = leaves.clone();
    d1.extend(comb(&leaves));
    let mut d2 = leaves.clone();
    d2.extend(comb(&d1));
    d2
}

pub fn run(o: &Opts) -> i32 {
    check_tables();
    let out = o.str("out", "/verif/work/C02/obs.ndjson");
    let mut tr = Tracer::create(&out);
    let rt = runtime();
    let mut rng = Rng::new(o.seed());
    // steps: (filter, sid, ix)
    let mut steps: Vec<(J, u64, Option<Vec<(String, u8)>>)> = Vec::new();
    let mc_all: Vec<(String, u8)> = ALL_KEYS.iter().map(|k| (k.to_string(), mc_slope(k))).collect();
    if let Some(rp) = o.get("replay") {
        for r in read_ndjson(rp) {
            if r["a"] == "rewrite" {
                let ix = if r["mode"] == "idx" {
                    Some(r["ix"].as_object().map(|m| m.iter().map(|(k, v)| (k.clone(), v.as_u64().unwrap_or(1) as u8)).collect()).unwrap_or_default())
                } else {
                    None
                };
                steps.push((r["f"].clone(), r["sid"].as_u64().unwrap_or(1), ix));
            }
        }
    } else {
        // (A) cases chosen by TLC (with the model's slopes for the case's index keys)
        if let Some(cf) = o.get("cases") {
            for c in read_ndjson(cf) {
                let ix: Vec<(String, u8)> = c["keys"].as_array().map(|v| v.iter().filter_map(|x| x.as_str()).map(|k| (k.to_string(), mc_slope(k))).collect()).unwrap_or_default();
                let f = if c["w"].as_bool().unwrap_or(false) { wrap(&c["f"]) } else { c["f"].clone() };
                steps.push((f.clone(), 1, Some(ix)));
                steps.push((f, 1, None));
            }
        }
        // every depth<=1 filter over the full alphabet + self: raw and wrapped, both resolve paths
        if !o.flag("no-depth1") {
            for f in depth1_with_self() {
                let ix = random_ix(&mut rng);
                steps.push((f.clone(), 2, Some(mc_all.clone())));
                steps.push((wrap(&f), 2, Some(ix)));
                steps.push((f, 2, None));
            }
        }
        // the complete depth<=2 space of the exhaustive model run (thorough)
        if o.flag("depth2-all") {
            for f in depth2_tiny() {
                steps.push((f.clone(), 1, Some(mc_all.clone())));
                steps.push((f, 1, None));
            }
        }
        // (B) seeded random deeper / wider filters, random index key subsets and slopes
        let depth = o.u64("depth", 4);
        let width = o.u64("width", 3);
        for _ in 0..o.u64("random", 0) {
            let d = rng.range(1, depth);
            let mut f = random_filter(&mut rng, d, width, true);
            if rng.chance(1, 2) {
                f = wrap(&f);
            }
            let sid = rng.range(1, 12);
            let ix = if rng.chance(1, 4) { None } else { Some(random_ix(&mut rng)) };
            steps.push((f, sid, ix));
        }
    }
    rt.block_on(async {
        let qs = new_server().await;
        let mut shapes = full16();
        shapes.push(Shape { a: vec![2], b: vec![1], recycled: true });
        populate(&qs, &shapes, 2).await;
        let mut rd = qs.read().await.unwrap_or_else(|_| tool_error("read txn"));
        let snap = snapshot(&mut rd);
        let all = search_all(&mut rd);
        tr.emit(&json!({"a":"reset","keys":[],"reload":false,
            "shapes":shapes.iter().map(|s| json!({"a":s.a,"b":s.b,"rc":s.recycled})).collect::<Vec<_>>(),
            "db":snap.db,"others":snap.others,"idx":snap.idx,"attrord":attr_order(),"thres":0}));
        for (f, sid, ix) in &steps {
            observe(&mut rd, &mut tr, &snap, &all, f, *sid, ix.as_deref());
        }
    });
    let n = tr.finish();
    println!("OBSERVED lines={n} out={out}");
    0
}
