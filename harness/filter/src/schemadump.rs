//! Development aid: list shipped schema attributes (name, syntax, multivalue, indexed, unique).
use kanidmd_lib::prelude::*;
use kanidmd_lib::schema::SchemaTransaction;
use kvc::srv::*;
use kvc::util::*;

pub fn run(_o: &Opts) -> i32 {
    let rt = runtime();
    rt.block_on(async {
        let qs = new_qs(t(0)).await;
        let mut rd = qs.read().await.unwrap();
        let all = search_all(&mut rd);
        let sch = rd.get_schema();
        let mut v: Vec<String> = sch
            .get_attributes()
            .values()
            .map(|a| format!("{} {:?} mv={} idx={} uniq={} phantom={} used_by={}", a.name, a.syntax, a.multivalue, a.indexed, a.unique, a.phantom,
                all.iter().filter(|e| e.attribute_pres(a.name.clone())).count()))
            .collect();
        v.sort();
        for l in v {
            println!("{l}");
        }
        let _ = &mut rd;
    });
    0
}
