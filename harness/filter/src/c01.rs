//! C01: searches on a REAL QueryServer under chosen index layouts; every observation (resolved filter,
//! raw filter2idl candidate set, cold / warm search result, existence test) is logged for KFilterTrace.
//!
//! Line shapes (ndjson):
//!  {"a":"reset","keys":[..],"reload":b,"shapes":[{a,b,rc}],"db":[{id,a,b,class}],"others":N,"idx":{"a.eq":slope,..},"attrord":[..],"thres":0}
//!  {"a":"reshape","changes":[{"id":n,"a":[..],"b":[..]}],"db":[...]}            (entries modified in place)
//!  {"a":"search","f":F,"w":b,"rf":RF,"ik":kind,"is":[ids],"io":o,"res":[ids],"ro":o,"rerr":"",
//!   "wres":[ids],"wo":o,"werr":"","ex":0|1|2}
//!  o = 0 none / 1 all / 2 some of the entries outside the model population; ex: 0 false, 1 true, 2 error
use crate::fmodel::*;
use kanidmd_lib::prelude::*;
use kanidmd_lib::verif::filter as kvf;
use kvc::srv::*;
use kvc::util::*;
use serde_json::{json, Value as J};
use std::sync::Arc;

pub struct Group {
    pub keys: Vec<String>,
    pub reload: bool,
    pub shapes: Vec<Shape>,
    /// steps: Ok((filter, wrap)) or Err(reshape changes)
    pub steps: Vec<Result<(J, bool), Vec<(u64, Shape)>>>,
}

fn res_fields(snap: &Snapshot, r: Result<Result<Vec<Arc<EntrySealedCommitted>>, OperationError>, String>) -> (J, u64, String) {
    match r {
        Ok(Ok(v)) => {
            let (ids, o) = project_ids(snap, v.iter().map(|e| e.get_id()));
            (json!(ids), o, String::new())
        }
        Ok(Err(e)) => (json!([]), 0, format!("{e:?}")),
        Err(_) => (json!([]), 0, "panic".to_string()),
    }
}

pub async fn observe(qs: &QueryServer, tr: &mut Tracer, snap: &Snapshot, f: &J, w: bool) {
    let filt = match filter_from_json(f, w) {
        Ok(x) => x,
        Err(e) => tool_error(&format!("bad filter json: {e}")),
    };
    let ident = kvf::internal_identity();
    let mut rd = qs.read().await.unwrap_or_else(|_| tool_error("read txn"));
    // cold: first search of this filter on this server / index layout
    let r1 = catch(|| rd.internal_search(filt.clone()));
    let (res, ro, rerr) = res_fields(snap, r1);
    // what the backend did: resolved + optimised filter (same index metadata, no cache) and raw candidate set
    let (rf, ik, is, io) = match kvf::resolve_be(&mut rd, &filt, &ident) {
        Ok(rf) => {
            let rfj = resolved_to_json(rf.to_inner());
            match kvf::filter2idl(&mut rd, &rf, 0) {
                Ok((k, ids)) => {
                    let (m, o) = project_ids(snap, ids.into_iter());
                    (rfj, k.to_string(), json!(m), o)
                }
                Err(e) => (rfj, format!("err:{e:?}"), json!([]), 0),
            }
        }
        Err(e) => (json!({"k":"err","e":format!("{e:?}")}), "err".to_string(), json!([]), 0),
    };
    let ex = match catch(|| rd.internal_exists(&filt)) {
        Ok(Ok(b)) => b as u64,
        _ => 2,
    };
    // warm: same transaction, resolved filter now cached
    let r2 = catch(|| rd.internal_search(filt.clone()));
    let (wres, wo, werr) = res_fields(snap, r2);
    drop(rd);
    tr.emit(&json!({"a":"search","f":f,"w":w,"rf":rf,"ik":ik,"is":is,"io":io,
        "res":res,"ro":ro,"rerr":rerr,"wres":wres,"wo":wo,"werr":werr,"ex":ex}));
}

pub async fn run_group(g: &Group, tr: &mut Tracer) {
    let qs = new_server().await;
    populate(&qs, &g.shapes, 2).await;
    set_layout(&qs, &g.keys, g.reload, 3).await;
    let mut snap = {
        let mut rd = qs.read().await.unwrap_or_else(|_| tool_error("read txn"));
        snapshot(&mut rd)
    };
    tr.emit(&json!({"a":"reset","keys":g.keys,"reload":g.reload,
        "shapes":g.shapes.iter().map(|s| json!({"a":s.a,"b":s.b,"rc":s.recycled})).collect::<Vec<_>>(),
        "db":snap.db,"others":snap.others,"idx":snap.idx,"attrord":attr_order(),"thres":0}));
    let mut at = 10;
    let mut nsearch = 0u64;
    for st in &g.steps {
        match st {
            Ok((f, w)) => {
                observe(&qs, tr, &snap, f, *w).await;
                nsearch += 1;
                // every 7th filter once more in a NEW transaction (cache carried across transactions)
                if nsearch % 7 == 0 {
                    observe(&qs, tr, &snap, f, *w).await;
                }
            }
            Err(ch) => {
                at += 1;
                reshape(&qs, ch, at).await;
                let mut rd = qs.read().await.unwrap_or_else(|_| tool_error("read txn"));
                snap = snapshot(&mut rd);
                tr.emit(&json!({"a":"reshape","changes":ch.iter().map(|(n,s)| json!({"id":n,"a":s.a,"b":s.b})).collect::<Vec<_>>(),
                    "db":snap.db,"others":snap.others,"idx":snap.idx}));
            }
        }
    }
}

fn keys_of_layout(n: u64) -> Vec<String> {
    // KFilterMC.KeysOf
    let m = (n - 1) % 16;
    let ab = ["a.eq", "a.pres", "b.eq", "b.pres"];
    let mut v: Vec<String> = ab.iter().enumerate().filter(|(i, _)| (m >> i) & 1 == 1).map(|(_, k)| k.to_string()).collect();
    if n <= 16 {
        v.push("a.sub".into());
        v.push("b.ord".into());
    }
    v.sort();
    v
}

fn random_shape(rng: &mut Rng) -> Shape {
    let sub = |rng: &mut Rng| -> Vec<u64> { [1u64, 2].iter().copied().filter(|_| rng.chance(1, 2)).collect() };
    let b = match rng.below(3) {
        0 => vec![],
        k => vec![k],
    };
    Shape { a: sub(rng), b, recycled: false }
}

pub fn run(o: &Opts) -> i32 {
    check_tables();
    let out = o.str("out", "/verif/work/C01/obs.ndjson");
    let mut tr = Tracer::create(&out);
    let rt = runtime();
    let mut groups: Vec<Group> = Vec::new();

    if let Some(rp) = o.get("replay") {
        // re-execute the steps of a replay file (reset / reshape / search lines) on the current tree
        let mut cur: Option<Group> = None;
        for r in read_ndjson(rp) {
            match r["a"].as_str().unwrap_or("") {
                "reset" => {
                    if let Some(g) = cur.take() {
                        groups.push(g);
                    }
                    cur = Some(Group {
                        keys: r["keys"].as_array().map(|v| v.iter().filter_map(|x| x.as_str().map(String::from)).collect()).unwrap_or_default(),
                        reload: r["reload"].as_bool().unwrap_or(false),
                        shapes: r["shapes"].as_array().map(|v| v.iter().map(Shape::from_json).collect()).unwrap_or_default(),
                        steps: vec![],
                    });
                }
                "reshape" => {
                    if let Some(g) = cur.as_mut() {
                        g.steps.push(Err(r["changes"].as_array().map(|v| v.iter().map(|c| (c["id"].as_u64().unwrap_or(0), Shape::from_json(c))).collect()).unwrap_or_default()));
                    }
                }
                "search" => {
                    if let Some(g) = cur.as_mut() {
                        g.steps.push(Ok((r["f"].clone(), r["w"].as_bool().unwrap_or(false))));
                    }
                }
                _ => {}
            }
        }
        if let Some(g) = cur.take() {
            groups.push(g);
        }
    } else {
        let seed = o.seed();
        let mut rng = Rng::new(seed);
        let layouts: Vec<u64> = o.str("layouts", "16,17,4,22").split(',').filter_map(|x| x.parse().ok()).collect();
        // (A) cases printed by the exhaustive TLC run: grouped by (index keys, database)
        if let Some(cf) = o.get("cases") {
            let mut by: std::collections::BTreeMap<String, Group> = std::collections::BTreeMap::new();
            for c in read_ndjson(cf) {
                let mut keys: Vec<String> = c["keys"].as_array().map(|v| v.iter().filter_map(|x| x.as_str().map(String::from)).filter(|k| k.starts_with("a.") || k.starts_with("b.")).collect()).unwrap_or_default();
                keys.sort();
                // b is single valued on the real server: shapes with two values of b stay model-only
                let shapes: Vec<Shape> = c["db"].as_array().map(|v| v.iter().map(Shape::from_json).filter(|s| s.b.len() <= 1).collect()).unwrap_or_default();
                let gk = format!("{keys:?}|{}", c["db"]);
                let g = by.entry(gk).or_insert_with(|| Group { keys, reload: false, shapes, steps: vec![] });
                g.steps.push(Ok((c["f"].clone(), c["w"].as_bool().unwrap_or(false))));
            }
            let cap = o.u64("case-groups", 12) as usize;
            let mut gs: Vec<Group> = by.into_values().collect();
            gs.sort_by_key(|g| std::cmp::Reverse(g.steps.len()));
            gs.truncate(cap);
            groups.extend(gs);
        }
        // all depth<=1 filters (full leaf alphabet), both wrappers, every requested layout, full population
        if !o.flag("no-depth1") {
            for (i, l) in layouts.iter().enumerate() {
                let mut steps = Vec::new();
                for f in depth1_filters() {
                    steps.push(Ok((f.clone(), true)));
                    steps.push(Ok((f, false)));
                }
                groups.push(Group { keys: keys_of_layout(*l), reload: i % 2 == 1, shapes: full16(), steps });
            }
        }
        // (B) seeded random: deeper / wider filters, random layouts, populations with recycled entries,
        // in-place reshaping between batches
        let nrand = o.u64("random", 0);
        if nrand > 0 {
            let ngroups = o.u64("random-groups", 4).max(1);
            let per = nrand / ngroups;
            let depth = o.u64("depth", 4);
            let width = o.u64("width", 3);
            for gi in 0..ngroups {
                let lay = if gi == 0 { 16 } else { rng.range(1, 32) };
                let mut shapes = full16();
                // four more entries, random shapes, two of them in the recycle bin
                for k in 0..4 {
                    let mut s = random_shape(&mut rng);
                    s.recycled = k >= 2;
                    shapes.push(s);
                }
                if gi % 3 == 2 {
                    // a sparse population: most entries carry neither attribute
                    for s in shapes.iter_mut().take(12) {
                        if rng.chance(3, 4) {
                            s.a.clear();
                            s.b.clear();
                        }
                    }
                }
                let mut steps = Vec::new();
                for k in 0..per {
                    if k > 0 && k % (per / 3).max(1) == 0 {
                        let n = rng.range(1, 12);
                        let m = rng.range(1, 12);
                        steps.push(Err(vec![(n, random_shape(&mut rng)), (m, random_shape(&mut rng))]));
                    }
                    let d = rng.range(1, depth);
                    steps.push(Ok((random_filter(&mut rng, d, width, false), rng.chance(1, 2))));
                }
                groups.push(Group { keys: keys_of_layout(lay), reload: rng.chance(1, 2), shapes, steps });
            }
        }
    }
    rt.block_on(async {
        for g in &groups {
            run_group(g, &mut tr).await;
        }
    });
    let n = tr.finish();
    println!("OBSERVED lines={n} groups={} out={out}", groups.len());
    0
}
