//! C41: LDAP and SCIM filters through the REAL protocol search paths of a real IdmServer:
//!   LDAP: anonymous bind + `LdapServer::do_op(Search)` (subtree at the base dn), uuids read from the result entries;
//!   SCIM: `QueryServerReadTransaction::scim_search_ext` (endpoint class filter AND the user's filter) as the anonymous account.
//! An access profile lets every account search the model attributes on the model population.
//! Lines (spec/KProtoFilterTrace.tla):
//!  {"a":"reset",...}  as c01 (every live / recycled model entry; class 93 = extensibleobject)
//!  {"a":"proto","kind":"ldap"|"scim","pf":F,"res":[ids],"err":""|text}
use crate::fmodel::*;
use futures::FutureExt;
use kanidm_proto::attribute::{Attribute as PAttr, SubAttribute};
use kanidm_proto::scim_v1::{AttrPath, ScimEntryGetQuery, ScimFilter};
use kanidmd_lib::idm::ldap::{LdapBoundToken, LdapResponseState, LdapServer};
use kanidmd_lib::prelude::*;
use kvc::srv::*;
use kvc::util::*;
use ldap3_proto::proto::{LdapOp, LdapSubstringFilter};
use ldap3_proto::simple::*;
use serde_json::{json, Value as J};
use std::net::{IpAddr, Ipv4Addr};

const BASEDN: &str = "dc=example,dc=com";
const NO_NEEDLE: u64 = 9;

fn lname(a: &str) -> String {
    attr(a).to_string()
}
fn lval(a: &str, v: u64) -> String {
    match a {
        "a" => STRS.get(v as usize).copied().unwrap_or("zzz").to_string(),
        _ => v.to_string(),
    }
}
fn needle(n: u64) -> String {
    NEEDLES.get(n as usize).copied().unwrap_or("zzz").to_string()
}

fn ldap_from_json(j: &J) -> Result<LdapFilter, String> {
    let k = j["k"].as_str().ok_or("k")?;
    let a = j["a"].as_str().unwrap_or("a");
    Ok(match k {
        "and" | "or" => {
            let v: Result<Vec<LdapFilter>, String> = j["fs"].as_array().ok_or("fs")?.iter().map(ldap_from_json).collect();
            if k == "and" { LdapFilter::And(v?) } else { LdapFilter::Or(v?) }
        }
        "not" => LdapFilter::Not(Box::new(ldap_from_json(&j["f"])?)),
        "eq" => LdapFilter::Equality(lname(a), lval(a, j["v"].as_u64().ok_or("v")?)),
        "pres" => LdapFilter::Present(lname(a)),
        "substr" => {
            let i = j["i"].as_u64().ok_or("i")?;
            let f = j["f"].as_u64().ok_or("f")?;
            LdapFilter::Substring(
                lname(a),
                LdapSubstringFilter {
                    initial: if i == NO_NEEDLE { None } else { Some(needle(i)) },
                    any: j["any"].as_array().ok_or("any")?.iter().filter_map(|x| x.as_u64()).map(needle).collect(),
                    final_: if f == NO_NEEDLE { None } else { Some(needle(f)) },
                },
            )
        }
        "ge" => LdapFilter::GreaterOrEqual(lname(a), lval(a, j["v"].as_u64().unwrap_or(1))),
        "le" => LdapFilter::LessOrEqual(lname(a), lval(a, j["v"].as_u64().unwrap_or(1))),
        "approx" => LdapFilter::Approx(lname(a), lval(a, j["v"].as_u64().unwrap_or(1))),
        o => return Err(format!("ldap kind {o}")),
    })
}

fn scim_from_json(j: &J) -> Result<ScimFilter, String> {
    let k = j["k"].as_str().ok_or("k")?;
    let a = j["a"].as_str().unwrap_or("a");
    let path = || AttrPath { a: PAttr::from(lname(a).as_str()), s: None };
    Ok(match k {
        "and" => ScimFilter::And(Box::new(scim_from_json(&j["l"])?), Box::new(scim_from_json(&j["r"])?)),
        "or" => ScimFilter::Or(Box::new(scim_from_json(&j["l"])?), Box::new(scim_from_json(&j["r"])?)),
        "not" => ScimFilter::Not(Box::new(scim_from_json(&j["e"])?)),
        "pr" => ScimFilter::Present(path()),
        "complex" => ScimFilter::Present(AttrPath { a: PAttr::from(lname(a).as_str()), s: Some(SubAttribute::from("value")) }),
        "cmp" => {
            let op = j["op"].as_str().ok_or("op")?;
            let v = j["v"].as_u64().ok_or("v")?;
            // strings: value ids for eq / ordering, needle ids for co / sw / ew; numbers as JSON numbers
            let jv: serde_json::Value = match (a, op) {
                ("a", "co") | ("a", "sw") | ("a", "ew") => json!(needle(v)),
                ("a", _) => json!(lval("a", v)),
                _ => json!(v),
            };
            match op {
                "eq" => ScimFilter::Equal(path(), jv),
                "ne" => ScimFilter::NotEqual(path(), jv),
                "co" => ScimFilter::Contains(path(), jv),
                "sw" => ScimFilter::StartsWith(path(), jv),
                "ew" => ScimFilter::EndsWith(path(), jv),
                "gt" => ScimFilter::Greater(path(), jv),
                "ge" => ScimFilter::GreaterOrEqual(path(), jv),
                "lt" => ScimFilter::Less(path(), jv),
                "le" => ScimFilter::LessOrEqual(path(), jv),
                o => return Err(format!("scim op {o}")),
            }
        }
        o => return Err(format!("scim kind {o}")),
    })
}

struct World {
    idms: IdmServer,
    ldaps: LdapServer,
    anon: LdapBoundToken,
    snap: Snapshot,
}

async fn build(keys: &[String], reload: bool, shapes: &[Shape]) -> World {
    let qs = new_server().await;
    populate(&qs, shapes, 2).await;
    {
        // search access for every account on the model population and the attributes the filters use
        let mut wr = qs.write(t(3)).await.unwrap_or_else(|_| tool_error("write txn"));
        let grp = wr.name_to_uuid("idm_all_accounts").unwrap_or_else(|_| tool_error("idm_all_accounts"));
        let mut e: EntryInitNew = Entry::new();
        for c in [EntryClass::Object, EntryClass::AccessControlProfile, EntryClass::AccessControlSearch,
                  EntryClass::AccessControlReceiverGroup, EntryClass::AccessControlTargetScope] {
            e.add_ava(Attribute::Class, c.to_value());
        }
        e.add_ava(Attribute::Name, Value::new_iname("kv_acp_model_search"));
        e.add_ava(Attribute::Uuid, Value::Uuid(uuid_e(90_010)));
        e.add_ava(Attribute::Description, Value::new_utf8s("verification: search the model population"));
        e.add_ava(Attribute::AcpReceiverGroup, Value::Refer(grp));
        e.add_ava(Attribute::AcpTargetScope, Value::JsonFilt(ProtoFilter::Eq("class".to_string(), "extensibleobject".to_string())));
        for a in [Attribute::Class, Attribute::Uuid, attr("a"), attr("b")] {
            e.add_ava(Attribute::AcpSearchAttr, Value::from(a));
        }
        wr.internal_create(vec![e]).unwrap_or_else(|e| tool_error(&format!("acp create {e:?}")));
        wr.commit().unwrap_or_else(|e| tool_error(&format!("acp commit {e:?}")));
    }
    set_layout(&qs, keys, reload, 4).await;
    let snap = {
        let mut rd = qs.read().await.unwrap_or_else(|_| tool_error("read txn"));
        snapshot(&mut rd)
    };
    let (idms, _d, _a) = new_idms(qs, t(5)).await;
    let ldaps = LdapServer::new(&idms).await.unwrap_or_else(|e| tool_error(&format!("ldap server {e:?}")));
    let op = ServerOps::SimpleBind(SimpleBindRequest { msgid: 1, dn: "".into(), pw: "".into() });
    let anon = match ldaps.do_op(&idms, op, None, ip(), Uuid::from_u128(0xc41)).await {
        Ok(LdapResponseState::Bind(lbt, _)) => lbt,
        o => tool_error(&format!("anonymous bind failed: {}", o.is_ok())),
    };
    World { idms, ldaps, anon, snap }
}
fn ip() -> IpAddr {
    IpAddr::V4(Ipv4Addr::new(127, 0, 0, 1))
}

fn ids_of(snap: &Snapshot, uuids: impl Iterator<Item = Uuid>) -> Vec<u64> {
    // population ids only: entries outside the population are subject to access control and are not judged here
    let _ = snap;
    let mut v: Vec<u64> = uuids.filter_map(model_id).collect();
    v.sort();
    v.dedup();
    v
}

async fn observe(w: &World, tr: &mut Tracer, kind: &str, pf: &J) {
    let (res, err): (Vec<u64>, String) = if kind == "ldap" {
        match ldap_from_json(pf) {
            Err(e) => tool_error(&format!("bad ldap filter json {e}")),
            Ok(lf) => {
                let sr = SearchRequest { msgid: 2, base: BASEDN.into(), scope: LdapSearchScope::Subtree, filter: lf, attrs: vec!["uuid".to_string()] };
                let fut = w.ldaps.do_op(&w.idms, ServerOps::Search(sr), Some(w.anon.clone()), ip(), Uuid::from_u128(0xc41));
                match std::panic::AssertUnwindSafe(fut).catch_unwind().await {
                    Err(_) => (vec![], "panic".into()),
                    Ok(Err(e)) => (vec![], format!("{e:?}")),
                    Ok(Ok(LdapResponseState::MultiPartResponse(msgs))) | Ok(Ok(LdapResponseState::BindMultiPartResponse(_, msgs))) => {
                        let mut uu = Vec::new();
                        let mut code = String::from("none");
                        for m in &msgs {
                            match &m.op {
                                LdapOp::SearchResultEntry(e) => {
                                    for a in &e.attributes {
                                        if a.atype.eq_ignore_ascii_case("uuid") {
                                            for v in &a.vals {
                                                if let Ok(u) = Uuid::parse_str(&String::from_utf8_lossy(v)) {
                                                    uu.push(u);
                                                }
                                            }
                                        }
                                    }
                                }
                                LdapOp::SearchResultDone(r) => code = format!("{:?}", r.code),
                                _ => {}
                            }
                        }
                        if code == "Success" { (ids_of(&w.snap, uu.into_iter()), String::new()) } else { (vec![], code) }
                    }
                    Ok(Ok(_)) => (vec![], "unexpected response".into()),
                }
            }
        }
    } else {
        match scim_from_json(pf) {
            Err(e) => tool_error(&format!("bad scim filter json {e}")),
            Ok(sf) => {
                let mut rd = w.idms.proxy_read().await.unwrap_or_else(|_| tool_error("proxy_read"));
                let anon = rd.qs_read.internal_search_uuid(UUID_ANONYMOUS).unwrap_or_else(|_| tool_error("anonymous entry"));
                let ident = Identity::from_impersonate_entry_readwrite(anon);
                let base = ScimFilter::Equal(AttrPath { a: PAttr::Class, s: None }, json!("extensibleobject"));
                let mut q = ScimEntryGetQuery::default();
                q.filter = Some(sf);
                match catch(|| rd.qs_read.scim_search_ext(ident, base, q)) {
                    Err(_) => (vec![], "panic".into()),
                    Ok(Err(e)) => (vec![], format!("{e:?}")),
                    Ok(Ok(l)) => (ids_of(&w.snap, l.resources.iter().map(|r| r.header.id)), String::new()),
                }
            }
        }
    };
    tr.emit(&json!({"a":"proto","kind":kind,"pf":pf,"res":res,"err":err}));
}

// ---- generators
fn ldap_leaves() -> Vec<J> {
    let sub = |i: u64, any: Vec<u64>, f: u64| json!({"k":"substr","a":"a","i":i,"any":any,"f":f});
    vec![
        json!({"k":"eq","a":"a","v":1}), json!({"k":"eq","a":"a","v":2}), json!({"k":"eq","a":"b","v":1}), json!({"k":"eq","a":"b","v":2}),
        json!({"k":"pres","a":"a"}), json!({"k":"pres","a":"b"}),
        sub(0, vec![], 9), sub(9, vec![], 1), sub(0, vec![], 1), sub(9, vec![0], 9), sub(2, vec![], 0), sub(9, vec![0, 1], 9),
        sub(1, vec![], 9), sub(9, vec![2], 0), sub(2, vec![0], 9),
        json!({"k":"ge","a":"b","v":1}), json!({"k":"le","a":"b","v":2}), json!({"k":"approx","a":"a","v":1}),
    ]
}
fn scim_leaves() -> Vec<J> {
    let mut v = vec![json!({"k":"pr","a":"a"}), json!({"k":"pr","a":"b"}), json!({"k":"complex","a":"a"})];
    for op in ["eq", "ne", "gt", "ge", "lt", "le"] {
        for x in [1u64, 2] {
            v.push(json!({"k":"cmp","op":op,"a":"a","v":x}));
        }
    }
    for op in ["co", "sw", "ew"] {
        for x in [0u64, 1, 2] {
            v.push(json!({"k":"cmp","op":op,"a":"a","v":x}));
        }
    }
    for op in ["eq", "gt", "le"] {
        v.push(json!({"k":"cmp","op":op,"a":"b","v":1}));
    }
    v
}
fn rand_ldap(rng: &mut Rng, depth: u64, width: u64) -> J {
    let leaves = ldap_leaves();
    if depth == 0 || rng.chance(1, 4) {
        // unsupported operators are rare so that most filters are answered
        let n = if rng.chance(1, 12) { leaves.len() } else { leaves.len() - 3 };
        return leaves[rng.below(n as u64) as usize].clone();
    }
    match rng.below(5) {
        0 | 1 => json!({"k":"and","fs":(0..rng.range(1, width)).map(|_| rand_ldap(rng, depth - 1, width)).collect::<Vec<_>>()}),
        2 | 3 => json!({"k":"or","fs":(0..rng.range(1, width)).map(|_| rand_ldap(rng, depth - 1, width)).collect::<Vec<_>>()}),
        _ => json!({"k":"not","f":rand_ldap(rng, depth - 1, width)}),
    }
}
fn rand_scim(rng: &mut Rng, depth: u64) -> J {
    let leaves = scim_leaves();
    if depth == 0 || rng.chance(1, 4) {
        let l = leaves[rng.below(leaves.len() as u64) as usize].clone();
        // comparisons on the integer attribute, ne and complex paths are refused: keep them rare
        let refused = l["k"] == "complex" || l["op"] == "ne" || (l["k"] == "cmp" && l["a"] == "b");
        return if refused && !rng.chance(1, 10) { json!({"k":"pr","a":"b"}) } else { l };
    }
    match rng.below(5) {
        0 | 1 => json!({"k":"and","l":rand_scim(rng, depth - 1),"r":rand_scim(rng, depth - 1)}),
        2 | 3 => json!({"k":"or","l":rand_scim(rng, depth - 1),"r":rand_scim(rng, depth - 1)}),
        _ => json!({"k":"not","e":rand_scim(rng, depth - 1)}),
    }
}

fn keys_of_layout(n: u64) -> Vec<String> {
    let m = (n - 1) % 16;
    let ab = ["a.eq", "a.pres", "b.eq", "b.pres"];
    let mut v: Vec<String> = ab.iter().enumerate().filter(|(i, _)| (m >> i) & 1 == 1).map(|(_, k)| k.to_string()).collect();
    if n <= 16 {
        v.push("a.sub".into());
        v.push("b.ord".into());
    }
    v.sort();
    v
}

struct Group {
    keys: Vec<String>,
    reload: bool,
    shapes: Vec<Shape>,
    steps: Vec<(String, J)>,
}

pub fn run(o: &Opts) -> i32 {
    check_tables();
    let out = o.str("out", "/verif/work/C41/obs.ndjson");
    let mut tr = Tracer::create(&out);
    let rt = runtime();
    let mut groups: Vec<Group> = Vec::new();
    let mut pop = full16();
    pop.push(Shape { a: vec![1, 2], b: vec![], recycled: false });
    pop.push(Shape { a: vec![2], b: vec![1], recycled: true });
    pop.push(Shape { a: vec![1], b: vec![2], recycled: true });
    if let Some(rp) = o.get("replay") {
        let mut cur: Option<Group> = None;
        for r in read_ndjson(rp) {
            match r["a"].as_str().unwrap_or("") {
                "reset" => {
                    if let Some(g) = cur.take() {
                        groups.push(g);
                    }
                    cur = Some(Group {
                        keys: r["keys"].as_array().map(|v| v.iter().filter_map(|x| x.as_str().map(String::from)).collect()).unwrap_or_default(),
                        reload: r["reload"].as_bool().unwrap_or(false),
                        shapes: r["shapes"].as_array().map(|v| v.iter().map(Shape::from_json).collect()).unwrap_or_default(),
                        steps: vec![],
                    });
                }
                "proto" => {
                    if let Some(g) = cur.as_mut() {
                        g.steps.push((r["kind"].as_str().unwrap_or("ldap").to_string(), r["pf"].clone()));
                    }
                }
                _ => {}
            }
        }
        if let Some(g) = cur.take() {
            groups.push(g);
        }
    } else {
        let mut rng = Rng::new(o.seed());
        let layouts: Vec<u64> = o.str("layouts", "16,17").split(',').filter_map(|x| x.parse().ok()).collect();
        // (A) cases chosen by the exhaustive TLC run, grouped by index keys
        let mut by: std::collections::BTreeMap<String, Group> = std::collections::BTreeMap::new();
        if let Some(cf) = o.get("cases") {
            for c in read_ndjson(cf) {
                let mut keys: Vec<String> = c["keys"].as_array().map(|v| v.iter().filter_map(|x| x.as_str().map(String::from)).filter(|k| k.starts_with("a.") || k.starts_with("b.")).collect()).unwrap_or_default();
                keys.sort();
                let g = by.entry(format!("{keys:?}")).or_insert_with(|| Group { keys, reload: false, shapes: pop.clone(), steps: vec![] });
                g.steps.push((c["kind"].as_str().unwrap_or("ldap").to_string(), c["pf"].clone()));
            }
        }
        groups.extend(by.into_values());
        // every leaf, NOT leaf and every AND / OR of two leaves of the full protocol alphabets
        if !o.flag("no-depth1") {
            for (i, l) in layouts.iter().enumerate() {
                let mut steps = Vec::new();
                let ll = ldap_leaves();
                for x in &ll {
                    steps.push(("ldap".to_string(), x.clone()));
                    steps.push(("ldap".to_string(), json!({"k":"not","f":x})));
                    steps.push(("ldap".to_string(), json!({"k":"and","fs":[x]})));
                }
                let sl = scim_leaves();
                for x in &sl {
                    steps.push(("scim".to_string(), x.clone()));
                    steps.push(("scim".to_string(), json!({"k":"not","e":x})));
                }
                if i == 0 || o.flag("pairs-all") {
                    for x in &ll {
                        for y in &ll {
                            steps.push(("ldap".to_string(), json!({"k":"and","fs":[x, y]})));
                            steps.push(("ldap".to_string(), json!({"k":"or","fs":[x, y]})));
                        }
                    }
                    for x in &sl {
                        for y in &sl {
                            steps.push(("scim".to_string(), json!({"k":"and","l":x,"r":y})));
                            steps.push(("scim".to_string(), json!({"k":"or","l":x,"r":y})));
                        }
                    }
                }
                groups.push(Group { keys: keys_of_layout(*l), reload: i % 2 == 1, shapes: pop.clone(), steps });
            }
        }
        // (B) seeded random protocol filters, random layouts
        let nrand = o.u64("random", 0);
        if nrand > 0 {
            let ng = o.u64("random-groups", 3).max(1);
            for gi in 0..ng {
                let lay = if gi == 0 { 16 } else { rng.range(1, 32) };
                let mut steps = Vec::new();
                for _ in 0..(nrand / ng) {
                    let d = rng.range(1, o.u64("depth", 4));
                    if rng.chance(1, 2) {
                        steps.push(("ldap".to_string(), rand_ldap(&mut rng, d, o.u64("width", 3))));
                    } else {
                        steps.push(("scim".to_string(), rand_scim(&mut rng, d)));
                    }
                }
                groups.push(Group { keys: keys_of_layout(lay), reload: rng.chance(1, 2), shapes: pop.clone(), steps });
            }
        }
    }
    rt.block_on(async {
        for g in &groups {
            let w = build(&g.keys, g.reload, &g.shapes).await;
            // every model entry is an extensibleobject (class id 93)
            let mut db = w.snap.db.clone();
            if let Some(v) = db.as_array_mut() {
                for e in v.iter_mut() {
                    if let Some(c) = e["class"].as_array_mut() {
                        c.push(json!(93));
                    }
                }
            }
            tr.emit(&json!({"a":"reset","keys":g.keys,"reload":g.reload,
                "shapes":g.shapes.iter().map(|s| json!({"a":s.a,"b":s.b,"rc":s.recycled})).collect::<Vec<_>>(),
                "db":db,"others":0,"idx":w.snap.idx,"attrord":attr_order(),"thres":0}));
            for (kind, pf) in &g.steps {
                observe(&w, &mut tr, kind, pf).await;
            }
        }
    });
    let n = tr.finish();
    println!("OBSERVED lines={n} groups={} out={out}", groups.len());
    0
}
