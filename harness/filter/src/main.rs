//! Group driver: runs the REAL kanidm code and records observed traces (ndjson) which TLC
//! validates against the TLA+ specifications in /verif/spec. See /verif/DESIGN.md.
#[macro_use]
extern crate tracing;
use kvc::util::Opts;
mod c01;
mod c02;
mod c14;
mod c41;
mod c42;
mod fmodel;
mod schemadump;

fn main() {
    let args: Vec<String> = std::env::args().collect();
    if args.len() < 2 {
        eprintln!("usage: {} <subcommand> [--key value ...]", args[0]);
        std::process::exit(2);
    }
    let opts = Opts::parse(&args[2..]);
    let rc = match args[1].as_str() {
        "c01" => c01::run(&opts),
        "c02" => c02::run(&opts),
        "c14" => c14::run(&opts),
        "c41" => c41::run(&opts),
        "c42" => c42::run(&opts),
        "schema" => schemadump::run(&opts),
        other => {
            eprintln!("unknown subcommand {other}");
            2
        }
    };
    std::process::exit(rc);
}
