//! C14: the REAL replication codecs (server/core/src/repl/codec.rs, compiled into this driver) under
//! arbitrary fragmentation.  Messages are encoded by the real encoders back to back, poisoned frames
//! (declared length 0 / above the limit) and frames of exactly the limit are crafted, the byte stream is
//! fed to the real decoder in chunks and `decode` is called after every read until it asks for more or
//! fails -- what tokio_util's FramedRead does.  One ndjson line per case (shape: spec/KWireTrace.tla).
#[allow(dead_code, unused_imports, clippy::all)]
mod codec {
    include!(env!("KV_CODEC_RS"));
}
use bytes::BytesMut;
use codec::{ConsumerCodec, ConsumerRequest, SupplierCodec, SupplierResponse};
use kanidmd_lib::repl::proto::{ReplCidRange, ReplIncrementalContext, ReplRefreshContext, ReplRuvRange};
use kvc::util::*;
use serde_json::{json, Value as J};
use std::collections::BTreeMap;
use std::time::Duration;
use tokio_util::codec::{Decoder, Encoder};
use uuid::Uuid;

const HDR: usize = 8;

/// What goes on the wire for one frame.
#[derive(Clone)]
enum Spec {
    /// real message, index into the direction's message pool, encoded by the real encoder
    Msg(usize),
    /// real message JSON padded with trailing whitespace to exactly `n` body bytes (crafted header)
    Padded(usize, usize),
    /// header declares 0
    Zero,
    /// header declares `declared` (> max), followed by `body` arbitrary bytes
    Large(u64, usize),
}

fn c2s_pool() -> Vec<ConsumerRequest> {
    let mut ranges = BTreeMap::new();
    for i in 0..6u128 {
        ranges.insert(
            Uuid::from_u128(0x5e5e_0000_0000_4000_8000_0000_0000_0000u128 + i),
            ReplCidRange { ts_min: Duration::from_secs(10 + i as u64), ts_max: Duration::new(1_700_000_000 + i as u64, 17) },
        );
    }
    vec![
        ConsumerRequest::Ping,
        ConsumerRequest::Refresh,
        ConsumerRequest::Incremental(ReplRuvRange::V1 { domain_uuid: Uuid::from_u128(7), ranges: BTreeMap::new() }),
        ConsumerRequest::Incremental(ReplRuvRange::V1 { domain_uuid: Uuid::from_u128(9), ranges }),
    ]
}
fn s2c_pool() -> Vec<SupplierResponse> {
    vec![
        SupplierResponse::Pong,
        SupplierResponse::Incremental(ReplIncrementalContext::NoChangesAvailable),
        SupplierResponse::Incremental(ReplIncrementalContext::RefreshRequired),
        SupplierResponse::Incremental(ReplIncrementalContext::V1 {
            domain_version: 16,
            domain_patch_level: 2,
            domain_uuid: Uuid::from_u128(7),
            ranges: BTreeMap::new(),
            schema_entries: vec![],
            meta_entries: vec![],
            entries: vec![],
        }),
        SupplierResponse::Refresh(ReplRefreshContext::V1 {
            domain_version: 16,
            domain_devel: true,
            domain_uuid: Uuid::from_u128(7),
            ranges: BTreeMap::new(),
            schema_entries: vec![],
            meta_entries: vec![],
            entries: vec![],
        }),
    ]
}

struct Built {
    bytes: Vec<u8>,
    frames: Vec<J>,
    /// canonical JSON of the message each frame carries ("" for poisoned frames)
    sent: Vec<String>,
}

fn pool_json(c2s: bool, i: usize) -> String {
    if c2s {
        serde_json::to_string(&c2s_pool()[i]).expect("json")
    } else {
        serde_json::to_string(&s2c_pool()[i]).expect("json")
    }
}
fn pool_len(c2s: bool) -> usize {
    if c2s { c2s_pool().len() } else { s2c_pool().len() }
}

fn build(c2s: bool, specs: &[Spec]) -> Built {
    // consecutive real messages are encoded into ONE buffer by ONE encoder, as a connection does
    let mut dst = BytesMut::new();
    let mut enc_c = ConsumerCodec::new(0);
    let mut enc_s = SupplierCodec::new(0);
    let mut frames = Vec::new();
    let mut sent = Vec::new();
    for (k, sp) in specs.iter().enumerate() {
        let id = format!("m{}", k + 1);
        match sp {
            Spec::Msg(i) => {
                let before = dst.len();
                let r = if c2s {
                    enc_c.encode(c2s_pool().swap_remove(*i), &mut dst)
                } else {
                    enc_s.encode(s2c_pool().swap_remove(*i), &mut dst)
                };
                if r.is_err() {
                    eprintln!("TOOL-ERROR encoder failed");
                    std::process::exit(2);
                }
                let blen = dst.len() - before - HDR;
                frames.push(json!({"len": blen, "blen": blen, "m": id}));
                sent.push(pool_json(c2s, *i));
            }
            Spec::Padded(i, n) => {
                let mut body = pool_json(c2s, *i).into_bytes();
                while body.len() < *n {
                    body.push(b' ');
                }
                dst.extend_from_slice(&(body.len() as u64).to_be_bytes());
                dst.extend_from_slice(&body);
                frames.push(json!({"len": body.len(), "blen": body.len(), "m": id}));
                sent.push(pool_json(c2s, *i));
            }
            Spec::Zero => {
                dst.extend_from_slice(&0u64.to_be_bytes());
                frames.push(json!({"len": 0, "blen": 0, "m": id}));
                sent.push(String::new());
            }
            Spec::Large(declared, body) => {
                dst.extend_from_slice(&declared.to_be_bytes());
                dst.extend_from_slice(&vec![b'x'; *body]);
                // TLC integers are 32 bit: clamp what is logged, keeping it above every limit used
                frames.push(json!({"len": (*declared).min(1_000_000_000), "blen": body, "m": id}));
                sent.push(String::new());
            }
        }
    }
    Built { bytes: dst.to_vec(), frames, sent }
}

fn classify<T: serde::Serialize>(r: Result<Option<T>, std::io::Error>, sent: &[String], done: &mut usize) -> String {
    match r {
        Ok(None) => "none".into(),
        Ok(Some(m)) => {
            let js = serde_json::to_string(&m).unwrap_or_default();
            // the message that has to come next, else any other sent message (reordering), else garbage
            let r = if sent.get(*done).map(|s| *s == js).unwrap_or(false) {
                format!("m{}", *done + 1)
            } else if let Some(j) = sent.iter().position(|s| *s == js) {
                format!("m{}", j + 1)
            } else {
                "m0".to_string()
            };
            *done += 1;
            r
        }
        Err(e) => match (e.kind(), e.to_string().as_str()) {
            (std::io::ErrorKind::InvalidInput, "empty request") => "empty".into(),
            (std::io::ErrorKind::OutOfMemory, _) => "large".into(),
            (std::io::ErrorKind::InvalidInput, _) => "json".into(),
            _ => "err".into(),
        },
    }
}

fn run_case(c2s: bool, max: usize, specs: &[Spec], cuts: &[usize]) -> J {
    let b = build(c2s, specs);
    let mut steps = Vec::new();
    let mut buf = BytesMut::new();
    let mut dec_s = SupplierCodec::new(max);
    let mut dec_c = ConsumerCodec::new(max);
    let mut done = 0usize;
    let mut pos = 0usize;
    let mut ends: Vec<usize> = cuts.to_vec();
    ends.push(b.bytes.len());
    let mut dead = false;
    for e in ends {
        if e <= pos {
            continue;
        }
        buf.extend_from_slice(&b.bytes[pos..e]);
        steps.push(json!({"t":"f","n":e - pos}));
        pos = e;
        if dead {
            continue;
        }
        loop {
            let r = catch(|| {
                if c2s {
                    classify(dec_s.decode(&mut buf), &b.sent, &mut done)
                } else {
                    classify(dec_c.decode(&mut buf), &b.sent, &mut done)
                }
            })
            .unwrap_or_else(|_| "panic".to_string());
            steps.push(json!({"t":"d","r":r,"b":buf.len()}));
            if r == "none" {
                break;
            }
            if !r.starts_with('m') || r == "m0" {
                dead = true; // FramedRead ends the stream after a decoder error
                break;
            }
        }
    }
    json!({"a":"case","dir": if c2s {"c2s"} else {"s2c"},"hdr":HDR,"max":max,"frames":b.frames,"steps":steps})
}

/// every way to cut a stream of `n` bytes into at most `chunks` reads
fn all_cuts(n: usize, chunks: usize) -> Vec<Vec<usize>> {
    let mut out = vec![vec![]];
    if chunks >= 2 {
        for a in 1..n {
            out.push(vec![a]);
            if chunks >= 3 {
                for b2 in (a + 1)..n {
                    out.push(vec![a, b2]);
                    if chunks >= 4 {
                        for c in (b2 + 1)..n {
                            out.push(vec![a, b2, c]);
                        }
                    }
                }
            }
        }
    }
    out
}

pub fn run(o: &Opts) -> i32 {
    let out = o.str("out", "/verif/work/C14/obs.ndjson");
    let mut tr = Tracer::create(&out);
    if let Some(rp) = o.get("replay") {
        for r in read_ndjson(rp) {
            // a replay line carries the recipe it was produced from
            let rc = &r["recipe"];
            let specs: Vec<Spec> = rc["specs"].as_array().map(|v| v.iter().map(spec_from).collect()).unwrap_or_default();
            let cuts: Vec<usize> = rc["cuts"].as_array().map(|v| v.iter().filter_map(|x| x.as_u64()).map(|x| x as usize).collect()).unwrap_or_default();
            run_case_r(&mut tr, rc["c2s"].as_bool().unwrap_or(true), rc["max"].as_u64().unwrap_or(12) as usize, &specs, &cuts);
        }
        println!("OBSERVED lines={} out={out}", tr.finish());
        return 0;
    }
    // (A) the exhaustive space of KWireMC: body lengths 6 / 9 / 12 (limit 12), poisoned 0 and 13, <= frames, <= chunks
    let maxf = o.u64("frames", 2) as usize;
    let maxc = o.u64("chunks", 3) as usize;
    let max = 12usize;
    // c2s: Ping = 6 bytes, Refresh = 9 bytes, Ping padded to the limit 12
    let kinds: Vec<Spec> = vec![Spec::Msg(0), Spec::Msg(1), Spec::Padded(0, 12), Spec::Zero, Spec::Large(13, 1)];
    let mut seqs: Vec<Vec<Spec>> = vec![vec![]];
    let mut all: Vec<Vec<Spec>> = Vec::new();
    for _ in 0..maxf {
        let mut nx = Vec::new();
        for s in &seqs {
            for k in &kinds {
                let mut t = s.clone();
                t.push(k.clone());
                nx.push(t);
            }
        }
        all.extend(nx.iter().cloned());
        seqs = nx;
    }
    let mut ncases = 0u64;
    for s in &all {
        let n = build(true, s).bytes.len();
        for cuts in all_cuts(n, maxc) {
            run_case_r(&mut tr, true, max, s, &cuts);
            ncases += 1;
        }
    }
    // (B) seeded random: both directions, larger real messages, limits around the message sizes, many chunks
    let mut rng = Rng::new(o.seed());
    for _ in 0..o.u64("random", 0) {
        let c2s = rng.chance(1, 2);
        let np = pool_len(c2s);
        let nf = rng.range(1, 6) as usize;
        // a limit near the size of one of the pool messages, so that legitimate messages fall on both sides of it
        let pivot = pool_json(c2s, rng.below(np as u64) as usize).len();
        let max = (pivot as i64 + rng.range(0, 4) as i64 - 2).max(1) as usize;
        let mut specs = Vec::new();
        for _ in 0..nf {
            specs.push(match rng.below(10) {
                0 => Spec::Zero,
                1 => Spec::Large(if rng.chance(1, 2) { max as u64 + 1 } else { u64::MAX - rng.below(5) }, rng.below(12) as usize),
                2 => {
                    let i = rng.below(np as u64) as usize;
                    let l = pool_json(c2s, i).len();
                    Spec::Padded(i, if l <= max { max } else { l })
                }
                _ => Spec::Msg(rng.below(np as u64) as usize),
            });
        }
        let n = build(c2s, &specs).bytes.len();
        let nc = rng.range(0, 9) as usize;
        let mut cuts: Vec<usize> = (0..nc).map(|_| rng.range(1, (n as u64).max(2) - 1) as usize).collect();
        if rng.chance(1, 3) {
            // cut right at / next to frame boundaries and inside headers
            let mut off = 0usize;
            for f in &build(c2s, &specs).frames {
                let bl = f["blen"].as_u64().unwrap_or(0) as usize;
                for d in [0usize, 1, 7, 8, 9] {
                    if rng.chance(1, 3) && off + d > 0 && off + d < n {
                        cuts.push(off + d);
                    }
                }
                off += HDR + bl;
            }
        }
        cuts.sort();
        cuts.dedup();
        run_case_r(&mut tr, c2s, max, &specs, &cuts);
    }
    println!("OBSERVED lines={} enumerated={ncases} out={out}", tr.finish());
    0
}

fn spec_json(s: &Spec) -> J {
    match s {
        Spec::Msg(i) => json!({"k":"msg","i":i}),
        Spec::Padded(i, n) => json!({"k":"pad","i":i,"n":n}),
        Spec::Zero => json!({"k":"zero"}),
        Spec::Large(d, b) => json!({"k":"large","d":d.to_string(),"b":b}),
    }
}
fn spec_from(j: &J) -> Spec {
    match j["k"].as_str().unwrap_or("") {
        "msg" => Spec::Msg(j["i"].as_u64().unwrap_or(0) as usize),
        "pad" => Spec::Padded(j["i"].as_u64().unwrap_or(0) as usize, j["n"].as_u64().unwrap_or(0) as usize),
        "large" => Spec::Large(j["d"].as_str().and_then(|x| x.parse().ok()).unwrap_or(13), j["b"].as_u64().unwrap_or(0) as usize),
        _ => Spec::Zero,
    }
}
/// run_case + the recipe (so that a line can be re-executed by --replay)
fn run_case_r(tr: &mut Tracer, c2s: bool, max: usize, specs: &[Spec], cuts: &[usize]) {
    let mut v = run_case(c2s, max, specs, cuts);
    v["recipe"] = json!({"c2s":c2s,"max":max,"specs":specs.iter().map(spec_json).collect::<Vec<_>>(),"cuts":cuts});
    tr.emit(&v);
}
