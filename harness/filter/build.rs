// Locates server/core/src/repl/codec.rs of the tree under test (KV_REPO, default /repo) so that the private
// module can be compiled into this driver with include! (kv/mutrun.sh points KV_REPO at its patched copy).
fn main() {
    let repo = std::env::var("KV_REPO").unwrap_or_else(|_| "/repo".to_string());
    let p = format!("{repo}/server/core/src/repl/codec.rs");
    println!("cargo:rerun-if-env-changed=KV_REPO");
    println!("cargo:rerun-if-changed={p}");
    println!("cargo:rustc-env=KV_CODEC_RS={p}");
}
