//! Generates `$OUT_DIR/repo_mods.rs`: `#[path]` includes of leaf source files of the repository under
//! test that are not reachable through a public API (DESIGN section 4, preference (b): no repository
//! change). The repository root is read from `[package.metadata.kv] repo` in this crate's Cargo.toml so
//! that `kv/mutrun.sh` (which rewrites "/repo/ in Cargo.toml files) points the includes at the patched copy.
use std::{env, fs, path::PathBuf};

fn main() {
    let md = PathBuf::from(env::var("CARGO_MANIFEST_DIR").expect("manifest dir"));
    let toml = fs::read_to_string(md.join("Cargo.toml")).expect("Cargo.toml");
    let repo = toml
        .lines()
        .find_map(|l| {
            let l = l.trim();
            l.strip_prefix("repo = \"").and_then(|r| r.strip_suffix('"')).map(|s| s.to_string())
        })
        .expect("package.metadata.kv.repo");
    let files = [
        ("error", "rlm_kanidm/module/src/error.rs"),
        ("logic", "rlm_kanidm/module/src/logic.rs"),
        ("pam_core", "unix_integration/pam_sparkle_common/src/core.rs"),
    ];
    let mut out = String::new();
    for (name, rel) in files {
        let p = format!("{repo}{rel}");
        println!("cargo:rerun-if-changed={p}");
        out.push_str(&format!("#[allow(dead_code, unused_imports, unexpected_cfgs)]\n#[path = \"{p}\"]\npub mod {name};\n"));
    }
    // kanidm workspace version: the scripted HTTP endpoint must present it (the client checks it)
    let ws = fs::read_to_string(format!("{repo}Cargo.toml")).expect("repo Cargo.toml");
    let ver = ws
        .lines()
        .find_map(|l| l.trim().strip_prefix("version = \"").and_then(|r| r.strip_suffix('"')).map(|s| s.to_string()))
        .expect("workspace version");
    println!("cargo:rustc-env=KV_KANIDM_VERSION={ver}");
    println!("cargo:rerun-if-changed={repo}Cargo.toml");
    println!("cargo:rerun-if-changed=Cargo.toml");
    println!("cargo:rerun-if-changed=build.rs");
    let od = PathBuf::from(env::var("OUT_DIR").expect("out dir"));
    fs::write(od.join("repo_mods.rs"), out).expect("write");
}
