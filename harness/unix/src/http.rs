//! Scripted HTTP/1.1 endpoint standing in for the kanidm server (the kanidm client accepts http://).
//! One listener thread, one thread per connection (keep-alive supported). The behaviour is a closure
//! `Fn(&Req) -> Resp` installed by the driver; every request is logged so the driver can show that the
//! real client code really called the endpoint.
#![allow(dead_code)]
use std::io::{Read, Write};
use std::net::{TcpListener, TcpStream};
use std::sync::{Arc, Mutex};

pub const KANIDM_VERSION: &str = env!("KV_KANIDM_VERSION");

#[derive(Clone, Debug)]
pub struct Req {
    pub method: String,
    pub path: String,
    pub body: String,
    pub bearer: Option<String>,
}

#[derive(Clone, Debug)]
pub enum Resp {
    /// status + JSON body
    Json(u16, String),
    /// close the connection without answering (transport error on the client side)
    Drop,
}

impl Resp {
    pub fn ok(v: &serde_json::Value) -> Resp {
        Resp::Json(200, v.to_string())
    }
    pub fn err(status: u16, operr: &str) -> Resp {
        Resp::Json(status, serde_json::Value::String(operr.to_string()).to_string())
    }
}

type Handler = Arc<dyn Fn(&Req) -> Resp + Send + Sync>;

pub struct Endpoint {
    pub addr: String,
    handler: Arc<Mutex<Handler>>,
    log: Arc<Mutex<Vec<Req>>>,
}

impl Endpoint {
    pub fn start() -> Endpoint {
        let listener = TcpListener::bind("127.0.0.1:0").unwrap_or_else(|e| {
            eprintln!("TOOL-ERROR cannot bind scripted endpoint: {e}");
            std::process::exit(2)
        });
        let port = listener.local_addr().map(|a| a.port()).unwrap_or(0);
        let handler: Arc<Mutex<Handler>> =
            Arc::new(Mutex::new(Arc::new(|_r: &Req| Resp::err(404, "NoMatchingEntries"))));
        let log = Arc::new(Mutex::new(Vec::new()));
        let (h2, l2) = (handler.clone(), log.clone());
        std::thread::spawn(move || {
            for conn in listener.incoming() {
                let Ok(stream) = conn else { continue };
                let (h3, l3) = (h2.clone(), l2.clone());
                std::thread::spawn(move || serve(stream, h3, l3));
            }
        });
        Endpoint { addr: format!("http://127.0.0.1:{port}"), handler, log }
    }

    pub fn set<F: Fn(&Req) -> Resp + Send + Sync + 'static>(&self, f: F) {
        *self.handler.lock().expect("handler") = Arc::new(f);
    }

    pub fn hits(&self) -> usize {
        self.log.lock().expect("log").len()
    }
    pub fn take_log(&self) -> Vec<Req> {
        std::mem::take(&mut *self.log.lock().expect("log"))
    }
}

fn serve(mut s: TcpStream, handler: Arc<Mutex<Handler>>, log: Arc<Mutex<Vec<Req>>>) {
    let _ = s.set_nodelay(true);
    let mut buf: Vec<u8> = Vec::new();
    loop {
        // read head
        let head_end = loop {
            if let Some(p) = find(&buf, b"\r\n\r\n") {
                break p + 4;
            }
            let mut tmp = [0u8; 8192];
            match s.read(&mut tmp) {
                Ok(0) | Err(_) => return,
                Ok(n) => buf.extend_from_slice(&tmp[..n]),
            }
        };
        let head = String::from_utf8_lossy(&buf[..head_end]).to_string();
        let mut lines = head.split("\r\n");
        let rl = lines.next().unwrap_or("");
        let mut it = rl.split(' ');
        let method = it.next().unwrap_or("").to_string();
        let path = it.next().unwrap_or("").to_string();
        let mut clen = 0usize;
        let mut bearer = None;
        for l in lines {
            if let Some((k, v)) = l.split_once(':') {
                let k = k.trim().to_ascii_lowercase();
                let v = v.trim();
                if k == "content-length" {
                    clen = v.parse().unwrap_or(0);
                } else if k == "authorization" {
                    bearer = v.strip_prefix("Bearer ").map(|s| s.to_string());
                }
            }
        }
        while buf.len() < head_end + clen {
            let mut tmp = [0u8; 8192];
            match s.read(&mut tmp) {
                Ok(0) | Err(_) => return,
                Ok(n) => buf.extend_from_slice(&tmp[..n]),
            }
        }
        let body = String::from_utf8_lossy(&buf[head_end..head_end + clen]).to_string();
        buf.drain(..head_end + clen);
        let req = Req { method, path, body, bearer };
        log.lock().expect("log").push(req.clone());
        let h = handler.lock().expect("handler").clone();
        match h(&req) {
            Resp::Drop => {
                let _ = s.shutdown(std::net::Shutdown::Both);
                return;
            }
            Resp::Json(status, body) => {
                let reason = match status {
                    200 => "OK",
                    400 => "Bad Request",
                    401 => "Unauthorized",
                    403 => "Forbidden",
                    404 => "Not Found",
                    500 => "Internal Server Error",
                    _ => "Status",
                };
                let out = format!(
                    "HTTP/1.1 {status} {reason}\r\ncontent-type: application/json\r\ncontent-length: {}\r\nx-kanidm-version: {}\r\nx-kanidm-opid: 00000000-0000-4000-8000-000000000000\r\n\r\n{}",
                    body.len(), KANIDM_VERSION, body
                );
                if s.write_all(out.as_bytes()).is_err() {
                    return;
                }
                let _ = s.flush();
            }
        }
    }
}

fn find(h: &[u8], n: &[u8]) -> Option<usize> {
    h.windows(n.len()).position(|w| w == n)
}
