//! C45: host login authorisation. Every case (allowed-login list, user token, validity) goes through the
//! REAL `KanidmProvider::unix_user_authorise` (via = provider) or the REAL
//! `Resolver::pam_account_allowed` (via = resolver: token fetched by the real kanidm client from the scripted
//! endpoint, stored in and read back from the real cache Db, then authorised by the provider).
use crate::http::Endpoint;
use crate::unixenv::*;
use crate::util::*;
use serde_json::{json, Value as J};
use sparkle_resolver_common::idprovider::interface::IdProvider;
use sparkle_unix_common::unix_proto::PamServiceInfo;
use std::collections::BTreeMap;

fn strs(v: &J) -> Vec<String> {
    v.as_array().map(|a| a.iter().filter_map(|x| x.as_str().map(|s| s.to_string())).collect()).unwrap_or_default()
}
fn gkeys(v: &J) -> Vec<String> {
    v.as_array()
        .map(|a| a.iter().filter_map(|g| g["id"].as_str().map(|s| s[1..].to_string())).collect())
        .unwrap_or_default()
}
fn group_rec(k: &str) -> J {
    json!({"id": format!("g{k}"), "n": format!("n{k}"), "u": format!("u{k}"), "s": format!("s{k}")})
}

pub fn run(o: &Opts) -> i32 {
    let out = o.str("out", "/verif/work/C45/obs.ndjson");
    let mut cases: Vec<J> = Vec::new();
    if let Some(p) = o.get("cases").or(o.get("replay")) {
        cases.extend(read_ndjson(p));
    }
    // (B) seeded random cases, larger than the model bound: 6 groups, lists of up to 6 identifiers.
    // A provider is built per allowed-login list (its construction calibrates argon2, ~1 s), so the random
    // part draws `random` lists and `per-list` tokens for each.
    let mut rng = Rng::new(o.seed());
    let per_list = o.u64("per-list", 16);
    for _ in 0..o.u64("random", 0) {
        let ng = 6u64;
        let mut allow: Vec<String> = Vec::new();
        for _ in 0..rng.below(7) {
            let k = rng.range(1, ng);
            let kind = *rng.pick(&["n", "u", "u", "n", "s", "x"]);
            let id = format!("{kind}{k}");
            if !allow.contains(&id) {
                allow.push(id);
            }
        }
        allow.sort();
        for _ in 0..per_list {
            let mut groups: Vec<J> = Vec::new();
            for k in 1..=ng {
                if rng.chance(1, 3) {
                    groups.push(group_rec(&k.to_string()));
                }
            }
            let via = if rng.chance(1, 2) { "provider" } else { "resolver" };
            let present = via == "provider" || !rng.chance(1, 8);
            let valid = present && !rng.chance(1, 4);
            if !present {
                groups.clear();
            }
            cases.push(json!({"via": via, "present": present, "allow": allow, "groups": groups, "valid": valid}));
        }
    }

    let rt = tokio::runtime::Builder::new_multi_thread().worker_threads(8).enable_all().build().expect("rt");
    let ep = Endpoint::start();
    let srv = install(&ep);
    let mut tr = Tracer::create(&out);
    let mut machines: BTreeMap<String, Machine> = BTreeMap::new();
    let pam_info = PamServiceInfo { service: "kv".to_string(), tty: None, rhost: None };
    let mut http_hits = 0usize;
    rt.block_on(async {
        // one machine (provider + resolver) per distinct allowed-login list, built concurrently
        let mut lists: Vec<Vec<String>> = cases.iter().map(|c| strs(&c["allow"])).collect();
        lists.sort();
        lists.dedup();
        let mut pending = lists.into_iter();
        let mut js = tokio::task::JoinSet::new();
        loop {
            while js.len() < 8 {
                let Some(allow) = pending.next() else { break };
                let addr = ep.addr.clone();
                js.spawn(async move {
                    let conc: Vec<String> = allow.iter().map(|i| concrete_id(i)).collect();
                    (allow.join(","), machine(&addr, conc, true).await)
                });
            }
            match js.join_next().await {
                Some(Ok((k, m))) => {
                    machines.insert(k, m);
                }
                Some(Err(_)) => fail("machine construction panicked"),
                None => break,
            }
        }
        for (idx, c) in cases.iter().enumerate() {
            let idx = idx as u64;
            let allow = strs(&c["allow"]);
            let via = c["via"].as_str().unwrap_or("provider").to_string();
            let present = c["present"].as_bool().unwrap_or(true);
            let valid = c["valid"].as_bool().unwrap_or(false);
            let gk = gkeys(&c["groups"]);
            let m = machines.get(&allow.join(",")).expect("machine");
            let name = format!("kvu{idx}");
            let res = if via == "provider" {
                let tok = user_token(&name, idx, &gk, valid);
                match m.provider.unix_user_authorise(&tok).await {
                    Ok(Some(true)) => "allow",
                    Ok(Some(false)) => "deny",
                    Ok(None) => "unknown",
                    Err(_) => "error",
                }
            } else {
                {
                    let mut s = srv.lock().expect("srv");
                    s.tokens.clear();
                    if present {
                        s.tokens.insert(name.clone(), user_token_json(&name, idx, &gk, valid));
                    }
                }
                let before = ep.hits();
                let r = m.resolver.as_ref().expect("resolver").pam_account_allowed(&name, &pam_info).await;
                http_hits += ep.hits() - before;
                match r {
                    Ok(Some(true)) => "allow",
                    Ok(Some(false)) => "deny",
                    Ok(None) => "unknown",
                    Err(_) => "error",
                }
            };
            tr.emit(&json!({"a": "authorise", "via": via, "present": present, "allow": c["allow"],
                "groups": c["groups"], "valid": valid, "res": res}));
        }
    });
    let n = tr.finish();
    println!("OBSERVED lines={n} http_hits={http_hits} machines={} out={out}", machines.len());
    0
}
