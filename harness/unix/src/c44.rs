//! C44: offline login accepts only the last password verified online, sealed with this machine's key.
//! Histories (model-generated behaviours and seeded random ones) of online / pwchange / offline / swap steps
//! run on the REAL code at three levels:
//!   provider: KanidmProvider::unix_user_online_auth_step / unix_user_offline_auth_init / _step with a soft TPM
//!             per machine and the scripted HTTP endpoint answering `_unix/_auth`;
//!   resolver: Resolver::pam_account_authenticate on file-backed cache databases (swap = the cached record of
//!             one machine written into the other machine's database through a second connection);
//!   helper:   UserToken::kanidm_update_cached_password / kanidm_check_cached_password with the minimum KDF cost
//!             (the driver plays the provider's few lines around them) -- cheap, so every behaviour runs here.
use crate::http::Endpoint;
use crate::unixenv::*;
use crate::util::*;
use kanidm_lib_crypto::CryptoPolicy;
use serde_json::{json, Value as J};
use sparkle_resolver_common::db::{Cache, Db};
use sparkle_resolver_common::idprovider::interface::{AuthCredHandler, AuthResult, Id, IdProvider, IdpError, UserToken};
use sparkle_resolver_common::resolver::AuthSession;
use sparkle_unix_common::unix_proto::{PamAuthRequest, PamAuthResponse, PamServiceInfo};
use std::sync::atomic::{AtomicUsize, Ordering};
use std::sync::{Arc, Mutex};
use time::OffsetDateTime;
use tokio::sync::broadcast;

fn pw(p: &str) -> String {
    format!("kv-offline-secret-{p}")
}
fn midx(m: &str) -> usize {
    if m == "mB" { 1 } else { 0 }
}

struct World {
    ms: Vec<Machine>,
    toks: Vec<Option<UserToken>>,
    name: String,
    idx: u64,
    srv: Shared,
}

impl World {
    fn reset(&mut self, name: &str, idx: u64) {
        self.name = name.to_string();
        self.idx = idx;
        self.toks = vec![None, None];
        let mut s = self.srv.lock().expect("srv");
        s.down = false;
        s.tokens.insert(name.to_string(), user_token_json(name, idx, &[], true));
        s.passwords.insert(name.to_string(), pw("p1"));
    }
    fn set_pw(&self, p: &str) {
        self.srv.lock().expect("srv").passwords.insert(self.name.clone(), pw(p));
    }
    fn srv_pw(&self) -> String {
        self.srv.lock().expect("srv").passwords.get(&self.name).cloned().unwrap_or_default()
    }

    async fn step_provider(&mut self, st: &J) -> String {
        let (a, m, p) = (st["a"].as_str().unwrap_or(""), midx(st["m"].as_str().unwrap_or("mA")), st["p"].as_str().unwrap_or(""));
        match a {
            "pwchange" => {
                self.set_pw(p);
                "ok".into()
            }
            "swap" => {
                let m2 = midx(st["m2"].as_str().unwrap_or("mB"));
                self.toks[m2] = self.toks[m].clone();
                "ok".into()
            }
            "online" => {
                let (_tx, rx) = broadcast::channel::<()>(1);
                let mach = &mut self.ms[m];
                let r = mach
                    .provider
                    .unix_user_online_auth_step(&self.name, self.toks[m].as_ref(), &mut AuthCredHandler::Password,
                        PamAuthRequest::Password { cred: pw(p) }, mach.hsm.as_mut().expect("hsm"), &rx)
                    .await;
                match r {
                    Ok(AuthResult::SuccessUpdate { new_token }) => {
                        self.toks[m] = Some(new_token);
                        "accept".into()
                    }
                    Ok(AuthResult::Success) => "accept".into(),
                    Ok(AuthResult::Denied) => "deny".into(),
                    Ok(AuthResult::Next(_)) => "next".into(),
                    Err(_) => "error".into(),
                }
            }
            _ => {
                // offline: the session token is what this machine has cached (a bare record if nothing)
                let bare = user_token(&self.name, self.idx, &[], true);
                let session = self.toks[m].clone().unwrap_or(bare);
                let mach = &mut self.ms[m];
                match mach.provider.unix_user_offline_auth_init(&session).await {
                    Err(IdpError::NoOfflineCredentials) => return "nocred".into(),
                    Err(_) => return "error".into(),
                    Ok(_) => {}
                }
                let r = mach
                    .provider
                    .unix_user_offline_auth_step(self.toks[m].as_ref(), &session, &mut AuthCredHandler::Password,
                        PamAuthRequest::Password { cred: pw(p) }, mach.hsm.as_mut().expect("hsm"))
                    .await;
                match r {
                    Ok(AuthResult::SuccessUpdate { .. }) | Ok(AuthResult::Success) => "accept".into(),
                    Ok(AuthResult::Denied) => "deny".into(),
                    Ok(AuthResult::Next(_)) => "next".into(),
                    Err(_) => "error".into(),
                }
            }
        }
    }

    fn step_helper(&mut self, st: &J, policy: &CryptoPolicy) -> String {
        let (a, m, p) = (st["a"].as_str().unwrap_or(""), midx(st["m"].as_str().unwrap_or("mA")), st["p"].as_str().unwrap_or(""));
        match a {
            "pwchange" => {
                self.set_pw(p);
                "ok".into()
            }
            "swap" => {
                let m2 = midx(st["m2"].as_str().unwrap_or("mB"));
                self.toks[m2] = self.toks[m].clone();
                "ok".into()
            }
            "online" => {
                // what unix_user_online_auth_step does around the helper once the server has verified the password
                if pw(p) != self.srv_pw() {
                    return "deny".into();
                }
                let mut t = user_token(&self.name, self.idx, &[], true);
                if let Some(prev) = &self.toks[m] {
                    t.extra_keys = prev.extra_keys.clone();
                }
                let mach = &mut self.ms[m];
                t.kanidm_update_cached_password(policy, &pw(p), mach.hsm.as_mut().expect("hsm"), &mach.hmac);
                self.toks[m] = Some(t);
                "accept".into()
            }
            _ => {
                let Some(t) = &self.toks[m] else { return "nocred".into() };
                if !t.kanidm_has_offline_credentials() {
                    return "nocred".into();
                }
                let mach = &mut self.ms[m];
                if t.kanidm_check_cached_password(&pw(p), mach.hsm.as_mut().expect("hsm"), &mach.hmac) { "accept".into() } else { "deny".into() }
            }
        }
    }

    async fn step_resolver(&mut self, st: &J) -> String {
        let (a, m, p) = (st["a"].as_str().unwrap_or(""), midx(st["m"].as_str().unwrap_or("mA")), st["p"].as_str().unwrap_or(""));
        let now = std::time::SystemTime::now();
        match a {
            "pwchange" => {
                self.set_pw(p);
                "ok".into()
            }
            "swap" => {
                let m2 = midx(st["m2"].as_str().unwrap_or("mB"));
                // second connections to the two cache files
                let src = Db::new(&self.ms[m].db_path).unwrap_or_else(|_| fail("src db"));
                let dst = Db::new(&self.ms[m2].db_path).unwrap_or_else(|_| fail("dst db"));
                let rec = {
                    let mut t = src.write().await;
                    t.get_account(&Id::Name(self.name.clone())).unwrap_or_else(|_| fail("get_account"))
                };
                let mut t = dst.write().await;
                match rec {
                    Some((tok, _)) => t.update_account(&tok, 4_000_000_000).unwrap_or_else(|_| fail("update_account")),
                    None => t.delete_account(user_uuid(self.idx)).unwrap_or_else(|_| fail("delete_account")),
                }
                t.commit().unwrap_or_else(|_| fail("commit"));
                "ok".into()
            }
            "online" => {
                self.srv.lock().expect("srv").down = false;
                let r = self.ms[m].resolver.as_ref().expect("resolver");
                r.mark_next_check_now(now).await;
                if !r.test_connection().await {
                    return "error".into();
                }
                match r.pam_account_authenticate(&self.name, OffsetDateTime::UNIX_EPOCH, &pw(p)).await {
                    Ok(Some(true)) => "accept".into(),
                    Ok(Some(false)) => "deny".into(),
                    Ok(None) => "unknown".into(),
                    Err(_) => "error".into(),
                }
            }
            _ => {
                self.srv.lock().expect("srv").down = true;
                let r = self.ms[m].resolver.as_ref().expect("resolver");
                r.mark_offline().await;
                let res = match r.pam_account_authenticate(&self.name, OffsetDateTime::UNIX_EPOCH, &pw(p)).await {
                    Ok(Some(true)) => "accept",
                    Ok(Some(false)) => "deny",
                    // unknown on this machine / no offline credential: the resolver cannot start the session
                    Ok(None) | Err(_) => "nocred",
                };
                self.srv.lock().expect("srv").down = false;
                res.into()
            }
        }
    }
}

impl World {
    async fn set_online(&self, on: bool) {
        let r = self.ms[0].resolver.as_ref().expect("resolver");
        if on {
            self.srv.lock().expect("srv").down = false;
            // a pooled connection the endpoint dropped while "down" can fail the first attempt: retry
            let mut ok = false;
            for _ in 0..6 {
                r.mark_next_check_now(std::time::SystemTime::now()).await;
                if r.test_connection().await {
                    ok = true;
                    break;
                }
            }
            if !ok {
                fail("conv: provider did not come online against the scripted endpoint");
            }
        } else {
            self.srv.lock().expect("srv").down = true;
            r.mark_offline().await;
        }
    }
    async fn login(&self, p: &str) -> &'static str {
        let r = self.ms[0].resolver.as_ref().expect("resolver");
        match r.pam_account_authenticate(&self.name, OffsetDateTime::UNIX_EPOCH, &pw(p)).await {
            Ok(Some(true)) => "accept",
            Ok(Some(false)) => "deny",
            Ok(None) => "unknown",
            Err(_) => "error",
        }
    }
    /// Overlapping conversations on the real Resolver: pam_account_authenticate_init and _step are separate steps.
    async fn run_conv(&mut self, beh: &J, lines: &mut Vec<J>) {
        let info = PamServiceInfo { service: "kv".to_string(), tty: None, rhost: None };
        // prefix: the user logs in online with p1 once (cache = last = p1)
        self.set_online(true).await;
        let r0 = self.login("p1").await;
        lines.push(json!({"a": "setup", "lvl": "conv", "p": "p1", "res": r0}));
        let mut on = beh["on0"].as_bool().unwrap_or(false);
        self.set_online(on).await;
        lines.push(json!({"a": "toggle", "lvl": "conv", "on": on}));
        let mut sess: std::collections::BTreeMap<String, (AuthSession, String, broadcast::Sender<()>)> = Default::default();
        for st in beh["steps"].as_array().cloned().unwrap_or_default() {
            let a = st["a"].as_str().unwrap_or("");
            let c = st["c"].as_str().unwrap_or("-").to_string();
            let p = st["p"].as_str().unwrap_or("-").to_string();
            match a {
                "toggle" => {
                    on = !on;
                    self.set_online(on).await;
                    lines.push(json!({"a": "toggle", "lvl": "conv", "on": on}));
                }
                "pwchange" => {
                    self.set_pw(&p);
                    lines.push(json!({"a": "pwchange", "lvl": "conv", "p": p}));
                }
                "cinit" => {
                    let (tx, rx) = broadcast::channel::<()>(1);
                    let r = self.ms[0].resolver.as_ref().expect("resolver");
                    match r.pam_account_authenticate_init(&self.name, &info, OffsetDateTime::UNIX_EPOCH, rx).await {
                        Ok((s, PamAuthResponse::Password)) => {
                            let mode = match &s {
                                AuthSession::Online { .. } => "online",
                                AuthSession::Offline { .. } => "offline",
                                _ => "other",
                            };
                            lines.push(json!({"a": "cinit", "lvl": "conv", "c": c, "on": on, "mode": mode, "res": "prompt"}));
                            sess.insert(c, (s, mode.to_string(), tx));
                        }
                        Ok(_) => lines.push(json!({"a": "cinit", "lvl": "conv", "c": c, "on": on, "mode": "none", "res": "refused"})),
                        Err(_) => lines.push(json!({"a": "cinit", "lvl": "conv", "c": c, "on": on, "mode": "none", "res": "error"})),
                    }
                }
                "cstep" => {
                    let Some((mut s, mode, _tx)) = sess.remove(&c) else {
                        lines.push(json!({"a": "cstep", "lvl": "conv", "c": c, "p": p, "on": on, "mode": "none", "res": "nosession"}));
                        continue;
                    };
                    let r = self.ms[0].resolver.as_ref().expect("resolver");
                    let res = match r.pam_account_authenticate_step(&mut s, PamAuthRequest::Password { cred: pw(&p) }).await {
                        Ok(PamAuthResponse::Success) => "accept",
                        Ok(PamAuthResponse::Denied) => "deny",
                        Ok(_) => "other",
                        Err(_) => "error",
                    };
                    lines.push(json!({"a": "cstep", "lvl": "conv", "c": c, "p": p, "on": on, "mode": mode, "res": res}));
                    // a failed online step may have taken the provider offline: put the driver's state back
                    self.set_online(on).await;
                    self.probe(on, lines).await;
                }
                _ => {}
            }
        }
    }
    /// A fresh offline login (init + step back to back) with each password, provider forced offline meanwhile.
    async fn probe(&self, on: bool, lines: &mut Vec<J>) {
        self.set_online(false).await;
        for p in ["p1", "p2"] {
            let res = match self.login(p).await {
                "accept" => "accept",
                "deny" => "deny",
                _ => "nocred",
            };
            lines.push(json!({"a": "probe", "lvl": "conv", "p": p, "res": res}));
        }
        self.set_online(on).await;
    }
}

fn gen_random(rng: &mut Rng, n: u64) -> J {
    // provenance of the record cached on each machine: a record never goes back to the machine that sealed it
    let mut prov: [Option<usize>; 2] = [None, None];
    let ms = ["mA", "mB"];
    let ps = ["p1", "p2", "p3"];
    let mut steps = Vec::new();
    let mut srv = 0usize;
    for _ in 0..n {
        match rng.below(10) {
            0..=2 => {
                let m = rng.below(2) as usize;
                // mostly the right password so that caches fill up
                let p = if rng.chance(2, 3) { srv } else { rng.below(3) as usize };
                if p == srv {
                    prov[m] = Some(m);
                }
                steps.push(json!({"a": "online", "m": ms[m], "p": ps[p], "m2": "-"}));
            }
            3 => {
                srv = rng.below(3) as usize;
                steps.push(json!({"a": "pwchange", "m": "-", "p": ps[srv], "m2": "-"}));
            }
            4..=5 => {
                let m = rng.below(2) as usize;
                if prov[m] != Some(1 - m) {
                    prov[1 - m] = prov[m];
                    steps.push(json!({"a": "swap", "m": ms[m], "p": "-", "m2": ms[1 - m]}));
                }
            }
            _ => {
                let m = rng.below(2) as usize;
                steps.push(json!({"a": "offline", "m": ms[m], "p": ps[rng.below(3) as usize], "m2": "-"}));
            }
        }
    }
    json!({"steps": steps})
}

pub fn run(o: &Opts) -> i32 {
    let out = o.str("out", "/verif/work/C44/obs.ndjson");
    // work items: (level, behaviour)
    let mut items: Vec<(String, J)> = Vec::new();
    if let Some(p) = o.get("replay") {
        // observed lines: rebuild the behaviours (split at reset lines)
        let mut cur: Option<(String, Vec<J>)> = None;
        for r in read_ndjson(p) {
            if r["a"] == "reset" {
                if let Some((l, s)) = cur.take() {
                    items.push((l, json!({"steps": s})));
                }
                cur = Some((r["lvl"].as_str().unwrap_or("provider").to_string(), vec![]));
            } else if let Some((_, s)) = cur.as_mut() {
                s.push(r);
            }
        }
        if let Some((l, s)) = cur.take() {
            items.push((l, json!({"steps": s})));
        }
        // conversation-level histories: rebuild {on0, steps} from the observed lines
        for (l, b) in items.iter_mut() {
            if l == "conv" {
                let obs = b["steps"].as_array().cloned().unwrap_or_default();
                let mut on0 = false;
                let mut seen_first_toggle = false;
                let mut steps = Vec::new();
                for r in obs {
                    match r["a"].as_str().unwrap_or("") {
                        "toggle" if !seen_first_toggle => {
                            seen_first_toggle = true;
                            on0 = r["on"].as_bool().unwrap_or(false);
                        }
                        "toggle" | "pwchange" | "cinit" | "cstep" => steps.push(r),
                        _ => {}
                    }
                }
                *b = json!({"on0": on0, "steps": steps});
            }
        }
    } else {
        let cases = o.get("cases").map(read_ndjson).unwrap_or_default();
        let every_p = o.u64("provider-every", 40).max(1) as usize;
        let every_r = o.u64("resolver-every", 400).max(1) as usize;
        for (i, c) in cases.iter().enumerate() {
            items.push(("helper".into(), c.clone()));
            if i % every_p == 0 {
                items.push(("provider".into(), c.clone()));
            }
            if i % every_r == 0 {
                items.push(("resolver".into(), c.clone()));
            }
        }
        for c in o.get("conv-cases").map(read_ndjson).unwrap_or_default() {
            items.push(("conv".into(), c));
        }
        let mut rng = Rng::new(o.seed());
        for i in 0..o.u64("random", 0) {
            let n = 10 + rng.below(8);
            let b = gen_random(&mut rng, n);
            let lvl = match i % 10 {
                0 => "resolver",
                1..=3 => "provider",
                _ => "helper",
            };
            items.push((lvl.into(), b));
        }
    }
    let items = Arc::new(items);
    let results: Arc<Mutex<Vec<Vec<J>>>> = Arc::new(Mutex::new(vec![Vec::new(); items.len()]));
    let next = Arc::new(AtomicUsize::new(0));
    let hits = Arc::new(AtomicUsize::new(0));
    let dir = format!("/tmp/unix-c44-{}", std::process::id());
    let _ = std::fs::create_dir_all(&dir);
    let nthreads = o.u64("threads", 8) as usize;
    let mut ths = Vec::new();
    for w in 0..nthreads {
        let (items, results, next, hits, dir) = (items.clone(), results.clone(), next.clone(), hits.clone(), dir.clone());
        ths.push(std::thread::spawn(move || {
            let rt = tokio::runtime::Builder::new_current_thread().enable_all().build().expect("rt");
            // every worker has its own scripted server: no state is shared between concurrently running behaviours
            let ep = Endpoint::start();
            let srv = install(&ep);
            rt.block_on(async {
                // one pair of machines per worker and per level, built lazily
                let mut plain: Option<World> = None;
                let mut resolv: Option<World> = None;
                let policy = CryptoPolicy::minimum();
                loop {
                    let i = next.fetch_add(1, Ordering::SeqCst);
                    if i >= items.len() {
                        break;
                    }
                    let (lvl, beh) = &items[i];
                    let name = format!("kvo{i}");
                    let world = if lvl == "resolver" || lvl == "conv" {
                        if resolv.is_none() {
                            let a = machine_at(&ep.addr, vec![], true, &format!("{dir}/w{w}-a.db")).await;
                            let b = machine_at(&ep.addr, vec![], true, &format!("{dir}/w{w}-b.db")).await;
                            resolv = Some(World { ms: vec![a, b], toks: vec![None, None], name: String::new(), idx: 0, srv: srv.clone() });
                        }
                        resolv.as_mut().expect("world")
                    } else {
                        if plain.is_none() {
                            let a = machine(&ep.addr, vec![], false).await;
                            let b = machine(&ep.addr, vec![], false).await;
                            plain = Some(World { ms: vec![a, b], toks: vec![None, None], name: String::new(), idx: 0, srv: srv.clone() });
                        }
                        plain.as_mut().expect("world")
                    };
                    world.reset(&name, i as u64);
                    let mut lines = vec![json!({"a": "reset", "lvl": lvl, "i": i})];
                    if lvl == "conv" {
                        world.run_conv(beh, &mut lines).await;
                    }
                    for st in beh["steps"].as_array().cloned().unwrap_or_default().into_iter().filter(|_| lvl != "conv") {
                        let res = match lvl.as_str() {
                            "helper" => world.step_helper(&st, &policy),
                            "resolver" => world.step_resolver(&st).await,
                            _ => world.step_provider(&st).await,
                        };
                        lines.push(json!({"a": st["a"], "lvl": lvl, "m": st["m"], "p": st["p"], "m2": st["m2"], "res": res}));
                    }
                    // forget the account on the scripted server
                    {
                        let mut s = srv.lock().expect("srv");
                        s.tokens.remove(&name);
                        s.passwords.remove(&name);
                    }
                    results.lock().expect("results")[i] = lines;
                }
            });
            hits.fetch_add(ep.hits(), Ordering::SeqCst);
        }));
    }
    for t in ths {
        if t.join().is_err() {
            fail("c44 worker panicked");
        }
    }
    let _ = std::fs::remove_dir_all(&dir);
    let mut tr = Tracer::create(&out);
    for ls in results.lock().expect("results").iter() {
        for l in ls {
            tr.emit(l);
        }
    }
    let n = tr.finish();
    println!("OBSERVED lines={n} behaviours={} http_hits={} out={out}", items.len(), hits.load(Ordering::SeqCst));
    0
}
