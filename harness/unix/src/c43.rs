//! C43: PAM fails closed. Every model-generated case runs the REAL `pam_sparkle_common` core (core.rs compiled
//! into this crate from the repository's working tree):
//!  * connected: `sm_authenticate_connected` with a real `DaemonClientBlocking` connected over a real unix
//!    socket (path based, 1 s timeout) to a scripted daemon thread that replays the reply sequence;
//!  * fallback: `sm_authenticate_fallback` over passwd / shadow TEXT parsed by the real parsers
//!    (hashes produced by the system libcrypt, not by the crates under test);
//!  * dispatch: `sm_authenticate` with a config file pointing at a live / dead socket.
use crate::constants::PamResultCode;
use crate::module::PamResult;
use crate::pam::ModuleOptions;
use crate::pam_core::{self, PamHandler, RequestOptions};
use crate::util::*;
use serde_json::{json, Value as J};
use sparkle_unix_common::client_sync::DaemonClientBlocking;
use sparkle_unix_common::unix_passwd::{parse_etc_passwd, parse_etc_shadow};
use sparkle_unix_common::unix_proto::{
    ClientRequest, ClientResponse, DeviceAuthorizationResponse, NssGroup, NssUser, PamAuthRequest, PamAuthResponse,
    PamServiceInfo, ProviderStatus,
};
use std::io::{Read, Write};
use std::os::unix::net::{UnixListener, UnixStream};
use std::sync::atomic::{AtomicUsize, Ordering};
use std::sync::{Arc, Mutex};
use time::OffsetDateTime;

// crypt(3) hashes of "kvpw-right" produced by the system libcrypt (python3 crypt module)
const H_SHA256: &str = "$5$8TW4JReLQ9sUI00L$xHE/gc4BsPVPDsV3LyTZR/zH.mgR5YotDpvkYDvvRzA";
const H_SHA512: &str = "$6$IUlLVJ1FG2aJGl/K$5GXHAOCuz6YOn.bxq/Da8tED0ubvVq/md2es.mGzUzGYjBQs087uZWJg8fl6T4RHlpMG5ch9IwzRqAv5be1Tf0";
const H_YES: &str = "$y$j9T$LdJMENpBABJJ3hIHjB1Bi.$823I1M3RUmZ.r2HTI96fcAIds5OB5pxCXhzNZXFpZx4";
const H_MD5: &str = "$1$abcdefgh$l73Hmk6sXSTk5dkknzrOv.";
const PW_RIGHT: &str = "kvpw-right";
const PW_WRONG: &str = "kvpw-wrong";
const USER: &str = "kvuser";

struct Handler {
    account: String,
    authtok: String, // some|right|wrong|none|err
    pw: String,      // value|right|wrong|none|err
    mfa: String,
    pin: String,
    msg: String,
    grant: String,
    pins: Mutex<u32>,
}
fn ask(mode: &str, val: &str) -> PamResult<Option<String>> {
    match mode {
        "none" => Ok(None),
        "err" => Err(PamResultCode::PAM_CONV_ERR),
        "wrong" => Ok(Some(PW_WRONG.to_string())),
        "right" => Ok(Some(PW_RIGHT.to_string())),
        _ => Ok(Some(val.to_string())),
    }
}
impl PamHandler for Handler {
    fn account_id(&self) -> PamResult<String> {
        Ok(self.account.clone())
    }
    fn service_info(&self) -> PamResult<PamServiceInfo> {
        Ok(PamServiceInfo { service: "kv".to_string(), tty: Some("/dev/null".to_string()), rhost: None })
    }
    fn envlist(&self) -> PamResult<Vec<String>> {
        Ok(vec![])
    }
    fn set_env(&self, _v: &str) -> PamResult<()> {
        Ok(())
    }
    fn authtok(&self) -> PamResult<Option<String>> {
        match self.authtok.as_str() {
            "err" => Err(PamResultCode::PAM_AUTHTOK_ERR),
            "none" => Ok(None),
            "wrong" => Ok(Some(PW_WRONG.to_string())),
            _ => Ok(Some(PW_RIGHT.to_string())),
        }
    }
    fn message(&self, _p: &str) -> PamResult<()> {
        if self.msg == "ok" { Ok(()) } else { Err(PamResultCode::PAM_CONV_ERR) }
    }
    fn message_device_grant(&self, _d: &DeviceAuthorizationResponse) -> PamResult<()> {
        if self.grant == "ok" { Ok(()) } else { Err(PamResultCode::PAM_CONV_ERR) }
    }
    fn prompt_for_password(&self) -> PamResult<Option<String>> {
        ask(&self.pw, PW_RIGHT)
    }
    fn prompt_for_pin(&self, _m: Option<&str>) -> PamResult<Option<String>> {
        if self.pin == "alt" {
            // 1, 2, then always 3: the first confirmation mismatches, the second matches
            let mut n = self.pins.lock().expect("pins");
            *n += 1;
            return Ok(Some(format!("{}", (*n).min(3))));
        }
        ask(&self.pin, "1234")
    }
    fn prompt_for_mfacode(&self) -> PamResult<Option<String>> {
        ask(&self.mfa, "000000")
    }
}

fn code(c: PamResultCode) -> String {
    format!("{c:?}").trim_start_matches("PAM_").to_string()
}

fn frame(v: &[u8]) -> Vec<u8> {
    let mut o = (v.len() as u32).to_be_bytes().to_vec();
    o.extend_from_slice(v);
    o
}
fn read_req(s: &mut UnixStream) -> Option<ClientRequest> {
    let mut len = [0u8; 4];
    s.read_exact(&mut len).ok()?;
    let mut buf = vec![0u8; u32::from_be_bytes(len) as usize];
    s.read_exact(&mut buf).ok()?;
    serde_json::from_slice(&buf).ok()
}
fn step(r: PamAuthResponse) -> ClientResponse {
    ClientResponse::PamAuthenticateStepResponse { response: r, session_id: 7 }
}
fn reply_for(kind: &str, slow: bool) -> Option<ClientResponse> {
    Some(match kind {
        "Success" => step(PamAuthResponse::Success),
        "Denied" => step(PamAuthResponse::Denied),
        "Unknown" => step(PamAuthResponse::Unknown),
        "Password" => step(PamAuthResponse::Password),
        "Pin" => step(PamAuthResponse::Pin),
        "MFACode" => step(PamAuthResponse::MFACode { msg: "code".into() }),
        "MFAPoll" => step(PamAuthResponse::MFAPoll { msg: "poll".into(), polling_interval: 0 }),
        "MFAPollWait" => step(PamAuthResponse::MFAPollWait),
        "SetupPin" => step(PamAuthResponse::SetupPin { msg: "setup".into() }),
        "DeviceGrant" => step(PamAuthResponse::DeviceAuthorizationGrant {
            data: DeviceAuthorizationResponse {
                device_code: "d".into(), user_code: "u".into(), verification_uri: "http://x".into(),
                verification_uri_complete: None, expires_in: if slow { 1 } else { 60 }, interval: None, message: None,
            },
        }),
        "Error" => ClientResponse::Error(kanidm_proto::internal::OperationError::InvalidState),
        "Ok" => ClientResponse::Ok,
        "SshKeys" => ClientResponse::SshKeys(vec!["k".into()]),
        "NssAccounts" => ClientResponse::NssAccounts(vec![]),
        "NssAccount" => ClientResponse::NssAccount(Some(NssUser {
            name: USER.into(), uid: 1, gid: 1, gecos: "".into(), homedir: "/".into(), shell: "/bin/sh".into(),
        })),
        "NssGroups" => ClientResponse::NssGroups(vec![]),
        "NssGroup" => ClientResponse::NssGroup(Some(NssGroup { name: "g".into(), gid: 1, members: vec![] })),
        // the account-management answer "allowed" must not authenticate anybody
        "PamStatus" => ClientResponse::PamStatus(Some(true)),
        "ProviderStatus" => ClientResponse::ProviderStatus(vec![ProviderStatus { name: "kanidm".into(), online: true }]),
        _ => return None,
    })
}
fn req_kind(r: &ClientRequest) -> &'static str {
    match r {
        ClientRequest::PamAuthenticateInit { .. } => "Init",
        ClientRequest::PamAuthenticateStep { request, .. } => match request {
            PamAuthRequest::Password { .. } => "Password",
            PamAuthRequest::DeviceAuthorizationGrant { .. } => "DeviceGrant",
            PamAuthRequest::MFACode { .. } => "MFACode",
            PamAuthRequest::MFAPoll => "MFAPoll",
            PamAuthRequest::SetupPin { .. } => "SetupPin",
            PamAuthRequest::Pin { .. } => "Pin",
        },
        _ => "Other",
    }
}

/// Scripted daemon: one reply per request, in script order. Returns (requests handled, request kinds).
fn is_slow(script: &[String]) -> bool {
    script.iter().any(|k| k == "Disconnect" || k == "Truncated")
}
fn daemon(l: UnixListener, script: Vec<String>) -> (usize, Vec<String>) {
    let mut reqs = Vec::new();
    let slow = is_slow(&script);
    let Ok((mut s, _)) = l.accept() else { return (0, reqs) };
    let mut n = 0;
    for kind in script {
        let Some(r) = read_req(&mut s) else { break };
        reqs.push(req_kind(&r).to_string());
        n += 1;
        match kind.as_str() {
            "Disconnect" => break,
            "Garbage" => {
                let _ = s.write_all(&frame(b"{\"NoSuchReply\": [1, 2"));
            }
            "Truncated" => {
                let full = frame(&serde_json::to_vec(&step(PamAuthResponse::Success)).expect("json"));
                let _ = s.write_all(&full[..full.len() / 2]);
                break;
            }
            k => {
                let resp = reply_for(k, slow).expect("reply kind");
                let _ = s.write_all(&frame(&serde_json::to_vec(&resp).expect("json")));
            }
        }
        let _ = s.flush();
    }
    // anything the client still sends is left unanswered; closing ends the conversation
    (n, reqs)
}

fn b(c: &J, k: &str) -> bool {
    c[k].as_bool().unwrap_or(false)
}
fn st(c: &J, k: &str, d: &str) -> String {
    c[k].as_str().unwrap_or(d).to_string()
}

fn run_conn(c: &J, dir: &str, idx: usize) -> J {
    let script: Vec<String> = c["script"].as_array().map(|a| a.iter().filter_map(|x| x.as_str().map(String::from)).collect()).unwrap_or_default();
    let path = format!("{dir}/{idx}.sock");
    let _ = std::fs::remove_file(&path);
    let l = UnixListener::bind(&path).expect("bind");
    let sc = script.clone();
    let d = std::thread::spawn(move || daemon(l, sc));
    let h = Handler {
        account: USER.to_string(), authtok: st(c, "authtok", "none"), pw: st(c, "pw", "value"), mfa: st(c, "mfa", "value"),
        pin: st(c, "pin", "value"), msg: st(c, "msg", "ok"), grant: st(c, "grant", "ok"), pins: Mutex::new(0),
    };
    let opts = ModuleOptions { debug: false, use_first_pass: b(c, "ufp"), ignore_unknown_user: b(c, "iuu") };
    // the socket timeout only decides HOW LONG the module waits on a daemon that went away; conversations whose
    // daemon always answers get a generous one so that the result never depends on machine load
    let res = match DaemonClientBlocking::new(&path, if is_slow(&script) { 1 } else { 60 }) {
        Ok(client) => {
            let r = catch(|| pam_core::sm_authenticate_connected(&h, &opts, OffsetDateTime::UNIX_EPOCH, &client));
            drop(client);
            match r {
                Ok(c) => code(c),
                Err(_) => "panic".to_string(),
            }
        }
        Err(_) => "noconnect".to_string(),
    };
    // if the module never connected / never spoke, unblock the daemon's accept
    let _ = UnixStream::connect(&path);
    let (n, reqs) = d.join().unwrap_or((0, vec![]));
    let _ = std::fs::remove_file(&path);
    let mut o = c.clone();
    o["a"] = json!("pam_conn");
    o["res"] = json!(res);
    o["n"] = json!(n);
    o["reqs"] = json!(reqs);
    o
}

fn run_fb(c: &J) -> J {
    let hash = match c["hash"].as_str().unwrap_or("") {
        "sha256" => H_SHA256.to_string(),
        "sha512" => H_SHA512.to_string(),
        "yescrypt" => H_YES.to_string(),
        "locked_bang" => "!".to_string(),
        "locked_star" => "*".to_string(),
        "locked_hash" => format!("!{H_SHA512}"),
        "empty" => String::new(),
        "md5" => H_MD5.to_string(),
        _ => "x".to_string(),
    };
    let day = 20000i64;
    // the shadow field holds whole days; the login instant is moved instead for the sub-day classes
    let (exp, after_s) = match c["exp"].as_str().unwrap_or("none") {
        "future" => ((day + 10).to_string(), 0i64),
        "now" => (day.to_string(), 0),
        "past_1s" => (day.to_string(), 1),
        "past_12h" => (day.to_string(), 12 * 3600),
        "past_1d" => (day.to_string(), 24 * 3600 - 1),
        "past" => ((day - 10).to_string(), 0),
        _ => (String::new(), 0),
    };
    let mut passwd = String::from("other:x:1001:1001:o:/home/other:/bin/sh\n");
    let mut shadow = format!("other:{H_SHA512}:19000:0:99999:7:::\n");
    if b(c, "user") {
        passwd.push_str(&format!("{USER}:x:1000:1000:kv:/home/{USER}:/bin/sh\n"));
    }
    if b(c, "shadow") {
        shadow.push_str(&format!("{USER}:{hash}:19000:0:99999:7::{exp}:\n"));
    }
    let users = parse_etc_passwd(passwd.as_bytes()).unwrap_or_else(|_| crate::unixenv::fail("passwd text did not parse"));
    let sh = parse_etc_shadow(shadow.as_bytes()).unwrap_or_else(|_| crate::unixenv::fail("shadow text did not parse"));
    let h = Handler {
        account: USER.to_string(), authtok: st(c, "authtok", "none"), pw: st(c, "typed", "right"), mfa: "value".into(),
        pin: "value".into(), msg: "ok".into(), grant: "ok".into(), pins: Mutex::new(0),
    };
    let opts = ModuleOptions { debug: false, use_first_pass: b(c, "ufp"), ignore_unknown_user: b(c, "iuu") };
    let now = OffsetDateTime::UNIX_EPOCH + time::Duration::days(day) + time::Duration::seconds(after_s);
    let res = match catch(|| pam_core::sm_authenticate_fallback(&h, &opts, now, users, sh)) {
        Ok(c) => code(c),
        Err(_) => "panic".to_string(),
    };
    let mut o = c.clone();
    o["a"] = json!("pam_fb");
    o["res"] = json!(res);
    o
}

/// sm_authenticate with a configuration file: live socket -> conversation, dead socket -> system files.
fn run_dispatch(c: &J, dir: &str, idx: usize) -> J {
    let up = b(c, "up");
    let script: Vec<String> = c["script"].as_array().map(|a| a.iter().filter_map(|x| x.as_str().map(String::from)).collect()).unwrap_or_default();
    let path = format!("{dir}/d{idx}.sock");
    let cfgp = format!("{dir}/d{idx}.toml");
    let _ = std::fs::remove_file(&path);
    std::fs::write(&cfgp, format!("sock_path = \"{path}\"\nconn_timeout = 30\n")).expect("cfg");
    let d = if up {
        let l = UnixListener::bind(&path).expect("bind");
        let sc = script.clone();
        Some(std::thread::spawn(move || daemon(l, sc)))
    } else {
        None
    };
    let iuu = b(c, "iuu");
    let cfg_static: &'static str = Box::leak(cfgp.clone().into_boxed_str());
    // fresh thread: core.rs caches the daemon client in a thread local
    let res = std::thread::spawn(move || {
        let h = Handler {
            account: "kv-no-such-user".to_string(), authtok: "none".into(), pw: "value".into(), mfa: "value".into(),
            pin: "value".into(), msg: "ok".into(), grant: "ok".into(), pins: Mutex::new(0),
        };
        let opts = ModuleOptions { debug: false, use_first_pass: false, ignore_unknown_user: iuu };
        match catch(|| pam_core::sm_authenticate(&h, &opts, RequestOptions::Main { config_path: cfg_static }, OffsetDateTime::UNIX_EPOCH)) {
            Ok(c) => code(c),
            Err(_) => "panic".to_string(),
        }
    })
    .join()
    .unwrap_or_else(|_| "panic".to_string());
    let (n, reqs) = match d {
        Some(d) => {
            let _ = UnixStream::connect(&path);
            d.join().unwrap_or((0, vec![]))
        }
        None => (0, vec![]),
    };
    let _ = std::fs::remove_file(&path);
    let _ = std::fs::remove_file(&cfgp);
    json!({"a": "pam_dispatch", "up": up, "script": script, "iuu": iuu, "res": res, "n": n, "reqs": reqs})
}

pub fn run(o: &Opts) -> i32 {
    let out = o.str("out", "/verif/work/C43/obs.ndjson");
    let mut cases: Vec<J> = Vec::new();
    if let Some(p) = o.get("cases").or(o.get("replay")) {
        cases.extend(read_ndjson(p));
    }
    // (B) seeded random conversations longer than the model bound (5-7 replies), random options
    let mut rng = Rng::new(o.seed());
    let cont = ["Password", "MFACode", "MFAPoll", "SetupPin", "Pin", "DeviceGrant"];
    let term = ["Success", "Denied", "Unknown", "Error", "Garbage", "Ok", "SshKeys", "NssAccounts", "NssAccount", "NssGroups",
        "NssGroup", "PamStatus", "ProviderStatus"];
    for _ in 0..o.u64("random", 0) {
        let mut script: Vec<String> = Vec::new();
        let mut polled = false;
        for _ in 0..rng.range(4, 6) {
            let k = if polled && rng.chance(1, 3) { "MFAPollWait" } else { *rng.pick(&cont) };
            polled |= k == "MFAPoll";
            script.push(k.to_string());
        }
        script.push(rng.pick(&term).to_string());
        let m3 = ["value", "value", "value", "none", "err"];
        let ufp = rng.chance(1, 2);
        cases.push(json!({"kind": "conn", "script": script, "ufp": ufp, "iuu": rng.chance(1, 2),
            "authtok": if ufp { *rng.pick(&["some", "none", "err"]) } else { "none" },
            "pw": *rng.pick(&m3), "mfa": *rng.pick(&m3), "pin": *rng.pick(&["value", "value", "alt", "none", "err"]),
            "msg": *rng.pick(&["ok", "ok", "ok", "err"]), "grant": *rng.pick(&["ok", "ok", "ok", "err"])}));
    }
    if o.flag("dispatch") {
        for (up, sc, iuu) in [(true, vec!["Success"], false), (true, vec!["Password", "Denied"], false), (true, vec!["Ok"], false),
            (false, vec![], false), (false, vec![], true)] {
            cases.push(json!({"kind": "dispatch", "up": up, "script": sc, "iuu": iuu}));
        }
    }
    let dir = format!("/tmp/unix-c43-{}", std::process::id());
    let _ = std::fs::create_dir_all(&dir);
    let cases = Arc::new(cases);
    let results: Arc<Mutex<Vec<Option<J>>>> = Arc::new(Mutex::new(vec![None; cases.len()]));
    let next = Arc::new(AtomicUsize::new(0));
    let nthreads = o.u64("threads", 24) as usize;
    let mut ths = Vec::new();
    for _ in 0..nthreads {
        let (cases, results, next, dir) = (cases.clone(), results.clone(), next.clone(), dir.clone());
        ths.push(std::thread::spawn(move || loop {
            let i = next.fetch_add(1, Ordering::SeqCst);
            if i >= cases.len() {
                break;
            }
            let c = &cases[i];
            let r = match c["kind"].as_str().unwrap_or("conn") {
                "fb" => run_fb(c),
                "dispatch" => run_dispatch(c, &dir, i),
                _ => run_conn(c, &dir, i),
            };
            results.lock().expect("results")[i] = Some(r);
        }));
    }
    for t in ths {
        if t.join().is_err() {
            crate::unixenv::fail("c43 worker thread panicked outside the code under test");
        }
    }
    let _ = std::fs::remove_dir_all(&dir);
    let mut tr = Tracer::create(&out);
    for r in results.lock().expect("results").iter() {
        tr.emit(r.as_ref().expect("result"));
    }
    let n = tr.finish();
    println!("OBSERVED lines={n} out={out}");
    0
}
