//! Construction of the REAL resolver stack outside the daemon: in-memory cache Db, soft TPM, machine key,
//! KanidmProvider talking to the scripted HTTP endpoint, Resolver on top (same shape as the repository's
//! own `resolver_common/tests/cache_layer_test.rs`, minus the real server).
#![allow(dead_code)]
use crate::http::{Endpoint, Req, Resp};
use kanidm_client::KanidmClientBuilder;
use kanidm_hsm_crypto::{
    provider::{BoxedDynTpm, SoftTpm, Tpm, TpmHmacS256},
    structures::{HmacS256Key, StorageKey},
    AuthValue,
};
use serde_json::{json, Value as J};
use sparkle_resolver_common::db::{Cache, Db};
use sparkle_resolver_common::idprovider::interface::{GroupToken, Id, ProviderOrigin, UserToken};
use sparkle_resolver_common::idprovider::kanidm::KanidmProvider;
use sparkle_resolver_common::idprovider::system::SystemProvider;
use sparkle_resolver_common::resolver::Resolver;
use sparkle_unix_common::constants::{
    DEFAULT_GID_ATTR_MAP, DEFAULT_HOME_ALIAS, DEFAULT_HOME_ATTR, DEFAULT_HOME_PREFIX, DEFAULT_UID_ATTR_MAP,
};
use sparkle_unix_common::unix_config::KanidmConfig;
use std::collections::BTreeMap;
use std::sync::{Arc, Mutex};
use std::time::SystemTime;
use tokio::sync::mpsc;
use uuid::Uuid;

pub fn fail(msg: &str) -> ! {
    eprintln!("TOOL-ERROR {msg}");
    std::process::exit(2)
}

/// Model identifier -> concrete string. "nK" group name, "uK" group uuid (hyphenated), "sK" group spn,
/// anything else an unrelated string.
pub fn group_name(k: &str) -> String {
    format!("kvg{k}")
}
pub fn group_uuid(k: &str) -> Uuid {
    let n: u128 = k.parse().unwrap_or(0xff);
    Uuid::from_u128(0xe000_0000_0000_4000_8000_0000_0000_0000u128 + 0x100 + n)
}
pub fn group_spn(k: &str) -> String {
    format!("kvg{k}@example.com")
}
pub fn concrete_id(id: &str) -> String {
    let (p, k) = id.split_at(1);
    match p {
        "n" => group_name(k),
        "u" => group_uuid(k).hyphenated().to_string(),
        "s" => group_spn(k),
        _ => format!("kv-unrelated-{id}"),
    }
}
pub fn group_token(k: &str) -> GroupToken {
    GroupToken {
        provider: ProviderOrigin::Kanidm,
        name: group_name(k),
        spn: group_spn(k),
        uuid: group_uuid(k),
        gidnumber: 30000 + k.parse::<u32>().unwrap_or(999),
        extra_keys: Default::default(),
    }
}
pub fn user_uuid(idx: u64) -> Uuid {
    Uuid::from_u128(0xe000_0000_0000_4000_8000_0000_0001_0000u128 + idx as u128)
}
pub fn user_token(name: &str, idx: u64, gkeys: &[String], valid: bool) -> UserToken {
    UserToken {
        provider: ProviderOrigin::Kanidm,
        name: name.to_string(),
        spn: format!("{name}@example.com"),
        uuid: user_uuid(idx),
        gidnumber: 40000 + idx as u32,
        displayname: name.to_string(),
        shell: None,
        groups: gkeys.iter().map(|k| group_token(k)).collect(),
        sshkeys: vec![],
        valid,
        extra_keys: Default::default(),
    }
}
/// The wire form (kanidm_proto::v1::UnixUserToken) of the same token, as the server would send it.
pub fn user_token_json(name: &str, idx: u64, gkeys: &[String], valid: bool) -> J {
    json!({
        "name": name, "spn": format!("{name}@example.com"), "displayname": name,
        "gidnumber": 40000 + idx as u32, "uuid": user_uuid(idx).hyphenated().to_string(),
        "groups": gkeys.iter().map(|k| json!({"name": group_name(k), "spn": group_spn(k),
            "uuid": group_uuid(k).hyphenated().to_string(), "gidnumber": 30000 + k.parse::<u32>().unwrap_or(999)})).collect::<Vec<_>>(),
        "sshkeys": [], "valid": valid
    })
}

/// Scripted server state shared with the endpoint closure.
#[derive(Default)]
pub struct Server {
    /// account name -> unix token (GET /v1/account/<name>/_unix/_token); absent => 404 NoMatchingEntries
    pub tokens: BTreeMap<String, J>,
    /// account name -> current unix password (POST /v1/account/<name>/_unix/_auth)
    pub passwords: BTreeMap<String, String>,
    /// the server is unreachable: every connection is dropped without an answer
    pub down: bool,
}
pub type Shared = Arc<Mutex<Server>>;

pub fn install(ep: &Endpoint) -> Shared {
    let st: Shared = Arc::new(Mutex::new(Server::default()));
    let s2 = st.clone();
    ep.set(move |r: &Req| {
        let s = s2.lock().expect("server state");
        if s.down {
            return Resp::Drop;
        }
        if r.path == "/v1/self" {
            return Resp::ok(&json!({"youare": {"attrs": {"name": ["unixd_service"]}}}));
        }
        if let Some(rest) = r.path.strip_prefix("/v1/account/") {
            if let Some(name) = rest.strip_suffix("/_unix/_token") {
                return match s.tokens.get(name) {
                    Some(t) => Resp::ok(t),
                    None => Resp::err(404, "NoMatchingEntries"),
                };
            }
            if let Some(name) = rest.strip_suffix("/_unix/_auth") {
                let cred = serde_json::from_str::<J>(&r.body).ok().and_then(|v| v["value"].as_str().map(|s| s.to_string()));
                return match (s.tokens.get(name), s.passwords.get(name), cred) {
                    (Some(t), Some(pw), Some(c)) if *pw == c => Resp::ok(t),
                    (Some(_), _, _) => Resp::ok(&J::Null),
                    _ => Resp::err(404, "NoMatchingEntries"),
                };
            }
        }
        Resp::err(404, "NoMatchingEntries")
    });
    st
}

pub struct Machine {
    pub provider: Arc<KanidmProvider>,
    pub resolver: Option<Resolver>,
    pub hsm: Option<BoxedDynTpm>,
    pub db: Option<Db>,
    pub rx: Option<mpsc::Receiver<Id>>,
    /// a second HMAC key sealed under the same machine key (cache helper level of C44)
    pub hmac: HmacS256Key,
    pub db_path: String,
}

fn new_tpm() -> (BoxedDynTpm, StorageKey) {
    let mut hsm = BoxedDynTpm::new(SoftTpm::default());
    let auth_value = AuthValue::ephemeral().unwrap_or_else(|_| fail("auth value"));
    let lmk = hsm.root_storage_key_create(&auth_value).unwrap_or_else(|_| fail("machine key create"));
    let mk = hsm.root_storage_key_load(&auth_value, &lmk).unwrap_or_else(|_| fail("machine key load"));
    (hsm, mk)
}

/// One "machine": its own soft TPM context and machine key (hence its own sealed HMAC key), its own cache Db.
pub async fn machine(addr: &str, allow: Vec<String>, with_resolver: bool) -> Machine {
    machine_at(addr, allow, with_resolver, "").await
}
/// `db_path` = "" for an in-memory cache, else a sqlite file (lets the driver copy cached records between machines).
pub async fn machine_at(addr: &str, allow: Vec<String>, with_resolver: bool, db_path: &str) -> Machine {
    let client = KanidmClientBuilder::new()
        .address(addr.to_string())
        .enable_native_ca_roots(false)
        .no_proxy()
        .connect_timeout(2)
        .request_timeout(2)
        .build()
        .unwrap_or_else(|_| fail("client build"));
    let db = Db::new(db_path).unwrap_or_else(|_| fail("cache db"));
    let (mut hsm, mk) = new_tpm();
    let provider = {
        let mut dbtxn = db.write().await;
        dbtxn.migrate().unwrap_or_else(|_| fail("cache db migrate"));
        let p = KanidmProvider::new(
            client,
            &KanidmConfig {
                conn_timeout: 2,
                request_timeout: 2,
                pam_allowed_login_groups: allow,
                map_group: vec![],
                service_account_token: Some("kv-scripted-token".to_string()),
            },
            SystemTime::now(),
            &mut (&mut dbtxn).into(),
            &mut hsm,
            &mk,
        )
        .await
        .unwrap_or_else(|_| fail("provider"));
        dbtxn.commit().unwrap_or_else(|_| fail("cache db commit"));
        p
    };
    let hmac = {
        let t: &mut dyn TpmHmacS256 = &mut *hsm;
        let l = t.hmac_s256_create(&mk).unwrap_or_else(|_| fail("hmac create"));
        t.hmac_s256_load(&mk, &l).unwrap_or_else(|_| fail("hmac load"))
    };
    drop(mk);
    let db_path = db_path.to_string();
    let provider = Arc::new(provider);
    if !with_resolver {
        return Machine { provider, resolver: None, hsm: Some(hsm), db: Some(db), rx: None, hmac, db_path };
    }
    let system_provider = SystemProvider::new().unwrap_or_else(|_| fail("system provider"));
    let (resolver, rx) = Resolver::new(
        db,
        Arc::new(system_provider),
        vec![provider.clone()],
        hsm,
        24 * 3600,
        "/bin/sh".to_string(),
        DEFAULT_HOME_PREFIX.into(),
        DEFAULT_HOME_ATTR,
        DEFAULT_HOME_ALIAS,
        DEFAULT_UID_ATTR_MAP,
        DEFAULT_GID_ATTR_MAP,
    )
    .await
    .unwrap_or_else(|_| fail("resolver"));
    Machine { provider, resolver: Some(resolver), hsm: None, db: None, rx: Some(rx), hmac, db_path }
}
