//! C46: RADIUS authorisation. Every case (required-group list, ordered user group list, VLAN mappings,
//! default VLAN) goes through the REAL `rlm_kanidm` `Module::authorise` (logic.rs compiled into this crate
//! from the repository's working tree), whose real kanidm client fetches `/v1/account/<id>/_radius/_token`
//! from the scripted HTTP endpoint.
use crate::http::{Endpoint, Req, Resp};
use crate::logic::{AuthError, AuthRequest, Module};
use crate::unixenv::fail;
use crate::util::*;
use rlm_kanidm_shared::config::{KanidmRadiusConfig, RadiusGroupConfig};
use serde_json::{json, Value as J};
use std::collections::BTreeMap;
use std::marker::PhantomData;
use std::sync::{Arc, Mutex};

fn strs(v: &J) -> Vec<String> {
    v.as_array().map(|a| a.iter().filter_map(|x| x.as_str().map(|s| s.to_string())).collect()).unwrap_or_default()
}
fn concrete(id: &str) -> String {
    let (p, k) = id.split_at(1);
    match p {
        "s" => format!("kvrg{k}@example.com"),
        "u" => format!("e0000000-0000-4000-8000-0000000002{:0>2}", k),
        _ => format!("kv-unrelated-{id}"),
    }
}
fn maps_of(v: &J) -> BTreeMap<String, u32> {
    v.as_object()
        .map(|o| o.iter().map(|(k, x)| (k.clone(), x.as_u64().unwrap_or(0) as u32)).collect())
        .unwrap_or_default()
}
fn grec(k: u64) -> J {
    json!({"id": format!("g{k}"), "s": format!("s{k}"), "u": format!("u{k}")})
}

pub fn run(o: &Opts) -> i32 {
    let out = o.str("out", "/verif/work/C46/obs.ndjson");
    let mut cases: Vec<J> = Vec::new();
    if let Some(p) = o.get("cases").or(o.get("replay")) {
        cases.extend(read_ndjson(p));
    }
    // (B) seeded random cases beyond the model bound: 6 groups, lists up to 6 (with repetition), vlan collisions
    let mut rng = Rng::new(o.seed());
    for _ in 0..o.u64("random", 0) {
        let ng = 6u64;
        let mut req: Vec<String> = Vec::new();
        for _ in 0..rng.below(5) {
            let id = format!("{}{}", rng.pick(&["s", "u", "u", "s", "x"]), rng.range(1, ng));
            if !req.contains(&id) {
                req.push(id);
            }
        }
        req.sort();
        let mut maps = serde_json::Map::new();
        for k in 1..=ng {
            if rng.chance(1, 3) {
                maps.insert(format!("s{k}"), json!(rng.range(1, 5) * 10));
            }
        }
        let dflt = *rng.pick(&[1u64, 1, 0, 10, 99]);
        for _ in 0..o.u64("per-config", 8) {
            let present = !rng.chance(1, 10);
            let groups: Vec<J> = if present { (0..rng.below(7)).map(|_| grec(rng.range(1, ng))).collect() } else { vec![] };
            cases.push(json!({"present": present, "req": req, "groups": groups, "maps": maps, "dflt": dflt}));
        }
    }

    let rt = tokio::runtime::Builder::new_multi_thread().worker_threads(2).enable_all().build().expect("rt");
    let ep = Endpoint::start();
    let tokens: Arc<Mutex<BTreeMap<String, J>>> = Arc::new(Mutex::new(BTreeMap::new()));
    let t2 = tokens.clone();
    ep.set(move |r: &Req| {
        if let Some(name) = r.path.strip_prefix("/v1/account/").and_then(|x| x.strip_suffix("/_radius/_token")) {
            if let Some(t) = t2.lock().expect("tokens").get(name) {
                return Resp::ok(t);
            }
        }
        Resp::err(404, "NoMatchingEntries")
    });
    let mut tr = Tracer::create(&out);
    let mut modules: BTreeMap<String, Module> = BTreeMap::new();
    let mut hits = 0usize;
    rt.block_on(async {
        for (idx, c) in cases.iter().enumerate() {
            let req = strs(&c["req"]);
            let maps = maps_of(&c["maps"]);
            let dflt = c["dflt"].as_u64().unwrap_or(1) as u32;
            let present = c["present"].as_bool().unwrap_or(true);
            let key = format!("{}|{:?}|{dflt}", req.join(","), maps);
            if !modules.contains_key(&key) {
                let cfg = KanidmRadiusConfig {
                    uri: ep.addr.clone(),
                    auth_token: "kv-scripted-token".to_string(),
                    radius_required_groups: req.iter().map(|i| concrete(i)).collect(),
                    radius_default_vlan: dflt,
                    radius_groups: maps
                        .iter()
                        .map(|(s, v)| RadiusGroupConfig { spn: concrete(s), vlan: *v, reply_attributes: Default::default() })
                        .collect(),
                    ..KanidmRadiusConfig::default()
                };
                let m = Module::from_config(cfg).await.unwrap_or_else(|e| fail(&format!("module config: {e}")));
                modules.insert(key.clone(), m);
            }
            let m = modules.get(&key).expect("module");
            let name = format!("kvr{idx}");
            let secret = format!("sec-{idx}");
            {
                let mut t = tokens.lock().expect("tokens");
                t.clear();
                if present {
                    let gs: Vec<J> = c["groups"]
                        .as_array()
                        .map(|a| {
                            a.iter()
                                .map(|g| json!({"spn": concrete(g["s"].as_str().unwrap_or("x0")), "uuid": concrete(g["u"].as_str().unwrap_or("x0"))}))
                                .collect()
                        })
                        .unwrap_or_default();
                    t.insert(name.clone(), json!({"name": name, "displayname": name,
                        "uuid": format!("e0000000-0000-4000-8000-00000003{:04}", idx % 10000), "secret": secret, "groups": gs}));
                }
            }
            let before = ep.hits();
            let ar = AuthRequest { tls_san_dn_cn: None, tls_cn: None, user_name: Some(name.clone()), attrs: Default::default(), phantom: PhantomData };
            let r = m.authorise(ar).await;
            hits += ep.hits() - before;
            let (res, vlan, sec) = match r {
                Ok(resp) => {
                    let vlan: i64 = resp.reply.tunnel_private_group_id.parse().unwrap_or(-1);
                    let sec = match resp.control.cleartext_password {
                        Some(s) if s == secret => "own",
                        Some(_) => "other",
                        None => "none",
                    };
                    ("release", vlan, sec)
                }
                Err(AuthError::Reject) => ("reject", 0, "none"),
                Err(AuthError::NotFound) => ("notfound", 0, "none"),
                Err(AuthError::Fail) => ("fail", 0, "none"),
                Err(_) => ("other", 0, "none"),
            };
            let maps_j: J = J::Object(maps.iter().map(|(k, v)| (k.clone(), json!(v))).collect());
            tr.emit(&json!({"a": "radius", "present": present, "req": c["req"], "groups": c["groups"], "maps": maps_j,
                "dflt": dflt, "res": res, "vlan": vlan, "secret": sec}));
        }
    });
    let n = tr.finish();
    println!("OBSERVED lines={n} http_hits={hits} modules={} out={out}", modules.len());
    0
}
