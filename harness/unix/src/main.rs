//! Group driver `unix`: runs the REAL kanidm client-side integration code (resolver, PAM core, RADIUS
//! module logic, actor runtime) and records observed traces (ndjson) which TLC validates against the
//! TLA+ specifications in /verif/spec (KUnix, KActors). See /verif/DESIGN.md section 6, C43-C47.
// kvc::util compiled directly into this crate: kv-unix does not link kanidmd_lib (its code under test lives in
// other crates), so its build is independent of the in-lib accessor files of the other groups.
#[path = "../../common/src/util.rs"]
pub mod util;
use util::Opts;

// Leaf source files of the repository compiled into this crate (see build.rs). `logic.rs` refers to
// `crate::error`, `core.rs` to `crate::{constants, module, pam}`: provide those names at the crate root.
include!(concat!(env!("OUT_DIR"), "/repo_mods.rs"));
pub mod constants {
    pub use pam_sparkle_common::pam::constants::*;
}
pub mod module {
    pub use pam_sparkle_common::pam::module::*;
}
pub mod pam {
    pub use pam_sparkle_common::pam::*;
}

mod http;
mod unixenv;
mod c43;
mod c44;
mod c45;
mod c46;
mod c47;

fn main() {
    // The kanidm client refuses (process::exit) a server without its version header in debug builds;
    // the scripted endpoint sends the right header, this is only a belt-and-braces guard.
    std::env::set_var("KANIDM_DEV_YOLO", "1");
    let args: Vec<String> = std::env::args().collect();
    if args.len() < 2 {
        eprintln!("usage: {} <subcommand> [--key value ...]", args[0]);
        std::process::exit(2);
    }
    let opts = Opts::parse(&args[2..]);
    let rc = match args[1].as_str() {
        "c43" => c43::run(&opts),
        "c44" => c44::run(&opts),
        "c45" => c45::run(&opts),
        "c46" => c46::run(&opts),
        "c47" => c47::run(&opts),
        other => {
            eprintln!("unknown subcommand {other}");
            2
        }
    };
    std::process::exit(rc);
}
