//! C47: supervisor tree / shutdown protocol of `kanidm_actors` on a REAL tokio multi-thread runtime.
//! No repository hook: every event is logged from the harness side (actor callbacks, controller operations)
//! with a global sequence number taken under one mutex. The verdict only depends on the logical order of
//! those events, never on timing. Event kinds (field "a"):
//!   reset, exec_start, setup_begin, setup_end, spawn_begin/spawn_end {x,p}, sub_begin/sub_end {x,p},
//!   stop_issue/stop_ret {s}, drop_handle {s}, signal, exec_ret,
//!   a_setup, a_setup_end, a_state, a_state_ret {w: ready|stop}, a_run, a_run_end, a_cleanup, a_cleanup_end, a_drop {x}
//!   hang {what}  (tool-level guard: something did not finish within the guard time; liveness only)
use crate::util::*;
use kanidm_actors::{Actor, ActorState, Runtime, RuntimeSetup, Signal, SignalHandler, SoftwareSignalSource, Supervisor};
use serde_json::{json, Value as J};
use std::collections::BTreeMap;
use std::future::Future;
use std::sync::{Arc, Mutex};
use std::time::Duration;
use tokio::sync::{mpsc, Semaphore};
use tokio::task::JoinHandle;

static LOG: Mutex<Vec<J>> = Mutex::new(Vec::new());
fn ev(v: J) {
    LOG.lock().expect("log").push(v);
}
fn take_log() -> Vec<J> {
    std::mem::take(&mut *LOG.lock().expect("log"))
}
fn logged(pred: impl Fn(&J) -> bool) -> bool {
    LOG.lock().expect("log").iter().any(|e| pred(e))
}

#[derive(Clone, Copy, PartialEq)]
enum Fin {
    Block,
    Stop,
}

struct KvActor {
    id: String,
    ready: u32,
    fin: Fin,
    rng: Rng,
    /// cleanup waits for a permit (deterministic scenarios only)
    gate: Option<Arc<Semaphore>>,
    pace: u64,
    /// this actor owns a subordinate supervisor and stops it from its own cleanup (scenario family `owner`)
    owns: Option<(String, Slot)>,
    /// extra time spent in cleanup (only widens race windows; the verdict is on event order)
    slow_ms: u64,
}
type Slot = Arc<Mutex<Option<Supervisor>>>;

async fn pause(rng: &mut Rng, pace: u64) {
    for _ in 0..rng.below(pace + 1) {
        if rng.chance(2, 3) {
            tokio::task::yield_now().await;
        } else {
            tokio::time::sleep(Duration::from_micros(20 + rng.below(200))).await;
        }
    }
}

impl Actor for KvActor {
    type Message = ();
    fn setup(&mut self) -> impl Future<Output = ()> + Send {
        async {
            ev(json!({"a": "a_setup", "x": self.id}));
            pause(&mut self.rng, self.pace).await;
            ev(json!({"a": "a_setup_end", "x": self.id}));
        }
    }
    fn state(&mut self) -> impl Future<Output = ActorState<()>> + Send {
        async {
            ev(json!({"a": "a_state", "x": self.id}));
            pause(&mut self.rng, self.pace).await;
            if self.ready > 0 {
                self.ready -= 1;
                ev(json!({"a": "a_state_ret", "x": self.id, "w": "ready"}));
                ActorState::Ready(())
            } else if self.fin == Fin::Stop {
                ev(json!({"a": "a_state_ret", "x": self.id, "w": "stop"}));
                ActorState::Stop
            } else {
                std::future::pending::<()>().await;
                ActorState::Stop
            }
        }
    }
    fn run(&mut self, _m: ()) -> impl Future<Output = ()> + Send {
        async {
            ev(json!({"a": "a_run", "x": self.id}));
            pause(&mut self.rng, self.pace * 2).await;
            ev(json!({"a": "a_run_end", "x": self.id}));
        }
    }
    fn cleanup(&mut self) -> impl Future<Output = ()> + Send {
        async {
            ev(json!({"a": "a_cleanup", "x": self.id}));
            if let Some((sid, slot)) = self.owns.clone() {
                let sub = slot.lock().expect("slot").take();
                if let Some(sub) = sub {
                    ev(json!({"a": "stop_issue", "s": sid}));
                    sub.stop().await;
                    ev(json!({"a": "stop_ret", "s": sid}));
                }
            }
            if self.slow_ms > 0 {
                tokio::time::sleep(Duration::from_millis(self.slow_ms)).await;
            }
            if let Some(g) = self.gate.clone() {
                if let Ok(p) = g.acquire().await {
                    p.forget();
                }
            }
            pause(&mut self.rng, self.pace * 2).await;
            ev(json!({"a": "a_cleanup_end", "x": self.id}));
        }
    }
}
impl Drop for KvActor {
    fn drop(&mut self) {
        ev(json!({"a": "a_drop", "x": self.id}));
    }
}

struct Handler;
impl SignalHandler for Handler {}

/// What the setup callback does on the primary supervisor (the only place its handle is reachable).
struct Ctx {
    actors: Vec<KvActor>,
    subs: Vec<String>,
    out: mpsc::UnboundedSender<(String, Supervisor)>,
    joins: Arc<Mutex<Vec<(String, JoinHandle<()>)>>>,
    /// scenario family `owner` at root level: (owner registered first?, owner, worker, subordinate id, slot)
    owner: Option<(bool, KvActor, KvActor, String, Slot)>,
}
impl RuntimeSetup for Ctx {
    type Error = ();
    fn setup(self, supervisor: &mut Supervisor) -> impl Future<Output = Result<(), ()>> + Send {
        async move {
            ev(json!({"a": "setup_begin"}));
            let Ctx { actors, subs, out, joins, owner } = self;
            if let Some((owner_first, own, worker, sid, slot)) = owner {
                let (oid, wid) = (own.id.clone(), worker.id.clone());
                let mut own = Some(own);
                if owner_first {
                    ev(json!({"a": "spawn_begin", "x": oid, "p": "s0"}));
                    let h = supervisor.spawn(own.take().expect("owner"));
                    ev(json!({"a": "spawn_end", "x": oid, "p": "s0"}));
                    joins.lock().expect("joins").push((oid.clone(), h));
                }
                ev(json!({"a": "sub_begin", "x": sid, "p": "s0"}));
                let mut sub = supervisor.subordinate().await;
                ev(json!({"a": "sub_end", "x": sid, "p": "s0"}));
                ev(json!({"a": "spawn_begin", "x": wid, "p": sid}));
                let h = sub.spawn(worker);
                ev(json!({"a": "spawn_end", "x": wid, "p": sid}));
                joins.lock().expect("joins").push((wid, h));
                *slot.lock().expect("slot") = Some(sub);
                if let Some(own) = own.take() {
                    ev(json!({"a": "spawn_begin", "x": oid, "p": "s0"}));
                    let h = supervisor.spawn(own);
                    ev(json!({"a": "spawn_end", "x": oid, "p": "s0"}));
                    joins.lock().expect("joins").push((oid, h));
                }
            }
            let mut acts = actors.into_iter();
            let mut subs = subs.into_iter();
            loop {
                // alternate so that registrations of both kinds interleave with already running actors
                let a = acts.next();
                let s = subs.next();
                if a.is_none() && s.is_none() {
                    break;
                }
                if let Some(a) = a {
                    let id = a.id.clone();
                    ev(json!({"a": "spawn_begin", "x": id, "p": "s0"}));
                    let h = supervisor.spawn(a);
                    ev(json!({"a": "spawn_end", "x": id, "p": "s0"}));
                    joins.lock().expect("joins").push((id, h));
                }
                if let Some(s) = s {
                    ev(json!({"a": "sub_begin", "x": s, "p": "s0"}));
                    let h = supervisor.subordinate().await;
                    ev(json!({"a": "sub_end", "x": s, "p": "s0"}));
                    let _ = out.send((s, h));
                }
                tokio::task::yield_now().await;
            }
            ev(json!({"a": "setup_end"}));
            Ok(())
        }
    }
}

const GUARD: Duration = Duration::from_secs(8);

struct Run {
    rng: Rng,
    handles: BTreeMap<String, Supervisor>,
    depth: BTreeMap<String, u32>,
    parent: BTreeMap<String, String>,
    /// supervisors under which nothing may be registered any more (a stop of it or of an ancestor was issued)
    closed: Vec<String>,
    joins: Arc<Mutex<Vec<(String, JoinHandle<()>)>>>,
    stops: Vec<(String, JoinHandle<()>)>,
    nact: u32,
    nsup: u32,
    pace: u64,
}

impl Run {
    fn actor(&mut self, gate: Option<Arc<Semaphore>>, kind: Option<(u32, Fin)>) -> KvActor {
        self.nact += 1;
        let (ready, fin) = kind.unwrap_or_else(|| match self.rng.below(4) {
            0 => (0, Fin::Block),
            1 => (0, Fin::Stop),
            2 => (self.rng.range(1, 3) as u32, Fin::Block),
            _ => (self.rng.range(1, 2) as u32, Fin::Stop),
        });
        KvActor { id: format!("a{}", self.nact), ready, fin, rng: Rng::new(self.rng.next()), gate, pace: self.pace, owns: None, slow_ms: 0 }
    }
    fn is_closed(&self, s: &str) -> bool {
        let mut cur = s.to_string();
        loop {
            if self.closed.contains(&cur) {
                return true;
            }
            match self.parent.get(&cur) {
                Some(p) => cur = p.clone(),
                None => return false,
            }
        }
    }
    fn spawn_on(&mut self, s: &str, a: KvActor) {
        let id = a.id.clone();
        ev(json!({"a": "spawn_begin", "x": id, "p": s}));
        let h = self.handles.get_mut(s).expect("handle").spawn(a);
        ev(json!({"a": "spawn_end", "x": id, "p": s}));
        self.joins.lock().expect("joins").push((id, h));
    }
    async fn sub_on(&mut self, s: &str) -> String {
        self.nsup += 1;
        let id = format!("s{}", self.nsup);
        ev(json!({"a": "sub_begin", "x": id, "p": s}));
        let h = self.handles.get_mut(s).expect("handle").subordinate().await;
        ev(json!({"a": "sub_end", "x": id, "p": s}));
        let d = self.depth.get(s).copied().unwrap_or(1) + 1;
        self.depth.insert(id.clone(), d);
        self.parent.insert(id.clone(), s.to_string());
        self.handles.insert(id.clone(), h);
        id
    }
    /// issue stop(s) in a helper task so that it overlaps with whatever the controller does next
    fn stop(&mut self, s: &str) {
        let h = self.handles.remove(s).expect("handle");
        self.closed.push(s.to_string());
        let id = s.to_string();
        ev(json!({"a": "stop_issue", "s": id}));
        let jh = tokio::spawn(async move {
            h.stop().await;
            ev(json!({"a": "stop_ret", "s": id}));
        });
        self.stops.push((s.to_string(), jh));
    }
    async fn stop_inline(&mut self, s: &str) -> bool {
        let h = self.handles.remove(s).expect("handle");
        self.closed.push(s.to_string());
        ev(json!({"a": "stop_issue", "s": s}));
        let r = tokio::time::timeout(GUARD, h.stop()).await.is_ok();
        if r {
            ev(json!({"a": "stop_ret", "s": s}));
        } else {
            ev(json!({"a": "hang", "what": format!("stop {s}")}));
        }
        r
    }
}

async fn wait_for(pred: impl Fn(&J) -> bool) -> bool {
    for _ in 0..40000 {
        if logged(&pred) {
            return true;
        }
        tokio::time::sleep(Duration::from_micros(200)).await;
    }
    false
}

/// One run: returns false if a guard expired (recorded as `hang` events).
async fn one_run(seed: u64, scenario: &str, pace: u64) {
    let mut rng = Rng::new(seed);
    let joins: Arc<Mutex<Vec<(String, JoinHandle<()>)>>> = Arc::new(Mutex::new(Vec::new()));
    let mut run = Run {
        rng: Rng::new(rng.next()), handles: BTreeMap::new(), depth: BTreeMap::new(), parent: BTreeMap::new(),
        closed: vec![], joins: joins.clone(), stops: vec![], nact: 0, nsup: 0, pace,
    };
    let (tx, mut rx) = mpsc::unbounded_channel();
    let random = scenario == "random";
    // root level
    let base = scenario.trim_end_matches("-ct");
    let (owner_first, settle) = (seed % 2 == 0, (seed / 2) % 3);
    let (nra, nrs) = if random { (rng.below(4), rng.range(1, 2)) } else if base == "owner" { (0, 0) } else { (0, 1) };
    let mut ractors = vec![];
    for _ in 0..nra {
        ractors.push(run.actor(None, None));
    }
    let mut rsubs = vec![];
    for _ in 0..nrs {
        run.nsup += 1;
        rsubs.push(format!("s{}", run.nsup));
    }
    for s in &rsubs {
        run.depth.insert(s.clone(), 1);
        run.parent.insert(s.clone(), "s0".to_string());
    }
    let (source, sig_tx) = SoftwareSignalSource::new();
    let slot: Slot = Arc::new(Mutex::new(None));
    let owner_plan = if base == "owner" {
        // owner a1 under the primary supervisor holds subordinate s1 hosting worker a2 (slow cleanup)
        let mut own = run.actor(None, Some((0, Fin::Block)));
        let mut worker = run.actor(None, Some((0, Fin::Block)));
        run.nsup += 1;
        own.owns = Some(("s1".to_string(), slot.clone()));
        worker.slow_ms = 3;
        Some((owner_first, own, worker, "s1".to_string(), slot.clone()))
    } else {
        None
    };
    let ctx = Ctx { actors: ractors, subs: rsubs.clone(), out: tx, joins: joins.clone(), owner: owner_plan };
    ev(json!({"a": "exec_start"}));
    let exec = tokio::spawn(async move {
        let r = Runtime::new().exec(ctx, Handler, source).await;
        ev(json!({"a": "exec_ret"}));
        r
    });
    for _ in 0..rsubs.len() {
        match tokio::time::timeout(GUARD, rx.recv()).await {
            Ok(Some((id, h))) => {
                run.handles.insert(id, h);
            }
            _ => {
                ev(json!({"a": "hang", "what": "setup"}));
                return;
            }
        }
    }
    let mut signalled = false;
    let do_settle = |k: u64| async move {
        match k {
            0 => {}
            1 => {
                for _ in 0..3 {
                    tokio::task::yield_now().await;
                }
            }
            _ => tokio::time::sleep(Duration::from_millis(3)).await,
        }
    };
    match base {
        // Scenario family (seeded C47): the runtime is terminated while the owner's cleanup stops its subordinate:
        // the subordinate's task may find its Stop message AND its parent's notice pending in one poll.
        "owner" => {
            wait_for(|e| e["a"] == "setup_end").await;
            do_settle(settle).await;
        }
        // Same race one level down: parent s1 (stopped by the controller) hosts owner a1 and subordinate s2 (worker a2)
        "owner2" => {
            let p = rsubs[0].clone();
            let mut own = run.actor(None, Some((0, Fin::Block)));
            let mut worker = run.actor(None, Some((0, Fin::Block)));
            worker.slow_ms = 3;
            let sid = format!("s{}", run.nsup + 1);
            own.owns = Some((sid.clone(), slot.clone()));
            let mut own = Some(own);
            if owner_first {
                run.spawn_on(&p, own.take().expect("owner"));
            }
            let c = run.sub_on(&p).await;
            run.spawn_on(&c, worker);
            *slot.lock().expect("slot") = run.handles.remove(&c);
            if let Some(o) = own.take() {
                run.spawn_on(&p, o);
            }
            do_settle(settle).await;
            run.stop_inline(&p).await;
        }
        "random" => {
            let nops = rng.range(5, 16);
            let sig_at = rng.below(nops + 3);
            for i in 0..nops {
                if i == sig_at && !signalled {
                    ev(json!({"a": "signal"}));
                    let _ = sig_tx.send(Signal::Terminate).await;
                    signalled = true;
                }
                let open: Vec<String> = run.handles.keys().filter(|s| !signalled && !run.is_closed(s)).cloned().collect();
                let held: Vec<String> = run.handles.keys().cloned().collect();
                match rng.below(10) {
                    0..=4 if !open.is_empty() && run.nact < 16 => {
                        let s = rng.pick(&open).clone();
                        let a = run.actor(None, None);
                        run.spawn_on(&s, a);
                    }
                    5 if !open.is_empty() => {
                        let s = rng.pick(&open).clone();
                        if run.depth.get(&s).copied().unwrap_or(1) < 3 && run.nsup < 12 {
                            run.sub_on(&s).await;
                        }
                    }
                    6..=7 if !held.is_empty() => {
                        let s = rng.pick(&held).clone();
                        run.stop(&s);
                    }
                    8 if !held.is_empty() && rng.chance(1, 4) => {
                        // dropping a handle without stop: its task keeps running until an ancestor stops it
                        let s = rng.pick(&held).clone();
                        ev(json!({"a": "drop_handle", "s": s}));
                        run.closed.push(s.clone());
                        drop(run.handles.remove(&s));
                    }
                    _ => {}
                }
                pause(&mut rng, pace).await;
            }
        }
        // Model counterexample (KActorsMC free environment): an actor registered on a supervisor whose task has
        // already exited because an ancestor was stopped; stop() of that supervisor returns at once.
        "zombie" => {
            let p = rsubs[0].clone();
            let c = run.sub_on(&p).await;
            let a0 = run.actor(None, Some((0, Fin::Block)));
            run.spawn_on(&c, a0);
            // stop the parent; the child's handle stays with us
            let hc = run.handles.remove(&c).expect("c");
            run.stop_inline(&p).await;
            run.handles.insert(c.clone(), hc);
            let a1 = run.actor(None, Some((0, Fin::Block)));
            run.spawn_on(&c, a1);
            pause(&mut rng, 3).await;
            run.stop_inline(&c).await;
        }
        // Secondary (liveness): an actor registered on a child after the child's broadcast, while the child still
        // waits for an earlier actor whose cleanup is gated: the child (and every ancestor stop) waits forever.
        "late" => {
            let p = rsubs[0].clone();
            let c = run.sub_on(&p).await;
            let gate = Arc::new(Semaphore::new(0));
            let a0 = run.actor(Some(gate.clone()), Some((0, Fin::Block)));
            let a0id = a0.id.clone();
            run.spawn_on(&c, a0);
            let hc = run.handles.remove(&c).expect("c");
            run.stop(&p);
            run.handles.insert(c.clone(), hc);
            // a0 entered cleanup => the child has broadcast
            wait_for(|e| e["a"] == "a_cleanup" && e["x"] == a0id.as_str()).await;
            let a1 = run.actor(None, Some((0, Fin::Block)));
            run.spawn_on(&c, a1);
            gate.add_permits(1);
            wait_for(|e| e["a"] == "a_drop" && e["x"] == a0id.as_str()).await;
            // bounded observation window (secondary, not a verdict): does stop(p) return?
            let ret = {
                let mut ok = false;
                for _ in 0..1500 {
                    if logged(|e| e["a"] == "stop_ret" && e["s"] == p.as_str()) {
                        ok = true;
                        break;
                    }
                    tokio::time::sleep(Duration::from_micros(200)).await;
                }
                ok
            };
            ev(json!({"a": "note", "what": if ret { "late-registration: stop returned" } else { "late-registration: stop(p) still pending" }}));
        }
        _ => {}
    }
    if scenario != "late" {
        if !signalled {
            ev(json!({"a": "signal"}));
            let _ = sig_tx.send(Signal::Terminate).await;
        }
        if tokio::time::timeout(GUARD, exec).await.is_err() {
            ev(json!({"a": "hang", "what": "exec"}));
        }
        for (s, h) in run.stops.drain(..) {
            if tokio::time::timeout(GUARD, h).await.is_err() {
                ev(json!({"a": "hang", "what": format!("stop {s}")}));
            }
        }
        // remaining handles are dropped here; every actor must now end (channel closed or stopped)
        run.handles.clear();
        let js: Vec<(String, JoinHandle<()>)> = std::mem::take(&mut *joins.lock().expect("joins"));
        for (id, h) in js {
            if tokio::time::timeout(GUARD, h).await.is_err() {
                ev(json!({"a": "hang", "what": format!("actor {id}")}));
            }
        }
    }
}

pub fn run(o: &Opts) -> i32 {
    let out = o.str("out", "/verif/work/C47/obs.ndjson");
    let mut tr = Tracer::create(&out);
    let mut plan: Vec<(String, u64)> = Vec::new();
    if let Some(p) = o.get("replay") {
        // a replay file is an observed run: re-run the same scenario / seed on the current tree
        for r in read_ndjson(p) {
            if r["a"] == "reset" {
                plan.push((r["scenario"].as_str().unwrap_or("random").to_string(), r["seed"].as_u64().unwrap_or(1)));
            }
        }
    } else {
        let mut rng = Rng::new(o.seed());
        for sc in o.str("scenarios", "").split(',').filter(|s| !s.is_empty()) {
            plan.push((sc.to_string(), rng.next() % 1_000_000_000));
        }
        // scenario family `owner`: every (registration order x settle) variation, on both runtime flavours
        for r in 0..o.u64("owner-rounds", 0) {
            for sc in ["owner-ct", "owner2-ct", "owner", "owner2"] {
                plan.push((sc.to_string(), (rng.next() % 100_000_000) * 6 + r % 6));
            }
        }
        for _ in 0..o.u64("runs", 0) {
            plan.push(("random".to_string(), rng.next() % 1_000_000_000));
        }
    }
    let workers = o.u64("workers", 4) as usize;
    let mut hangs = 0;
    for (i, (sc, seed)) in plan.iter().enumerate() {
        // "-ct" scenarios run on a current-thread runtime: wake-ups are processed in a fixed order there, which
        // makes "both stop reasons pending in one poll" frequent
        let rt = if sc.ends_with("-ct") {
            tokio::runtime::Builder::new_current_thread().enable_all().build().expect("rt")
        } else {
            tokio::runtime::Builder::new_multi_thread().worker_threads(workers).enable_all().build().expect("rt")
        };
        take_log();
        let pace = 1 + (seed % 4);
        rt.block_on(one_run(*seed, sc, pace));
        rt.shutdown_timeout(Duration::from_millis(if sc == "late" { 50 } else { 2000 }));
        let evs = take_log();
        // seeds are < 10^9 so that they fit TLC's 32-bit integers
        tr.emit(&json!({"a": "reset", "run": i, "scenario": sc, "seed": seed, "n": evs.len()}));
        for e in evs {
            if e["a"] == "hang" {
                hangs += 1;
            }
            tr.emit(&e);
        }
    }
    let n = tr.finish();
    println!("OBSERVED lines={n} runs={} hangs={hangs} out={out}", plan.len());
    0
}
