//! kvc: shared helpers for the /verif harness drivers.
pub mod util;
pub mod srv;
