//! Real-server construction and projection (`Proj`) helpers.
#![allow(dead_code)]
use kanidmd_lib::be::{Backend, BackendConfig};
use kanidmd_lib::idm::server::{IdmServer, IdmServerAudit, IdmServerDelayed};
use kanidmd_lib::prelude::*;
use kanidmd_lib::schema::Schema;
use kanidm_proto::internal::FsType;
use std::path::Path;
use std::str::FromStr;
use std::time::Duration;

/// Base of simulated time (seconds since epoch). Model time k maps to T0 + k*unit.
pub const T0: u64 = 1_700_000_000;
pub fn t(k: u64) -> Duration {
    Duration::from_secs(T0 + k)
}

pub fn runtime() -> tokio::runtime::Runtime {
    tokio::runtime::Builder::new_current_thread()
        .enable_all()
        .build()
        .expect("tokio runtime")
}

fn backend(path: Option<&Path>, pool: u32) -> (Backend, Schema) {
    let schema_outer = Schema::new().expect("schema");
    let idxmeta = {
        let schema_txn = schema_outer.write();
        schema_txn.reload_idxmeta()
    };
    let cfg = BackendConfig::new(path, pool, FsType::Generic, Some(2048));
    let be = Backend::new(cfg, idxmeta, false).expect("backend");
    (be, schema_outer)
}

/// Fresh in-memory server initialised at simulated time `at`, at `level`.
pub async fn new_qs_level(at: Duration, level: DomainVersion) -> QueryServer {
    sketching::test_init();
    let (be, schema) = backend(None, 1);
    let qs = QueryServer::new(be, schema, "example.com".to_string(), at).expect("qs");
    qs.initialise_helper(at, level).await.expect("init");
    qs
}
pub async fn new_qs(at: Duration) -> QueryServer {
    new_qs_level(at, DOMAIN_TGT_LEVEL).await
}
/// Server over a database FILE (created if missing); `init` runs initialise_helper.
pub async fn open_qs_file(path: &Path, pool: u32, at: Duration, init: bool) -> QueryServer {
    sketching::test_init();
    let (be, schema) = backend(Some(path), pool);
    let qs = QueryServer::new(be, schema, "example.com".to_string(), at).expect("qs");
    if init {
        qs.initialise_helper(at, DOMAIN_TGT_LEVEL).await.expect("init");
    }
    qs
}
pub async fn new_idms(qs: QueryServer, at: Duration) -> (IdmServer, IdmServerDelayed, IdmServerAudit) {
    IdmServer::new(qs, &Url::from_str("https://idm.example.com").expect("url"), true, at)
        .await
        .expect("idms")
}

pub use kanidmd_lib::verif::proj::*;
pub use kanidmd_lib::verif::reexport::*;
