//! C49: validity window x front-end port x asker on a REAL default server (shipped ACPs).
//!
//! Target accounts: person `pt` (posix; primary password, passkey, unix password, RADIUS secret,
//! client certificate, login session, OAuth2 grant) and service account `st` (generated password,
//! API token). Askers: `self` (identity from the account's own token), `rad` (service account member
//! of idm_radius_servers, identity from its API token), `ux` (service account member of
//! idm_unix_authentication_read), `anon` (anonymous identity), `internal`.
//!
//! Line: {"a":"port","port":P,"asker":A,"acct":"pt"|"st","vf":VF,"ex":EX,"t":T,"res":class,"rel":bool}
//!   vf / ex are READ BACK from the stored entry (relative seconds, -1 = absent);
//!   rel = the port authenticated the account / released the credential.
use crate::o2::*;
use crate::world::*;
use compact_jwt::JwsCompact;
use kanidm_proto::v1::{AuthCredential, AuthMech};
use kanidmd_lib::idm::event::{RadiusAuthTokenEvent, RegenerateRadiusSecretEvent, UnixPasswordChangeEvent, UnixUserAuthEvent, UnixUserTokenEvent};
use kanidmd_lib::idm::ldap::LdapSession;
use kanidmd_lib::prelude::*;
use kanidmd_lib::verif::token as kt;
use kvc::srv::*;
use kvc::util::*;
use serde_json::json;

const PW: &str = "xk3!vQ9#pLm2zR7w-vv-Tq";
const UPW: &str = "ux3!vQ9#pLm2zR7w-ww-Tq";
const CERT_PEM: &str = include_str!("cert.pem");

fn acct(name: &str, n: u64, class: EntryClass, posix: bool) -> EntryInitNew {
    let mut e: EntryInitNew = kanidmd_lib::entry_init!(
        (Attribute::Class, EntryClass::Object.to_value()),
        (Attribute::Class, EntryClass::Account.to_value()),
        (Attribute::Class, class.to_value()),
        (Attribute::Name, Value::new_iname(name)),
        (Attribute::Uuid, Value::Uuid(uuid_n(n))),
        (Attribute::DisplayName, Value::new_utf8s(name))
    );
    if posix {
        e.add_ava(Attribute::Class, EntryClass::PosixAccount.to_value());
    }
    e
}

const PT: u64 = 1;
const ST: u64 = 2;
const RAD: u64 = 10;
const UX: u64 = 11;

struct V {
    w: World,
    cert: crypto_glue::x509::Certificate,
    uat: JwsCompact,
    api: JwsCompact,
    rad_tok: JwsCompact,
    ux_tok: JwsCompact,
    anon_tok: JwsCompact,
    st_uat: JwsCompact,
    ldap_sess: LdapSession,
    anon_ldap_sess: LdapSession,
    grant: Option<Grant>,
    stpw: String,
    now: u64,
}

impl V {
    async fn new() -> V {
        use crypto_glue::traits::DecodePem;
        let mut w = World::new(0).await;
        w.set_person_policy(0, Some(40 * 86400), None).await;
        let cert = crypto_glue::x509::Certificate::from_pem(CERT_PEM).expect("cert");
        let certe = kanidmd_lib::entry_init!(
            (Attribute::Class, EntryClass::Object.to_value()),
            (Attribute::Class, EntryClass::ClientCertificate.to_value()),
            (Attribute::Uuid, Value::Uuid(uuid_n(6))),
            (Attribute::Refers, Value::Refer(uuid_n(PT))),
            (Attribute::Certificate, Value::Certificate(Box::new(cert.clone())))
        );
        w.create(
            0,
            vec![
                acct("pt", PT, EntryClass::Person, true),
                acct("st", ST, EntryClass::ServiceAccount, false),
                acct("radsvc", RAD, EntryClass::ServiceAccount, false),
                acct("uxsvc", UX, EntryClass::ServiceAccount, false),
                certe,
                rs_entry(uuid_n(20)),
            ],
        )
        .await;
        let die = |what: &str, r: &str| {
            if r != "ok" {
                eprintln!("TOOL-ERROR provisioning {what}: {r}");
                std::process::exit(2);
            }
        };
        // documented service identities: members of the shipped groups, so the shipped ACPs apply
        die("radius group", &w.modify(0, UUID_IDM_RADIUS_SERVERS, vec![Modify::Present(Attribute::Member, Value::Refer(uuid_n(RAD)))]).await);
        die("unix group", &w.modify(0, UUID_IDM_UNIX_AUTHENTICATION_READ, vec![Modify::Present(Attribute::Member, Value::Refer(uuid_n(UX)))]).await);
        die("pt creds", &w.cred_update(0, uuid_n(PT), &[CredOp::SetPassword(PW.into()), CredOp::AddPasskey]).await.0);
        {
            let mut pw = w.idms.proxy_write(t(0)).await.expect("pw");
            let ev = UnixPasswordChangeEvent::from_parts(kt::ident_internal(), uuid_n(PT), UPW.into()).expect("ev");
            pw.set_unix_account_password(&ev).expect("unix pw");
            let ev = RegenerateRadiusSecretEvent::from_parts(kt::ident_internal(), uuid_n(PT)).expect("ev");
            pw.regenerate_radius_secret(&ev).expect("radius secret");
            pw.commit().expect("commit");
        }
        let stpw = w.gen_sa_password(0, uuid_n(ST)).await.expect("st password");
        let api = w.api_issue(1, uuid_n(ST), None, false, false).await.expect("api token");
        let rad_tok = w.api_issue(1, uuid_n(RAD), None, false, false).await.expect("rad token");
        let ux_tok = w.api_issue(1, uuid_n(UX), None, false, false).await.expect("ux token");
        let anon_tok = w.login(1, "anonymous", false, AuthMech::Anonymous, vec![AuthCredential::Anonymous]).await.expect("anon");
        let uat = w.login(2, "pt", false, AuthMech::Password, vec![AuthCredential::Password(PW.into())]).await.expect("login");
        while !w.pending.is_empty() {
            w.apply_pending(0, 2).await;
        }
        let st_uat = w.login(2, "st", false, AuthMech::Password, vec![AuthCredential::Password(stpw.clone())]).await.expect("st login");
        while !w.pending.is_empty() {
            w.apply_pending(0, 2).await;
        }
        let ldap_sess = w.ldap_bind(2, uuid_n(PT), UPW).await.expect("ldap bind");
        let anon_ldap_sess = w.ldap_bind(2, UUID_ANONYMOUS, "").await.expect("anonymous ldap bind");
        let ident = w.present(3, &uat).await.expect("ident");
        let code = w.o2_authorise(3, &ident).await.expect("authorise");
        let grant = w.o2_exchange(3, &code).await.expect("exchange");
        V { w, cert, uat, api, rad_tok, ux_tok, anon_tok, st_uat, ldap_sess, anon_ldap_sess, grant: Some(grant), stpw, now: 10 }
    }

    async fn set_window(&mut self, vf: i64, ex: i64) {
        self.set_window_on(&[uuid_n(PT), uuid_n(ST)], vf, ex).await
    }

    async fn set_window_on(&mut self, targets: &[Uuid], vf: i64, ex: i64) {
        for u in targets.iter().copied() {
            let mut mods = vec![Modify::Purged(Attribute::AccountValidFrom), Modify::Purged(Attribute::AccountExpire)];
            if vf >= 0 {
                mods.push(Modify::Present(Attribute::AccountValidFrom, Value::new_datetime_epoch(t_abs(vf as u64))));
            }
            if ex >= 0 {
                mods.push(Modify::Present(Attribute::AccountExpire, Value::new_datetime_epoch(t_abs(ex as u64))));
            }
            let r = self.w.modify(self.now, u, mods).await;
            if r != "ok" {
                eprintln!("TOOL-ERROR cannot set validity window: {r}");
                std::process::exit(2);
            }
        }
    }

    /// With the window open: login tokens live one day (shipped default session expiry wins the policy
    /// fold) - log in again when they are about to lapse, so that every row starts from live tokens.
    async fn refresh_logins(&mut self) {
        let soon = self.now + 7200;
        if self.w.present(soon, &self.uat).await.is_err() {
            if let Ok(tok) = self.w.login(self.now, "pt", false, AuthMech::Password, vec![AuthCredential::Password(PW.into())]).await {
                while !self.w.pending.is_empty() {
                    self.w.apply_pending(0, self.now).await;
                }
                self.uat = tok;
                self.grant = None;
            }
        }
        // generated-password sessions are limited to one hour
        if self.w.present(self.now + 900, &self.st_uat).await.is_err() {
            let pw = self.stpw.clone();
            if let Ok(tok) = self.w.login(self.now, "st", false, AuthMech::Password, vec![AuthCredential::Password(pw)]).await {
                while !self.w.pending.is_empty() {
                    self.w.apply_pending(0, self.now).await;
                }
                self.st_uat = tok;
            }
        }
        if self.w.present(soon, &self.anon_tok).await.is_err() {
            if let Ok(tok) = self.w.login(self.now, "anonymous", false, AuthMech::Anonymous, vec![AuthCredential::Anonymous]).await {
                self.anon_tok = tok;
            }
        }
    }

    /// With the window open: make sure the OAuth2 grant is fresh (access tokens live 15 minutes).
    async fn refresh_grant(&mut self) {
        let rt = self.grant.as_ref().map(|g| g.rt.clone());
        let r = match rt {
            Some(rt) => self.w.o2_refresh(self.now, &rt).await,
            None => Err("nogrant".into()),
        };
        match r {
            Ok(g) => self.grant = Some(g),
            Err(_) => {
                // start a new grant
                if let Ok(ident) = self.w.present(self.now, &self.uat).await {
                    if let Ok(code) = self.w.o2_authorise(self.now, &ident).await {
                        self.grant = self.w.o2_exchange(self.now, &code).await.ok();
                    }
                }
            }
        }
    }

    async fn asker(&self, who: &str, at: u64) -> Result<Identity, String> {
        match who {
            "internal" => Ok(kt::ident_internal()),
            "self" => self.w.present(at, &self.uat).await,
            "rad" => self.w.present(at, &self.rad_tok).await,
            "ux" => self.w.present(at, &self.ux_tok).await,
            "anon" => self.w.present(at, &self.anon_tok).await,
            _ => Err("unknown".into()),
        }
    }

    /// One port x asker at time `at`: (result class, released?)
    async fn port(&mut self, port: &str, who: &str, at: u64) -> (String, bool) {
        let ok = |r: Result<(), String>| match r {
            Ok(()) => ("ok".to_string(), true),
            Err(e) => (e, false),
        };
        match port {
            "auth_pw" => {
                let r = self.w.login(at, "pt", false, AuthMech::Password, vec![AuthCredential::Password(PW.into())]).await;
                self.w.pending.clear();
                ok(r.map(|_| ()))
            }
            "auth_pk" => {
                let r = self.w.login_passkey(at, "pt", false).await;
                self.w.pending.clear();
                ok(r.map(|_| ()))
            }
            "auth_genpw" => {
                let pw = self.stpw.clone();
                let r = self.w.login(at, "st", false, AuthMech::Password, vec![AuthCredential::Password(pw)]).await;
                self.w.pending.clear();
                ok(r.map(|_| ()))
            }
            "ldap_bind" => ok(self.w.ldap_bind(at, uuid_n(PT), UPW).await.map(|_| ())),
            "ldap_session" => ok(self.w.ldap_use(at, &self.ldap_sess).await.map(|_| ())),
            "ldap_token" => {
                use kanidmd_lib::idm::event::LdapTokenAuthEvent;
                let mut a = self.w.idms.auth().await.expect("auth");
                let ev = LdapTokenAuthEvent::from_parts(self.uat.clone()).expect("ev");
                let r = a.token_auth_ldap(&ev, t(at)).await;
                drop(a);
                match r {
                    Ok(Some(b)) => ok(self.w.ldap_use(at, &b.effective_session).await.map(|_| ())),
                    Ok(None) => ("denied".into(), false),
                    Err(e) => (class_of(&e), false),
                }
            }
            "unix_auth" => {
                let ident = match self.asker(who, at).await {
                    Ok(i) => i,
                    Err(e) => return (format!("noident:{e}"), false),
                };
                let mut a = self.w.idms.auth().await.expect("auth");
                let ev = UnixUserAuthEvent::from_parts(ident, uuid_n(PT), UPW.into()).expect("ev");
                let r = a.auth_unix(&ev, t(at)).await;
                drop(a);
                self.w.drain();
                self.w.pending.clear();
                match r {
                    Ok(Some(tok)) => (if tok.valid { "ok".into() } else { "ok-invalid".into() }, true),
                    Ok(None) => ("denied".into(), false),
                    Err(e) => (class_of(&e), false),
                }
            }
            "radius" => {
                let ident = match self.asker(who, at).await {
                    Ok(i) => i,
                    Err(e) => return (format!("noident:{e}"), false),
                };
                let mut r = self.w.idms.proxy_read().await.expect("pr");
                let ev = RadiusAuthTokenEvent::from_parts(ident, uuid_n(PT)).expect("ev");
                match r.get_radiusauthtoken(&ev, t(at)) {
                    Ok(tok) => (if tok.secret.is_empty() { "ok-empty".into() } else { "ok".into() }, !tok.secret.is_empty()),
                    Err(e) => (class_of(&e), false),
                }
            }
            "unix_token" => {
                let ident = match self.asker(who, at).await {
                    Ok(i) => i,
                    Err(e) => return (format!("noident:{e}"), false),
                };
                let mut r = self.w.idms.proxy_read().await.expect("pr");
                let ev = UnixUserTokenEvent::from_parts(ident, uuid_n(PT)).expect("ev");
                match r.get_unixusertoken(&ev, t(at)) {
                    Ok(tok) => (if tok.valid { "ok".into() } else { "token-invalid".into() }, tok.valid),
                    Err(e) => (class_of(&e), false),
                }
            }
            "bearer" => ok(self.w.present(at, &self.uat).await.map(|_| ())),
            // previously issued tokens of the other account kinds
            "bearer_st" => ok(self.w.present(at, &self.st_uat).await.map(|_| ())),
            "bearer_an" => ok(self.w.present(at, &self.anon_tok).await.map(|_| ())),
            "auth_anon" => {
                let r = self.w.login(at, "anonymous", false, AuthMech::Anonymous, vec![AuthCredential::Anonymous]).await;
                ok(r.map(|_| ()))
            }
            "ldap_anon_bind" => ok(self.w.ldap_bind(at, UUID_ANONYMOUS, "").await.map(|_| ())),
            "ldap_session_an" => ok(self.w.ldap_use(at, &self.anon_ldap_sess).await.map(|_| ())),
            "ldap_token_an" => {
                use kanidmd_lib::idm::event::LdapTokenAuthEvent;
                let mut a = self.w.idms.auth().await.expect("auth");
                let ev = LdapTokenAuthEvent::from_parts(self.anon_tok.clone()).expect("ev");
                let r = a.token_auth_ldap(&ev, t(at)).await;
                drop(a);
                match r {
                    Ok(Some(b)) => ok(self.w.ldap_use(at, &b.effective_session).await.map(|_| ())),
                    Ok(None) => ("denied".into(), false),
                    Err(e) => (class_of(&e), false),
                }
            }
            "api" => ok(self.w.present(at, &self.api).await.map(|_| ())),
            "cert" => ok(self.w.present_cert(at, &self.cert).await.map(|_| ())),
            "o2_authorise" => match self.w.present(at, &self.uat).await {
                Ok(ident) => ok(self.w.o2_authorise(at, &ident).await.map(|_| ())),
                Err(e) => (format!("noident:{e}"), false),
            },
            "o2_refresh" => {
                let Some(rt) = self.grant.as_ref().map(|g| g.rt.clone()) else { return ("nogrant".into(), false) };
                match self.w.o2_refresh(at, &rt).await {
                    Ok(g) => {
                        self.grant = Some(g);
                        ("ok".into(), true)
                    }
                    Err(e) => (e, false),
                }
            }
            "o2_introspect" => {
                let Some(atk) = self.grant.as_ref().map(|g| g.at.clone()) else { return ("nogrant".into(), false) };
                let r = self.w.o2_introspect(at, &atk).await;
                let rel = r == "active";
                (r, rel)
            }
            _ => ("unknown".into(), false),
        }
    }
}

/// (port, askers, account)
/// ports whose subject is the ANONYMOUS account: run in a second pass of every row with the window set on
/// the anonymous account only (the other askers need a live anonymous identity in the first pass)
pub const ANON_PORTS: [&str; 5] = ["auth_anon", "ldap_anon_bind", "bearer_an", "ldap_token_an", "ldap_session_an"];

pub const PORTS: [(&str, &[&str], &str); 18] = [
    ("bearer_st", &["self"], "st"),
    ("auth_pw", &["self"], "pt"),
    ("auth_pk", &["self"], "pt"),
    ("auth_genpw", &["self"], "st"),
    ("ldap_bind", &["self"], "pt"),
    ("ldap_session", &["self"], "pt"),
    ("ldap_token", &["self"], "pt"),
    ("unix_auth", &["anon", "ux", "internal"], "pt"),
    ("radius", &["rad", "internal", "self"], "pt"),
    ("unix_token", &["anon", "ux", "internal", "self"], "pt"),
    ("bearer", &["self"], "pt"),
    ("api", &["self"], "st"),
    ("cert", &["self"], "pt"),
    ("o2_introspect", &["self"], "pt"),
    ("o2_authorise", &["self"], "pt"),
    // last: a successful refresh rotates the refresh token
    ("o2_refresh", &["self"], "pt"),
    ("bearer", &["self"], "pt"),
    ("radius", &["rad"], "pt"),
];

async fn row(v: &mut V, tr: &mut Tracer, vf: i64, ex: i64, tq: u64, only: Option<(&str, &str)>) {
    // open window: refresh what expires by itself, then set the window under test
    v.now = tq.saturating_sub(5).max(v.now);
    v.set_window(-1, -1).await;
    v.refresh_logins().await;
    v.refresh_grant().await;
    v.set_window(vf, ex).await;
    let tq = tq.max(v.now);
    v.now = tq;
    for (port, askers, acct) in PORTS.iter() {
        for who in askers.iter() {
            if let Some((p, a)) = only {
                if p != *port || a != *who {
                    continue;
                }
            }
            // window as STORED on the account the port is about
            let (svf, sex) = match v.w.entry(uuid_n(if *acct == "pt" { PT } else { ST })).await {
                Some(e) => kt::validity(&e),
                None => (-1, -1),
            };
            let (res, rel) = v.port(port, who, tq).await;
            tr.emit(&json!({"a":"port","port":port,"asker":who,"acct":acct,"vf":relsecs(svf),"ex":relsecs(sex),"t":tq,"res":res,"rel":rel}));
        }
    }
    // second pass: the same window on the ANONYMOUS account (set AFTER its token / LDAP session were issued)
    v.set_window(-1, -1).await;
    v.set_window_on(&[UUID_ANONYMOUS], vf, ex).await;
    for port in ANON_PORTS.iter() {
        if let Some((p, _)) = only {
            if p != *port {
                continue;
            }
        }
        let (svf, sex) = match v.w.entry(UUID_ANONYMOUS).await {
            Some(e) => kt::validity(&e),
            None => (-1, -1),
        };
        let (res, rel) = v.port(port, "self", tq).await;
        tr.emit(&json!({"a":"port","port":port,"asker":"self","acct":"an","vf":relsecs(svf),"ex":relsecs(sex),"t":tq,"res":res,"rel":rel}));
    }
    v.set_window_on(&[UUID_ANONYMOUS], -1, -1).await;
}

pub fn run(o: &Opts) -> i32 {
    let out = o.str("out", "/verif/work/C49/obs.ndjson");
    let mut tr = Tracer::create(&out);
    let rt = runtime();
    rt.block_on(async {
        if let Some(rp) = o.get("replay") {
            // every port line is re-executed as its own row (window set, then that port x asker at t)
            let mut v: Option<V> = None;
            for l in read_ndjson(rp) {
                if l["a"] == "reset" || v.is_none() {
                    tr.emit(&json!({"a":"reset"}));
                    v = Some(V::new().await);
                    if l["a"] == "reset" {
                        continue;
                    }
                }
                if l["a"] == "port" {
                    let x = v.as_mut().expect("v");
                    let tq = l["t"].as_u64().unwrap_or(1000).max(x.now + 10);
                    let shift = tq as i64 - l["t"].as_i64().unwrap_or(tq as i64);
                    let f = |k: &str| l[k].as_i64().map(|z| if z < 0 { -1 } else { z + shift }).unwrap_or(-1);
                    row(x, &mut tr, f("vf"), f("ex"), tq, Some((l["port"].as_str().unwrap_or(""), l["asker"].as_str().unwrap_or("")))).await;
                }
            }
            return;
        }
        tr.emit(&json!({"a":"reset"}));
        let mut v = V::new().await;
        let mut tq = 1000u64;
        if !o.flag("nomatrix") {
            // the full matrix: valid-from in {absent, past, now, future} x expiry in {absent, past, now, future}
            for dvf in [None, Some(-100i64), Some(0), Some(100)] {
                for dex in [None, Some(-100i64), Some(0), Some(100)] {
                    let vf = dvf.map(|d| tq as i64 + d).unwrap_or(-1);
                    let ex = dex.map(|d| tq as i64 + d).unwrap_or(-1);
                    row(&mut v, &mut tr, vf, ex, tq, None).await;
                    tq += 600;
                }
            }
        }
        let mut rng = Rng::new(o.seed());
        for _ in 0..o.u64("random", 0) {
            let d = |rng: &mut Rng| -> Option<i64> {
                match rng.below(4) {
                    0 => None,
                    _ => Some(*rng.pick(&[-86400i64, -3600, -2, -1, 0, 1, 2, 60, 3600, 86400])),
                }
            };
            let (dvf, dex) = (d(&mut rng), d(&mut rng));
            let vf = dvf.map(|x| (tq as i64 + x).max(0)).unwrap_or(-1);
            let ex = dex.map(|x| (tq as i64 + x).max(0)).unwrap_or(-1);
            row(&mut v, &mut tr, vf, ex, tq, None).await;
            tq += rng.range(60, 5000);
        }
    });
    let n = tr.finish();
    println!("OBSERVED lines={n} out={out}");
    0
}
