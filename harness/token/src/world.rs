//! A real default kanidm server (in-memory or file-backed QueryServer + IdmServer) with simulated
//! time and a harness-held delayed-action queue, plus the flows the token-group drivers need.
#![allow(dead_code)]
use compact_jwt::JwsCompact;
use kanidm_proto::internal::ApiToken as ProtoApiToken;
use kanidm_proto::internal::UserAuthToken;
use kanidm_proto::v1::{AuthAllowed, AuthCredential, AuthIssueSession, AuthMech, AuthStep};
use kanidmd_lib::credential::totp::Totp;
use kanidmd_lib::idm::account::DestroySessionTokenEvent;
use kanidmd_lib::idm::authentication::AuthState;
use kanidmd_lib::idm::credupdatesession::{InitCredentialUpdateEvent, MfaRegStateStatus};
use kanidmd_lib::idm::delayed::DelayedAction;
use kanidmd_lib::idm::event::{AuthEvent, AuthResult};
use kanidmd_lib::idm::server::IdmServerTransaction;
use kanidmd_lib::idm::serviceaccount::{DestroyApiTokenEvent, GenerateApiTokenEvent};
use kanidmd_lib::prelude::*;
use kanidmd_lib::value::CredentialType;
use kanidmd_lib::verif::token as kt;
use kvc::srv::*;
use serde_json::{json, Value as J};
use std::collections::BTreeMap;
use std::str::FromStr;
use webauthn_authenticator_rs::softpasskey::SoftPasskey;
use webauthn_authenticator_rs::WebauthnAuthenticator;

pub const DOMAIN_UUID: Uuid = UUID_DOMAIN_INFO;

pub fn uuid_n(n: u64) -> Uuid {
    uuid_e(n)
}

/// Short stable names for uuids / kids in the projection (`s1`, `c2`, `d3`, …), by first appearance.
#[derive(Default)]
pub struct Names {
    m: BTreeMap<String, String>,
    n: BTreeMap<char, u32>,
}
impl Names {
    pub fn get(&mut self, prefix: char, key: &str) -> String {
        if let Some(v) = self.m.get(&format!("{prefix}{key}")) {
            return v.clone();
        }
        let c = self.n.entry(prefix).or_insert(0);
        *c += 1;
        let v = format!("{prefix}{c}");
        self.m.insert(format!("{prefix}{key}"), v.clone());
        v
    }
}

pub struct World {
    pub idms: IdmServer,
    pub delayed: IdmServerDelayed,
    pub _audit: IdmServerAudit,
    /// delayed actions drained from the server queue, not yet applied (applied by `apply_pending`)
    pub pending: Vec<DelayedAction>,
    pub names: Names,
    /// domain / key-object keys in order of first appearance: (name, kid, usage)
    pub keymap: Vec<(String, String, String)>,
    /// software authenticator holding every passkey registered through `CredOp::AddPasskey`
    pub wa: SoftPasskey,
}

pub fn rel(t: u64) -> Duration {
    t_abs(t)
}
pub fn t_abs(k: u64) -> Duration {
    t(k)
}
/// unix seconds -> seconds relative to T0 (or -1)
pub fn relsecs(s: i64) -> i64 {
    if s < 0 {
        -1
    } else {
        s - T0 as i64
    }
}

pub fn class_of(e: &OperationError) -> String {
    match e {
        OperationError::SessionExpired => "expired".into(),
        OperationError::NotAuthenticated => "notauth".into(),
        OperationError::NoMatchingEntries => "nomatch".into(),
        OperationError::AccessDenied => "denied".into(),
        other => format!("err:{other:?}").chars().take(60).collect(),
    }
}

impl World {
    pub async fn new(at: u64) -> World {
        let qs = new_qs(t(at)).await;
        Self::from_qs(qs, at).await
    }
    pub async fn from_qs(qs: QueryServer, at: u64) -> World {
        let (idms, delayed, audit) = new_idms(qs, t(at)).await;
        World { idms, delayed, _audit: audit, pending: Vec::new(), names: Names::default(), keymap: Vec::new(), wa: SoftPasskey::new(true) }
    }

    /// Move everything the server queued into the harness-held pending list.
    pub fn drain(&mut self) {
        while let Some(da) = kt::delayed_try_recv(&mut self.delayed) {
            self.pending.push(da);
        }
    }

    /// Apply the i-th pending delayed action exactly as the server task does
    /// (proxy_write, process_delayedaction, commit).
    pub async fn apply_pending(&mut self, i: usize, at: u64) -> String {
        if i >= self.pending.len() {
            return "none".into();
        }
        let da = self.pending.remove(i);
        let mut pw = self.idms.proxy_write(t(at)).await.expect("proxy_write");
        match pw.process_delayedaction(&da, t(at)).and_then(|_| pw.commit()) {
            Ok(()) => "ok".into(),
            Err(e) => class_of(&e),
        }
    }

    // ---------------------------------------------------------------- provisioning

    /// Lower the default person policy so password-only credentials can be committed
    /// (shipped default is MFA); optional session / privilege expiry overrides (seconds).
    pub async fn set_person_policy(&mut self, at: u64, sess_exp: Option<u32>, priv_exp: Option<u32>) {
        let mut w = self.idms.proxy_write(t(at)).await.expect("pw");
        let mut mods = vec![
            Modify::Purged(Attribute::CredentialTypeMinimum),
            Modify::Present(Attribute::CredentialTypeMinimum, CredentialType::Any.into()),
        ];
        if let Some(s) = sess_exp {
            mods.push(Modify::Purged(Attribute::AuthSessionExpiry));
            mods.push(Modify::Present(Attribute::AuthSessionExpiry, Value::Uint32(s)));
        }
        if let Some(s) = priv_exp {
            mods.push(Modify::Purged(Attribute::PrivilegeExpiry));
            mods.push(Modify::Present(Attribute::PrivilegeExpiry, Value::Uint32(s)));
        }
        w.qs_write
            .internal_modify_uuid(UUID_IDM_ALL_PERSONS, &ModifyList::new_list(mods))
            .expect("policy");
        w.commit().expect("commit");
    }

    pub async fn create(&mut self, at: u64, es: Vec<EntryInitNew>) {
        let mut w = self.idms.proxy_write(t(at)).await.expect("pw");
        w.qs_write.internal_create(es).expect("create");
        w.commit().expect("commit");
    }

    pub async fn modify(&mut self, at: u64, target: Uuid, mods: Vec<Modify>) -> String {
        let mut w = self.idms.proxy_write(t(at)).await.expect("pw");
        match w
            .qs_write
            .internal_modify_uuid(target, &ModifyList::new_list(mods))
            .and_then(|_| w.commit())
        {
            Ok(()) => "ok".into(),
            Err(e) => class_of(&e),
        }
    }

    pub async fn delete(&mut self, at: u64, target: Uuid) -> String {
        let mut w = self.idms.proxy_write(t(at)).await.expect("pw");
        match w.qs_write.internal_delete_uuid(target).and_then(|_| w.commit()) {
            Ok(()) => "ok".into(),
            Err(e) => class_of(&e),
        }
    }

    pub async fn entry(&self, u: Uuid) -> Option<std::sync::Arc<EntrySealedCommitted>> {
        let mut r = self.idms.proxy_read().await.expect("pr");
        r.qs_read.internal_search_uuid(u).ok()
    }

    // ---------------------------------------------------------------- credential update sessions

    /// Run a credential-update session on `target` as the account itself (read-write impersonation):
    /// `ops` are applied in order, then committed. Returns (result class, totp if one was enrolled).
    pub async fn cred_update(&mut self, at: u64, target: Uuid, ops: &[CredOp]) -> (String, Option<Totp>) {
        let ct = t(at);
        let Some(entry) = self.entry(target).await else { return ("nomatch".into(), None) };
        let ident = Identity::from_impersonate_entry_readwrite(entry);
        let cust = {
            let mut w = self.idms.proxy_write(ct).await.expect("pw");
            let r = w.init_credential_update(&InitCredentialUpdateEvent::new(ident, target), ct);
            match r {
                Ok((cust, _)) => {
                    w.commit().expect("commit");
                    cust
                }
                Err(e) => return (class_of(&e), None),
            }
        };
        let mut totp_out = None;
        {
            let cu = self.idms.cred_update_transaction().await.expect("cutxn");
            for op in ops {
                let r = match op {
                    CredOp::SetPassword(pw) => cu.credential_primary_set_password(&cust, ct, pw).map(|_| ()),
                    CredOp::DeletePrimary => cu.credential_primary_delete(&cust, ct).map(|_| ()),
                    CredOp::AddTotp => (|| {
                        let st = cu.credential_primary_init_totp(&cust, ct)?;
                        let totp: Totp = match st.mfaregstate() {
                            MfaRegStateStatus::TotpCheck(secret) => {
                                Totp::try_from(secret.clone()).map_err(|_| OperationError::InvalidState)?
                            }
                            _ => return Err(OperationError::InvalidState),
                        };
                        let chal = totp.do_totp_duration_from_epoch(&ct).map_err(|_| OperationError::InvalidState)?;
                        cu.credential_primary_check_totp(&cust, ct, chal, "totp")?;
                        totp_out = Some(totp);
                        Ok(())
                    })(),
                    CredOp::RemoveTotp => cu.credential_primary_remove_totp(&cust, ct, "totp").map(|_| ()),
                    CredOp::SetUnixPassword(pw) => cu.credential_unix_set_password(&cust, ct, pw).map(|_| ()),
                    CredOp::AddPasskey => (|| {
                        let origin = Url::parse("https://idm.example.com").expect("url");
                        let st = cu.credential_passkey_init(&cust, ct)?;
                        let chal = match st.mfaregstate() {
                            MfaRegStateStatus::Passkey(c) => c.clone(),
                            _ => return Err(OperationError::InvalidState),
                        };
                        let resp = self.wa.do_registration(origin, chal).map_err(|_| OperationError::InvalidState)?;
                        cu.credential_passkey_finish(&cust, ct, "softtoken".to_string(), &resp)?;
                        Ok(())
                    })(),
                    CredOp::RemovePasskey(u) => cu.credential_passkey_remove(&cust, ct, *u).map(|_| ()),
                };
                if let Err(e) = r {
                    return (format!("op:{}", class_of(&e)), None);
                }
            }
        }
        let mut w = self.idms.proxy_write(ct).await.expect("pw");
        match w.commit_credential_update(&cust, ct).and_then(|_| w.commit()) {
            Ok(()) => ("ok".into(), totp_out),
            Err(e) => (class_of(&e), None),
        }
    }

    // ---------------------------------------------------------------- interactive login

    /// Full init/begin/cred sequence. `steps` are the credentials to present in order
    /// (Password / Totp / Anonymous). Returns Ok(token) or Err(result class).
    pub async fn login(
        &mut self,
        at: u64,
        name: &str,
        privileged: bool,
        mech: AuthMech,
        creds: Vec<AuthCredential>,
    ) -> Result<JwsCompact, String> {
        let ct = t(at);
        let mut a = self.idms.auth().await.expect("auth txn");
        let cai = || ClientAuthInfo::new(Source::Internal, None, None, None);
        let init = AuthEvent::from_message(
            None,
            AuthStep::Init2 { username: name.to_string(), issue: AuthIssueSession::Token, privileged }.into(),
        )
        .map_err(|e| class_of(&e))?;
        let AuthResult { sessionid, state } = a.auth(&init, ct, cai()).await.map_err(|e| class_of(&e))?;
        match state {
            AuthState::Choose(_) => {}
            AuthState::Denied(_) => return Err("denied".into()),
            _ => return Err("unexpected-init".into()),
        }
        let begin = AuthEvent::from_message(Some(sessionid), AuthStep::Begin(mech).into()).map_err(|e| class_of(&e))?;
        let AuthResult { state, .. } = a.auth(&begin, ct, cai()).await.map_err(|e| class_of(&e))?;
        match state {
            AuthState::Continue(_) => {}
            AuthState::Denied(_) => return Err("denied".into()),
            _ => return Err("unexpected-begin".into()),
        }
        let r = Self::cred_steps(&mut a, sessionid, ct, creds).await;
        a.commit().expect("auth commit");
        self.drain();
        r
    }

    /// Passkey login with the software authenticator.
    pub async fn login_passkey(&mut self, at: u64, name: &str, privileged: bool) -> Result<JwsCompact, String> {
        let ct = t(at);
        let mut a = self.idms.auth().await.expect("auth txn");
        let origin = a.get_origin().clone();
        let cai = || ClientAuthInfo::new(Source::Internal, None, None, None);
        let init = AuthEvent::from_message(
            None,
            AuthStep::Init2 { username: name.to_string(), issue: AuthIssueSession::Token, privileged }.into(),
        )
        .map_err(|e| class_of(&e))?;
        let AuthResult { sessionid, state } = a.auth(&init, ct, cai()).await.map_err(|e| class_of(&e))?;
        match state {
            AuthState::Choose(_) => {}
            AuthState::Denied(_) => return Err("denied".into()),
            _ => return Err("unexpected-init".into()),
        }
        let begin = AuthEvent::from_message(Some(sessionid), AuthStep::Begin(AuthMech::Passkey).into()).map_err(|e| class_of(&e))?;
        let AuthResult { state, .. } = a.auth(&begin, ct, cai()).await.map_err(|e| class_of(&e))?;
        let rcr = match state {
            AuthState::Continue(mut al) => match al.pop() {
                Some(AuthAllowed::Passkey(rcr)) => rcr,
                _ => return Err("unexpected-begin".into()),
            },
            AuthState::Denied(_) => return Err("denied".into()),
            _ => return Err("unexpected-begin".into()),
        };
        let resp = self.wa.do_authentication(origin, rcr).map_err(|_| "waerr".to_string())?;
        let r = Self::cred_steps(&mut a, sessionid, ct, vec![AuthCredential::Passkey(Box::new(resp))]).await;
        a.commit().expect("auth commit");
        self.drain();
        r
    }

    async fn cred_steps(
        a: &mut kanidmd_lib::idm::server::IdmServerAuthTransaction<'_>,
        sessionid: Uuid,
        ct: Duration,
        creds: Vec<AuthCredential>,
    ) -> Result<JwsCompact, String> {
        let cai = || ClientAuthInfo::new(Source::Internal, None, None, None);
        let mut last = Err("nocreds".to_string());
        for c in creds {
            let ev = AuthEvent::from_message(Some(sessionid), AuthStep::Cred(c).into()).map_err(|e| class_of(&e))?;
            let AuthResult { state, .. } = a.auth(&ev, ct, cai()).await.map_err(|e| class_of(&e))?;
            match state {
                AuthState::Success(tok, _) => return Ok(*tok),
                AuthState::Continue(_) => last = Err("continue".to_string()),
                AuthState::Denied(_) => return Err("denied".into()),
                _ => return Err("unexpected-cred".into()),
            }
        }
        last
    }

    /// Re-authentication of the session behind `ident`.
    pub async fn reauth(&mut self, at: u64, ident: Identity, grant_rw: bool, how: &ReauthCred) -> Result<JwsCompact, String> {
        use kanidmd_lib::idm::authentication::ReauthRequest;
        let ct = t(at);
        let mut a = self.idms.auth().await.expect("auth txn");
        let origin = a.get_origin().clone();
        let req = if grant_rw { ReauthRequest::GrantReadWrite } else { ReauthRequest::VerifyCredentials };
        let r = a
            .reauth_init(ident, AuthIssueSession::Token, ct, ClientAuthInfo::new(Source::Internal, None, None, None), req)
            .await
            .map_err(|e| class_of(&e))?;
        let AuthResult { sessionid, state } = r;
        let mut allowed = match state {
            AuthState::Continue(al) => al,
            AuthState::Denied(_) => return Err("denied".into()),
            _ => return Err("unexpected-reauth".into()),
        };
        let creds = match how {
            ReauthCred::Pw(pw) => vec![AuthCredential::Password(pw.clone())],
            ReauthCred::PwTotp(pw, totp) => {
                let code = totp.do_totp_duration_from_epoch(&ct).map_err(|_| "totperr".to_string())?;
                vec![AuthCredential::Totp(code), AuthCredential::Password(pw.clone())]
            }
            ReauthCred::Passkey => match allowed.pop() {
                Some(AuthAllowed::Passkey(rcr)) => {
                    let resp = self.wa.do_authentication(origin, rcr).map_err(|_| "waerr".to_string())?;
                    vec![AuthCredential::Passkey(Box::new(resp))]
                }
                _ => return Err("unexpected-reauth-allowed".into()),
            },
        };
        let r = Self::cred_steps(&mut a, sessionid, ct, creds).await;
        a.commit().expect("auth commit");
        self.drain();
        r
    }

    /// LDAP simple bind with the unix password; returns the bound session.
    pub async fn ldap_bind(&mut self, at: u64, target: Uuid, pw: &str) -> Result<kanidmd_lib::idm::ldap::LdapSession, String> {
        use kanidmd_lib::idm::event::LdapAuthEvent;
        let mut a = self.idms.auth().await.expect("auth txn");
        let ev = LdapAuthEvent::from_parts(target, pw.to_string()).map_err(|e| class_of(&e))?;
        let r = a.auth_ldap(&ev, t(at)).await;
        a.commit().expect("auth commit");
        self.drain();
        match r {
            Ok(Some(tok)) => Ok(tok.effective_session),
            Ok(None) => Err("denied".into()),
            Err(e) => Err(class_of(&e)),
        }
    }
    pub async fn ldap_use(&self, at: u64, sess: &kanidmd_lib::idm::ldap::LdapSession) -> Result<Identity, String> {
        let mut r = self.idms.proxy_read().await.expect("pr");
        r.validate_ldap_session(sess, Source::Internal, t(at)).map_err(|e| class_of(&e))
    }

    /// Present a client certificate (mTLS identity) instead of a bearer token.
    pub async fn present_cert(&self, at: u64, cert: &crypto_glue::x509::Certificate) -> Result<Identity, String> {
        use kanidmd_lib::idm::authentication::ClientCertInfo;
        let Some(d) = crypto_glue::x509::x509_digest_public_key_sha256(cert) else { return Err("nodigest".into()) };
        let cci = ClientCertInfo { public_key_s256: d, certificate: cert.clone() };
        let mut r = self.idms.proxy_read().await.expect("pr");
        let cai = ClientAuthInfo::new(Source::Internal, Some(cci), None, None);
        r.validate_client_auth_info_to_ident(cai, t(at)).map_err(|e| class_of(&e))
    }

    /// Generated password of a service account (generate_service_account_password).
    pub async fn gen_sa_password(&mut self, at: u64, target: Uuid) -> Result<String, String> {
        use kanidmd_lib::idm::event::GeneratePasswordEvent;
        let mut w = self.idms.proxy_write(t(at)).await.expect("pw");
        let ev = GeneratePasswordEvent::from_parts(kt::ident_internal(), target).map_err(|e| class_of(&e))?;
        match w.generate_service_account_password(&ev) {
            Ok(pw) => {
                w.commit().map_err(|e| class_of(&e))?;
                Ok(pw)
            }
            Err(e) => Err(class_of(&e)),
        }
    }

    // ---------------------------------------------------------------- tokens

    pub async fn present(&self, at: u64, tok: &JwsCompact) -> Result<Identity, String> {
        let mut r = self.idms.proxy_read().await.expect("pr");
        let cai = ClientAuthInfo::new(Source::Internal, None, Some(tok.clone()), None);
        match kvc::util::catch(|| r.validate_client_auth_info_to_ident(cai, t(at))) {
            Ok(Ok(i)) => Ok(i),
            Ok(Err(e)) => Err(class_of(&e)),
            Err(_) => Err("panic".into()),
        }
    }

    pub async fn api_issue(&mut self, at: u64, target: Uuid, exp: Option<u64>, rw: bool, compact: bool) -> Result<JwsCompact, String> {
        let mut w = self.idms.proxy_write(t(at)).await.expect("pw");
        let ev = GenerateApiTokenEvent {
            ident: kt::ident_internal(),
            target,
            label: format!("tok{at}"),
            expiry: exp.map(|e| time::OffsetDateTime::UNIX_EPOCH + t(e)),
            read_write: rw,
            compact,
        };
        match w.service_account_generate_api_token(&ev, t(at)) {
            Ok(tok) => {
                w.commit().map_err(|e| class_of(&e))?;
                Ok(tok)
            }
            Err(e) => Err(class_of(&e)),
        }
    }

    pub async fn api_destroy(&mut self, at: u64, target: Uuid, token_id: Uuid) -> String {
        let mut w = self.idms.proxy_write(t(at)).await.expect("pw");
        let ev = DestroyApiTokenEvent { ident: kt::ident_internal(), target, token_id };
        match w.service_account_destroy_api_token(&ev).and_then(|_| w.commit()) {
            Ok(()) => "ok".into(),
            Err(e) => class_of(&e),
        }
    }

    pub async fn session_destroy(&mut self, at: u64, target: Uuid, token_id: Uuid) -> String {
        let mut w = self.idms.proxy_write(t(at)).await.expect("pw");
        let ev = DestroySessionTokenEvent { ident: kt::ident_internal(), target, token_id };
        match w.account_destroy_session_token(&ev).and_then(|_| w.commit()) {
            Ok(()) => "ok".into(),
            Err(e) => class_of(&e),
        }
    }

    // ---------------------------------------------------------------- projection

    /// Stored key set of the key object `obj`: name -> {u, st, vf}
    pub async fn proj_keys(&mut self, obj: Uuid) -> J {
        let e = self.entry(obj).await;
        let mut o = serde_json::Map::new();
        if let Some(e) = e {
            let mut ks = kt::key_states(&e);
            ks.sort_by(|a, b| (a.3, &a.0).cmp(&(b.3, &b.0)));
            for (kid, usage, status, vf, sc) in ks {
                let n = self.names.get('d', &kid);
                o.insert(n, json!({"u": usage, "st": status, "vf": relsecs(vf as i64).max(-1), "sc": relsecs(sc as i64).max(-1)}));
            }
        }
        J::Object(o)
    }

    /// Stored key set with per-usage names in creation order (e1,e2.. es256; h.. hs256; j.. jwe; r.. rs256; f.. hkdf)
    pub async fn proj_keys_named(&mut self, obj: Uuid) -> J {
        let e = self.entry(obj).await;
        let mut o = serde_json::Map::new();
        if let Some(e) = e {
            let mut ks = kt::key_states(&e);
            ks.sort_by(|a, b| (a.3, &a.0).cmp(&(b.3, &b.0)));
            for (kid, usage, status, vf, sc) in ks {
                let n = self.key_name_u(&kid, usage);
                o.insert(n, json!({"u": usage, "st": status, "vf": relsecs(vf as i64).max(-1), "sc": relsecs(sc as i64).max(-1)}));
            }
        }
        J::Object(o)
    }
    fn key_name_u(&mut self, kid: &str, usage: &str) -> String {
        if let Some(x) = self.keymap.iter().find(|x| x.1 == kid) {
            return x.0.clone();
        }
        let p = match usage { "es256" => "e", "hs256" => "h", "jwe" => "j", "rs256" => "r", _ => "f" };
        let n = self.keymap.iter().filter(|x| x.2 == usage).count() + 1;
        let name = format!("{p}{n}");
        self.keymap.push((name.clone(), kid.to_string(), usage.to_string()));
        name
    }
    pub fn key_name(&mut self, kid: &str) -> String {
        match self.keymap.iter().find(|x| x.1 == kid) {
            Some(x) => x.0.clone(),
            None => self.names.get('x', kid),
        }
    }
    pub fn kid_of(&self, name: &str) -> Option<String> {
        self.keymap.iter().find(|x| x.0 == name).map(|x| x.1.clone())
    }
    pub fn key_names(&self) -> Vec<String> {
        self.keymap.iter().map(|x| x.0.clone()).collect()
    }
    pub fn names_peek(&self, prefix: char, key: &str) -> Option<String> {
        self.names.m.get(&format!("{prefix}{key}")).cloned()
    }

    /// Account projection: absent -> None
    pub async fn proj_account(&mut self, u: Uuid) -> Option<J> {
        let e = self.entry(u).await?;
        let (vf, ex) = kt::validity(&e);
        let mut sess = serde_json::Map::new();
        for s in kt::uat_sessions(&e) {
            let n = self.names.get('s', &s.id.to_string());
            let c = self.names.get('c', &s.cred_id.to_string());
            sess.insert(n, json!({"st": s.state, "exp": relsecs(s.exp), "cred": c, "iat": relsecs(s.issued_at), "sc": s.scope, "rt": relsecs(s.rev_at)}));
        }
        let mut api = serde_json::Map::new();
        for (id, exp, iat, sc) in kt::api_sessions(&e) {
            let n = self.names.get('s', &id.to_string());
            api.insert(n, json!({"exp": relsecs(exp), "iat": relsecs(iat), "sc": sc}));
        }
        let mut o2 = serde_json::Map::new();
        for (id, parent, st, exp, iat, _rs) in kt::oauth2_sessions(&e) {
            let n = self.names.get('o', &id.to_string());
            let p = parent.map(|p| self.names.get('s', &p.to_string())).unwrap_or_else(|| "none".into());
            o2.insert(n, json!({"st": st, "exp": relsecs(exp), "iat": relsecs(iat), "parent": p}));
        }
        let creds: Vec<String> = kt::cred_ids(&e).into_iter().map(|(_, u)| self.names.get('c', &u.to_string())).collect();
        Some(json!({"vf": relsecs(vf), "ex": relsecs(ex), "sess": sess, "api": api, "o2": o2, "creds": creds}))
    }
}

pub enum ReauthCred {
    Pw(String),
    PwTotp(String, Totp),
    Passkey,
}

pub enum CredOp {
    SetPassword(String),
    DeletePrimary,
    AddTotp,
    RemoveTotp,
    SetUnixPassword(String),
    AddPasskey,
    RemovePasskey(Uuid),
}

/// Unverified decode of the token body (projection only: which session / expiry / kid the token claims).
pub struct TokInfo {
    pub kind: &'static str, // "uat" | "api"
    pub acct: Uuid,
    pub sid: Uuid,
    pub exp: i64,
    pub iat: i64,
    pub kid: String,
    /// "ro" | "rw" | "pc" (uat purpose: ro / rw-with-expiry / privilege-capable) ; api: ro | rw
    pub purpose: &'static str,
    pub priv_exp: i64,
}

pub fn decode(tok: &JwsCompact) -> Option<TokInfo> {
    use base64::Engine;
    use compact_jwt::traits::JwsVerifiable;
    let s = tok.to_string();
    let mut parts = s.split('.');
    let _h = parts.next()?;
    let body = parts.next()?;
    let raw = base64::engine::general_purpose::URL_SAFE_NO_PAD.decode(body).ok()?;
    let kid = tok.kid().unwrap_or("").to_string();
    if let Ok(uat) = serde_json::from_slice::<UserAuthToken>(&raw) {
        use kanidm_proto::internal::UatPurpose;
        let (purpose, priv_exp) = match uat.purpose {
            UatPurpose::ReadOnly => ("ro", -1),
            UatPurpose::ReadWrite { expiry: None } => ("pc", -1),
            UatPurpose::ReadWrite { expiry: Some(e) } => ("rw", e.unix_timestamp()),
        };
        return Some(TokInfo {
            kind: "uat",
            acct: uat.uuid,
            sid: uat.session_id,
            exp: uat.expiry.map(|e| e.unix_timestamp()).unwrap_or(-1),
            iat: uat.issued_at.unix_timestamp(),
            kid,
            purpose,
            priv_exp,
        });
    }
    if let Ok(a) = serde_json::from_slice::<ProtoApiToken>(&raw) {
        use kanidm_proto::internal::ApiTokenPurpose;
        return Some(TokInfo {
            kind: "api",
            acct: a.account_id,
            sid: a.token_id,
            exp: a.expiry.map(|e| e.unix_timestamp()).unwrap_or(-1),
            iat: a.issued_at.unix_timestamp(),
            kid,
            purpose: match a.purpose {
                ApiTokenPurpose::ReadOnly => "ro",
                ApiTokenPurpose::ReadWrite => "rw",
                ApiTokenPurpose::Synchronise => "sync",
            },
            priv_exp: -1,
        });
    }
    None
}

pub fn jws(s: &str) -> Option<JwsCompact> {
    JwsCompact::from_str(s).ok()
}

pub fn scope_str(i: &Identity) -> &'static str {
    match i.access_scope() {
        AccessScope::ReadOnly => "ro",
        AccessScope::ReadWrite => "rw",
        AccessScope::Synchronise => "sync",
    }
}
