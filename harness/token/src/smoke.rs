//! Development smoke run (not part of any check).
use crate::world::*;
use kanidm_proto::v1::{AuthCredential, AuthMech};
use kanidmd_lib::prelude::*;
use kvc::srv::*;
use kvc::util::*;

pub fn run(_o: &Opts) -> i32 {
    let rt = runtime();
    rt.block_on(async {
        let mut w = World::new(0).await;
        w.set_person_policy(0, Some(600), None).await;
        let p1 = uuid_n(1);
        w.create(
            0,
            vec![kanidmd_lib::entry_init!(
                (Attribute::Class, EntryClass::Object.to_value()),
                (Attribute::Class, EntryClass::Account.to_value()),
                (Attribute::Class, EntryClass::Person.to_value()),
                (Attribute::Name, Value::new_iname("p1")),
                (Attribute::Uuid, Value::Uuid(p1)),
                (Attribute::DisplayName, Value::new_utf8s("p1"))
            )],
        )
        .await;
        let pw = "xk3!vQ9#pLm2zR7w-a1";
        let r = w.cred_update(1, p1, &[CredOp::SetPassword(pw.into())]).await;
        println!("credupdate {:?}", r.0);
        let tok = w.login(2, "p1", false, AuthMech::Password, vec![AuthCredential::Password(pw.into())]).await;
        println!("login {:?} pending={}", tok.as_ref().map(|_| "tok"), w.pending.len());
        let tok = tok.unwrap();
        let ti = decode(&tok).unwrap();
        println!("tok kind={} exp={} iat={} kid={} purpose={}", ti.kind, relsecs(ti.exp), relsecs(ti.iat), ti.kid, ti.purpose);
        println!("present@3 {:?}", w.present(3, &tok).await.map(|i| scope_str(&i)));
        println!("present@400 {:?}", w.present(400, &tok).await.map(|i| scope_str(&i)));
        println!("apply {}", w.apply_pending(0, 5).await);
        println!("present@400 {:?}", w.present(400, &tok).await.map(|i| scope_str(&i)));
        println!("acct {}", w.proj_account(p1).await.unwrap());
        println!("keys {}", w.proj_keys(DOMAIN_UUID).await);
        let ident = w.present(6, &tok).await.unwrap();
        let t2 = w.reauth(7, ident, true, &ReauthCred::Pw(pw.into())).await;
        println!("reauth {:?}", t2.as_ref().map(|_| "tok"));
        if let Ok(t2) = t2 {
            let ti = decode(&t2).unwrap();
            println!("tok2 exp={} iat={} purpose={} privexp={}", relsecs(ti.exp), relsecs(ti.iat), ti.purpose, relsecs(ti.priv_exp));
            println!("present2@8 {:?}", w.present(8, &t2).await.map(|i| scope_str(&i)));
        }
        println!("destroy {}", w.session_destroy(9, p1, ti.sid).await);
        println!("present@10 {:?}", w.present(10, &tok).await.map(|i| scope_str(&i)));
        println!("acct {}", w.proj_account(p1).await.unwrap());
    });
    0
}
