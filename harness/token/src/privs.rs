//! C33: AccessScope of the identity obtained from every constructible login type, at the time of
//! login and at later times, before and after re-authentication, on a REAL IdmServer.
//!
//! Login types: anon, pw, mfa (password+TOTP), passkey (software authenticator), genpw (service
//! account generated password), ldap (unix password bind), cert (client certificate), apiro / apirw.
//! OAuth2-trust logins need an upstream provider and are model-only.
//!
//! Lines:
//!  {"a":"use","tok":K,"login":L,"priv":B,"issue":"login"|"reauth_rw"|"reauth_ro","at":A,"t":T,
//!   "scope":"rw"|"ro"|"none","sessexp":S,"privexp":P,"res":class}
//!  {"a":"reauth","from":K,"new":K2,"t":T,"rw":B,"res":class,"oldexp":E,"newexp":E2,"sx_before":X,"sx_after":Y}
use crate::world::*;
use compact_jwt::JwsCompact;
use kanidm_proto::v1::{AuthCredential, AuthMech};
use kanidmd_lib::credential::totp::Totp;
use kanidmd_lib::idm::ldap::LdapSession;
use kanidmd_lib::prelude::*;
use kvc::srv::*;
use kvc::util::*;
use serde_json::{json, Value as J};

const CERT_PEM: &str = r#"-----BEGIN CERTIFICATE-----
MIICeDCCAh6gAwIBAgIBAjAKBggqhkjOPQQDAjCBhDELMAkGA1UEBhMCQVUxDDAK
BgNVBAgMA1FMRDEPMA0GA1UECgwGS2FuaWRtMRwwGgYDVQQDDBNLYW5pZG0gR2Vu
ZXJhdGVkIENBMTgwNgYDVQQLDC9EZXZlbG9wbWVudCBhbmQgRXZhbHVhdGlvbiAt
IE5PVCBGT1IgUFJPRFVDVElPTjAeFw0yNTA3MjkwMzMxMDNaFw0yNTA4MDMwMzMx
MDNaMHoxCzAJBgNVBAYTAkFVMQwwCgYDVQQIDANRTEQxDzANBgNVBAoMBkthbmlk
bTESMBAGA1UEAwwJbG9jYWxob3N0MTgwNgYDVQQLDC9EZXZlbG9wbWVudCBhbmQg
RXZhbHVhdGlvbiAtIE5PVCBGT1IgUFJPRFVDVElPTjBZMBMGByqGSM49AgEGCCqG
SM49AwEHA0IABPFkpVzFH+feItm9JFFm/noge+BlZLpdGWOuSUvfoivAzCgPr7Kr
nGd8kUzIyJermePzu2SVQLaEt/7GY8Ha+2ujgYkwgYYwCQYDVR0TBAIwADAOBgNV
HQ8BAf8EBAMCBaAwEwYDVR0lBAwwCgYIKwYBBQUHAwEwHQYDVR0OBBYEFOjucEtX
mj/wQ7npVaMOyDtLU6dUMB8GA1UdIwQYMBaAFNo5o+5ea0sNMlW/75VgGJCv2AcJ
MBQGA1UdEQQNMAuCCWxvY2FsaG9zdDAKBggqhkjOPQQDAgNIADBFAiEA1TACf4eS
g07LRiKhlMgA+6xxztxiZCuV6LakRp7FZdECIFp0rFSiFJdkLEO9IyqYc+zPW770
ta41VMU3u9UQfHxF
-----END CERTIFICATE-----
"#;

const PW1: &str = "xk3!vQ9#pLm2zR7w-aa-Tq";
const PW2: &str = "xk3!vQ9#pLm2zR7w-bb-Tq";
const UPW: &str = "ux3!vQ9#pLm2zR7w-dd-Tq";
pub const LIM: u64 = 3600; // DEFAULT_AUTH_SESSION_LIMITED_EXPIRY

fn person(name: &str, n: u64, posix: bool) -> EntryInitNew {
    let mut e: EntryInitNew = kanidmd_lib::entry_init!(
        (Attribute::Class, EntryClass::Object.to_value()),
        (Attribute::Class, EntryClass::Account.to_value()),
        (Attribute::Class, EntryClass::Person.to_value()),
        (Attribute::Name, Value::new_iname(name)),
        (Attribute::Uuid, Value::Uuid(uuid_n(n))),
        (Attribute::DisplayName, Value::new_utf8s(name))
    );
    if posix {
        e.add_ava(Attribute::Class, EntryClass::PosixAccount.to_value());
    }
    e
}

enum Bearer {
    Jws(JwsCompact),
    Ldap(LdapSession),
    Cert,
}

struct Tok {
    name: String,
    b: Bearer,
    login: &'static str,
    privileged: bool,
    issue: &'static str,
    at: u64,
    acct: u64,
}

struct P {
    w: World,
    toks: Vec<Tok>,
    totp: Option<Totp>,
    sapw: String,
    cert: crypto_glue::x509::Certificate,
    sessexp: u64,
    privexp: u64,
}

impl P {
    async fn new(sessexp: u64, privexp: u64) -> P {
        use crypto_glue::traits::DecodePem;
        let mut w = World::new(0).await;
        w.set_person_policy(0, Some(sessexp as u32), Some(privexp as u32)).await;
        let cert = crypto_glue::x509::Certificate::from_pem(CERT_PEM).expect("cert");
        let sa = kanidmd_lib::entry_init!(
            (Attribute::Class, EntryClass::Object.to_value()),
            (Attribute::Class, EntryClass::Account.to_value()),
            (Attribute::Class, EntryClass::ServiceAccount.to_value()),
            (Attribute::Name, Value::new_iname("sa1")),
            (Attribute::Uuid, Value::Uuid(uuid_n(5))),
            (Attribute::DisplayName, Value::new_utf8s("sa1"))
        );
        let certe = kanidmd_lib::entry_init!(
            (Attribute::Class, EntryClass::Object.to_value()),
            (Attribute::Class, EntryClass::ClientCertificate.to_value()),
            (Attribute::Uuid, Value::Uuid(uuid_n(6))),
            (Attribute::Refers, Value::Refer(uuid_n(1))),
            (Attribute::Certificate, Value::Certificate(Box::new(cert.clone())))
        );
        w.create(0, vec![person("p1", 1, false), person("p2", 2, false), person("p3", 3, false), person("p4", 4, true), sa, certe]).await;
        let fail = |what: &str, r: &str| {
            if r != "ok" {
                eprintln!("TOOL-ERROR provisioning {what}: {r}");
                std::process::exit(2);
            }
        };
        fail("p1 pw", &w.cred_update(0, uuid_n(1), &[CredOp::SetPassword(PW1.into())]).await.0);
        let (r, totp) = w.cred_update(0, uuid_n(2), &[CredOp::SetPassword(PW2.into()), CredOp::AddTotp]).await;
        fail("p2 mfa", &r);
        fail("p3 passkey", &w.cred_update(0, uuid_n(3), &[CredOp::AddPasskey]).await.0);
        // posix password of p4 (set_unix_account_password path is exercised by other groups; direct here)
        {
            use kanidmd_lib::idm::event::UnixPasswordChangeEvent;
            let mut pw = w.idms.proxy_write(t(0)).await.expect("pw");
            let ev = UnixPasswordChangeEvent::from_parts(kanidmd_lib::verif::token::ident_internal(), uuid_n(4), UPW.into()).expect("ev");
            pw.set_unix_account_password(&ev).expect("unix pw");
            pw.commit().expect("commit");
        }
        let sapw = match w.gen_sa_password(0, uuid_n(5)).await {
            Ok(p) => p,
            Err(e) => {
                eprintln!("TOOL-ERROR provisioning sa password: {e}");
                std::process::exit(2)
            }
        };
        P { w, toks: Vec::new(), totp, sapw, cert, sessexp, privexp }
    }

    fn add(&mut self, b: Bearer, login: &'static str, privileged: bool, issue: &'static str, at: u64, acct: u64) -> usize {
        let name = format!("k{}", self.toks.len() + 1);
        self.toks.push(Tok { name, b, login, privileged, issue, at, acct });
        self.toks.len() - 1
    }

    /// Log in with `login` type at time `at`; the session record is applied right away (re-auth needs it).
    async fn login(&mut self, login: &'static str, privileged: bool, at: u64, tr: &mut Tracer) -> Option<usize> {
        let r: Result<Bearer, String> = match login {
            "anon" => self.w.login(at, "anonymous", privileged, AuthMech::Anonymous, vec![AuthCredential::Anonymous]).await.map(Bearer::Jws),
            "pw" => self.w.login(at, "p1", privileged, AuthMech::Password, vec![AuthCredential::Password(PW1.into())]).await.map(Bearer::Jws),
            "mfa" => {
                let code = self.totp.as_ref().and_then(|tp| tp.do_totp_duration_from_epoch(&t(at)).ok()).unwrap_or(0);
                self.w
                    .login(at, "p2", privileged, AuthMech::PasswordTotp, vec![AuthCredential::Totp(code), AuthCredential::Password(PW2.into())])
                    .await
                    .map(Bearer::Jws)
            }
            "passkey" => self.w.login_passkey(at, "p3", privileged).await.map(Bearer::Jws),
            "genpw" => {
                let pw = self.sapw.clone();
                self.w.login(at, "sa1", privileged, AuthMech::Password, vec![AuthCredential::Password(pw)]).await.map(Bearer::Jws)
            }
            "ldap" => self.w.ldap_bind(at, uuid_n(4), UPW).await.map(Bearer::Ldap),
            "cert" => Ok(Bearer::Cert),
            "apiro" | "apirw" => self.w.api_issue(at, uuid_n(5), None, login == "apirw", false).await.map(Bearer::Jws),
            _ => Err("unknown".into()),
        };
        while !self.w.pending.is_empty() {
            self.w.apply_pending(0, at).await;
        }
        let acct = match login { "pw" | "cert" => 1, "mfa" => 2, "passkey" => 3, "ldap" => 4, "anon" => 0, _ => 5 };
        match r {
            Ok(b) => {
                let i = self.add(b, login, privileged, "login", at, acct);
                tr.emit(&json!({"a":"login","tok":self.toks[i].name,"login":login,"priv":privileged,"t":at,"res":"ok"}));
                Some(i)
            }
            Err(e) => {
                tr.emit(&json!({"a":"login","login":login,"priv":privileged,"t":at,"res":e}));
                None
            }
        }
    }

    async fn ident(&self, i: usize, at: u64) -> Result<Identity, String> {
        match &self.toks[i].b {
            Bearer::Jws(j) => self.w.present(at, j).await,
            Bearer::Ldap(s) => self.w.ldap_use(at, s).await,
            Bearer::Cert => self.w.present_cert(at, &self.cert).await,
        }
    }

    async fn use_at(&mut self, i: usize, at: u64, tr: &mut Tracer) {
        let (scope, res) = match self.ident(i, at).await {
            Ok(id) => (scope_str(&id), "ok".to_string()),
            Err(e) => ("none", e),
        };
        let k = &self.toks[i];
        tr.emit(&json!({"a":"use","tok":k.name,"login":k.login,"priv":k.privileged,"issue":k.issue,"at":k.at,"t":at,
            // the person policy (idm_all_persons) does not cover the service account: shipped default applies
            "scope":scope,"res":res,"sessexp": if k.login == "genpw" { 86400 } else { self.sessexp },"privexp":self.privexp}));
    }

    async fn sess_exp(&mut self, acct: u64, sid: Uuid) -> i64 {
        match self.w.entry(uuid_n(acct)).await {
            Some(e) => kanidmd_lib::verif::token::uat_sessions(&e)
                .into_iter()
                .find(|s| s.id == sid)
                .map(|s| if s.state == "exp" { relsecs(s.exp) } else if s.state == "never" { -1 } else { -2 })
                .unwrap_or(-3),
            None => -3,
        }
    }

    async fn reauth(&mut self, i: usize, at: u64, rw: bool, tr: &mut Tracer) -> Option<usize> {
        let (login, privileged, acct) = (self.toks[i].login, self.toks[i].privileged, self.toks[i].acct);
        let from = self.toks[i].name.clone();
        let old = match &self.toks[i].b {
            Bearer::Jws(j) => j.clone(),
            _ => return None,
        };
        let oldinfo = decode(&old);
        let ident = match self.ident(i, at).await {
            Ok(id) => id,
            Err(e) => {
                tr.emit(&json!({"a":"reauth","from":from,"t":at,"rw":rw,"res":format!("ident:{e}")}));
                return None;
            }
        };
        let sid = oldinfo.as_ref().map(|x| x.sid).unwrap_or(Uuid::nil());
        let sx_before = self.sess_exp(acct, sid).await;
        let how = match login {
            "pw" => ReauthCred::Pw(PW1.into()),
            "mfa" => ReauthCred::PwTotp(PW2.into(), self.totp.clone().expect("totp")),
            "passkey" => ReauthCred::Passkey,
            "genpw" => ReauthCred::Pw(self.sapw.clone()),
            _ => ReauthCred::Pw("x".into()),
        };
        let r = self.w.reauth(at, ident, rw, &how).await;
        while !self.w.pending.is_empty() {
            self.w.apply_pending(0, at).await;
        }
        let sx_after = self.sess_exp(acct, sid).await;
        match r {
            Ok(j) => {
                let newinfo = decode(&j);
                let ni = self.add(Bearer::Jws(j), login, privileged, if rw { "reauth_rw" } else { "reauth_ro" }, at, acct);
                tr.emit(&json!({"a":"reauth","from":from,"new":self.toks[ni].name,"t":at,"rw":rw,"res":"ok","login":login,
                    "oldexp": oldinfo.map(|x| relsecs(x.exp)).unwrap_or(-1), "newexp": newinfo.map(|x| relsecs(x.exp)).unwrap_or(-1),
                    "sx_before": sx_before, "sx_after": sx_after}));
                Some(ni)
            }
            Err(e) => {
                tr.emit(&json!({"a":"reauth","from":from,"t":at,"rw":rw,"res":e,"login":login,"sx_before":sx_before,"sx_after":sx_after}));
                None
            }
        }
    }
}

fn offsets(sessexp: u64, privexp: u64) -> Vec<u64> {
    let mut v = vec![0, 1, 30, privexp - 1, privexp, privexp + 1, LIM - 1, LIM, LIM + 1, sessexp - 1, sessexp, sessexp + 1];
    v.sort();
    v.dedup();
    v
}

pub const LOGINS: [&str; 9] = ["anon", "pw", "mfa", "passkey", "genpw", "ldap", "cert", "apiro", "apirw"];

/// The finite case space: every login type x privileged flag, used at every boundary offset; for
/// every bearer token a re-authentication (rw and verify-only) early and late, the re-issued token
/// used at every boundary offset, and a second re-authentication from the re-issued token.
async fn systematic(tr: &mut Tracer, sessexp: u64, privexp: u64) {
    tr.emit(&json!({"a":"reset","sessexp":sessexp,"privexp":privexp}));
    let mut p = P::new(sessexp, privexp).await;
    let offs = offsets(sessexp, privexp);
    let mut base = 10u64;
    for login in LOGINS {
        for privileged in [false, true] {
            let at = base;
            base += 7;
            let Some(i) = p.login(login, privileged, at, tr).await else { continue };
            for o in &offs {
                p.use_at(i, at + o, tr).await;
            }
            if matches!(p.toks[i].b, Bearer::Jws(_)) {
                for (ro, rw) in [(5u64, true), (9, false), (privexp + 20, true)] {
                    let rt = at + ro;
                    if let Some(j) = p.reauth(i, rt, rw, tr).await {
                        for o in &offs {
                            p.use_at(j, rt + o, tr).await;
                        }
                        // chain: re-authenticate from the re-issued token
                        if let Some(k) = p.reauth(j, rt + 3, !rw, tr).await {
                            for o in [0u64, 1, privexp - 1, privexp, LIM, sessexp] {
                                p.use_at(k, rt + 3 + o, tr).await;
                            }
                        }
                        // the ORIGINAL token is still only what it was
                        p.use_at(i, rt + 1, tr).await;
                    }
                }
            }
        }
    }
}

async fn random(tr: &mut Tracer, rng: &mut Rng, steps: u64) {
    let (sessexp, privexp) = *rng.pick(&[(86400u64, 600u64), (1800, 300), (7200, 120), (900, 60)]);
    tr.emit(&json!({"a":"reset","sessexp":sessexp,"privexp":privexp}));
    let mut p = P::new(sessexp, privexp).await;
    let mut now = 10u64;
    for _ in 0..steps {
        now += *rng.pick(&[0u64, 1, 5, 59, 60, 61, 299, 300, 301, 599, 600, 601, 1799, 1800, 3599, 3600, 3601]);
        match rng.below(10) {
            0..=2 => {
                let login = *rng.pick(&LOGINS);
                p.login(login, rng.chance(1, 2), now, tr).await;
            }
            3..=4 if !p.toks.is_empty() => {
                let i = rng.below(p.toks.len() as u64) as usize;
                p.reauth(i, now, rng.chance(2, 3), tr).await;
            }
            _ if !p.toks.is_empty() => {
                let i = rng.below(p.toks.len() as u64) as usize;
                p.use_at(i, now, tr).await;
            }
            _ => {}
        }
    }
    // final sweep: every token now and at its boundaries
    for i in 0..p.toks.len() {
        let at = p.toks[i].at;
        for o in [privexp - 1, privexp, LIM - 1, LIM] {
            if at + o >= now {
                p.use_at(i, at + o, tr).await;
            }
        }
    }
}

/// Replay: re-execute login / reauth / use lines (token names are assigned in issue order).
async fn replay(tr: &mut Tracer, lines: Vec<J>) {
    let mut p: Option<P> = None;
    for l in lines {
        let a = l["a"].as_str().unwrap_or("");
        if a == "reset" || p.is_none() {
            let se = l["sessexp"].as_u64().unwrap_or(86400);
            let pe = l["privexp"].as_u64().unwrap_or(600);
            tr.emit(&json!({"a":"reset","sessexp":se,"privexp":pe}));
            p = Some(P::new(se, pe).await);
            if a == "reset" {
                continue;
            }
        }
        let Some(pp) = p.as_mut() else { continue };
        let tcur = l["t"].as_u64().unwrap_or(0);
        let find = |pp: &P, n: &str| pp.toks.iter().position(|k| k.name == n);
        match a {
            "login" => {
                let login = LOGINS.iter().find(|x| Some(**x) == l["login"].as_str()).copied().unwrap_or("pw");
                pp.login(login, l["priv"].as_bool().unwrap_or(false), tcur, tr).await;
            }
            "reauth" => {
                if let Some(i) = l["from"].as_str().and_then(|n| find(pp, n)) {
                    pp.reauth(i, tcur, l["rw"].as_bool().unwrap_or(false), tr).await;
                }
            }
            "use" => {
                if let Some(i) = l["tok"].as_str().and_then(|n| find(pp, n)) {
                    pp.use_at(i, tcur, tr).await;
                }
            }
            _ => {}
        }
    }
}

pub fn run(o: &Opts) -> i32 {
    let out = o.str("out", "/verif/work/C33/obs.ndjson");
    let mut tr = Tracer::create(&out);
    let rt = runtime();
    rt.block_on(async {
        if let Some(rp) = o.get("replay") {
            replay(&mut tr, read_ndjson(rp)).await;
            return;
        }
        for pol in o.str("policies", "86400:600").split(',') {
            let (s, p) = pol.split_once(':').expect("sessexp:privexp");
            systematic(&mut tr, s.parse().expect("n"), p.parse().expect("n")).await;
        }
        let mut rng = Rng::new(o.seed());
        for _ in 0..o.u64("random", 0) {
            random(&mut tr, &mut rng, o.u64("len", 60)).await;
        }
    });
    let n = tr.finish();
    println!("OBSERVED lines={n} out={out}");
    0
}
