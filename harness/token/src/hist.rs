//! C32 / C36: histories of login, delayed session-record application, API-token issue / destroy,
//! session revocation, credential removal / addition through credential-update sessions, validity
//! changes, domain key rotation / revocation and account deletion on a REAL IdmServer; every issued
//! token is presented through validate_client_auth_info_to_ident after every event.
//!
//! The driver is an interpreter of an action list (the observed lines themselves are a valid action
//! list, so `--replay FILE` re-executes a replay file on the current tree). Sources of action lists:
//!   --random N --len L      seeded random histories at real time scales
//!   --behaviours FILE       behaviours printed by TLC in simulation mode of KAuthTokensMC (one JSON
//!                           array of model actions per line; model time unit = UNIT seconds)
//!   --replay FILE           observed lines of a previous run
use crate::o2::*;
use crate::world::*;
use compact_jwt::JwsCompact;
use kanidm_proto::v1::{AuthCredential, AuthMech};
use kanidmd_lib::idm::delayed::DelayedAction;
use kanidmd_lib::prelude::*;
use kvc::srv::*;
use kvc::util::*;
use serde_json::{json, Value as J};

pub const UNIT: u64 = 150; // seconds per model time unit: Grace 300 = 2 units

struct Tok {
    name: String,
    jws: JwsCompact,
    tk: J,
    acct: String,
    sid: Uuid,
    kind: &'static str,
}

struct O2 {
    name: String,
    at: String,
    rt: String,
    o: J,
}

pub struct H {
    w: World,
    toks: Vec<Tok>,
    grants: Vec<O2>,
    t: u64,
    pw: String,
    pwn: u32,
    auto_present: bool,
}

fn acct_uuid(name: &str) -> Uuid {
    match name {
        "p1" => uuid_n(1),
        "sa1" => uuid_n(2),
        "an" => UUID_ANONYMOUS,
        _ => uuid_n(99),
    }
}
fn acct_name(u: Uuid) -> String {
    if u == uuid_n(1) {
        "p1".into()
    } else if u == uuid_n(2) {
        "sa1".into()
    } else if u == UUID_ANONYMOUS {
        "an".into()
    } else {
        "other".into()
    }
}

fn person(name: &str, u: Uuid) -> EntryInitNew {
    kanidmd_lib::entry_init!(
        (Attribute::Class, EntryClass::Object.to_value()),
        (Attribute::Class, EntryClass::Account.to_value()),
        (Attribute::Class, EntryClass::Person.to_value()),
        (Attribute::Name, Value::new_iname(name)),
        (Attribute::Uuid, Value::Uuid(u)),
        (Attribute::DisplayName, Value::new_utf8s(name))
    )
}
fn service_account(name: &str, u: Uuid) -> EntryInitNew {
    kanidmd_lib::entry_init!(
        (Attribute::Class, EntryClass::Object.to_value()),
        (Attribute::Class, EntryClass::Account.to_value()),
        (Attribute::Class, EntryClass::ServiceAccount.to_value()),
        (Attribute::Name, Value::new_iname(name)),
        (Attribute::Uuid, Value::Uuid(u)),
        (Attribute::DisplayName, Value::new_utf8s(name))
    )
}

fn pw_n(n: u32) -> String {
    format!("xk3!vQ9#pLm2zR7w-{n}-Tq")
}

impl H {
    async fn new(sessexp: u32, auto_present: bool) -> H {
        let mut w = World::new(0).await;
        w.set_person_policy(0, Some(sessexp), None).await;
        w.create(0, vec![person("p1", uuid_n(1)), service_account("sa1", uuid_n(2)), rs_entry(uuid_n(20))]).await;
        let pw = pw_n(0);
        let (r, _) = w.cred_update(0, uuid_n(1), &[CredOp::SetPassword(pw.clone())]).await;
        if r != "ok" {
            eprintln!("TOOL-ERROR cannot provision password: {r}");
            std::process::exit(2);
        }
        H { w, toks: Vec::new(), grants: Vec::new(), t: 0, pw, pwn: 0, auto_present }
    }

    async fn st(&mut self) -> J {
        let mut accts = serde_json::Map::new();
        for n in ["p1", "sa1", "an"] {
            if let Some(a) = self.w.proj_account(acct_uuid(n)).await {
                accts.insert(n.to_string(), a);
            }
        }
        let keys = self.w.proj_keys_named(DOMAIN_UUID).await;
        json!({"accts": accts, "keys": keys})
    }

    fn register(&mut self, jws: JwsCompact, acct: &str, anon: bool, compact: Option<(Uuid, i64, i64)>) -> (String, J, String) {
        let name = format!("k{}", self.toks.len() + 1);
        let (kind, sid, exp, iat, kid) = match (decode(&jws), compact) {
            (Some(ti), _) => (ti.kind, ti.sid, relsecs(ti.exp), relsecs(ti.iat), ti.kid),
            (None, Some((sid, exp, iat))) => {
                use compact_jwt::traits::JwsVerifiable;
                ("api", sid, exp, iat, jws.kid().unwrap_or("").to_string())
            }
            (None, None) => ("uat", Uuid::nil(), -1, -1, String::new()),
        };
        let sname = self.w.names.get('s', &sid.to_string());
        let kname = self.w.key_name(&kid);
        let tk = json!({"kind": kind, "acct": acct, "sid": sname, "exp": exp, "iat": iat, "kid": kname,
                        "anon": anon, "compact": compact.is_some()});
        self.toks.push(Tok { name: name.clone(), jws, tk: tk.clone(), acct: acct.to_string(), sid, kind });
        (name, tk, sname)
    }

    async fn present_line(&mut self, i: usize, t: u64) -> J {
        let tok = &self.toks[i];
        let res = match self.w.present(t, &tok.jws).await {
            Ok(_) => "ok".to_string(),
            Err(e) => e,
        };
        json!({"a":"present","t":t,"tok":tok.name,"tk":tok.tk,"res":res})
    }

    async fn present_all(&mut self, tr: &mut Tracer) {
        for i in 0..self.toks.len() {
            let l = self.present_line(i, self.t).await;
            tr.emit(&l);
        }
        for i in 0..self.grants.len() {
            let l = self.o2_line(i, self.t).await;
            tr.emit(&l);
        }
    }

    async fn o2_line(&mut self, i: usize, t: u64) -> J {
        let res = self.w.o2_introspect(t, &self.grants[i].at).await;
        json!({"a":"o2present","t":t,"g":self.grants[i].name,"o":self.grants[i].o,"res":res})
    }

    fn o2_info(&mut self, at: &str) -> J {
        match at_info(at) {
            Some((sid, parent, iat)) => {
                let oid = self.w.names.get('o', &sid.to_string());
                let p = parent.map(|p| self.w.names.get('s', &p.to_string())).unwrap_or_else(|| "none".into());
                json!({"acct":"p1","oid":oid,"parent":p,"iat":relsecs(iat)})
            }
            None => json!({"acct":"p1","oid":"o0","parent":"none","iat":-1}),
        }
    }

    fn tok_by_name(&self, n: &str) -> Option<usize> {
        self.toks.iter().position(|t| t.name == n)
    }

    /// Execute one action; emits the observed line(s).
    async fn exec(&mut self, act: &J, tr: &mut Tracer) {
        let a = act["a"].as_str().unwrap_or("");
        if let Some(t) = act["t"].as_u64() {
            if t > self.t {
                self.t = t;
            }
        }
        let t = self.t;
        let acct = act["acct"].as_str().unwrap_or("p1").to_string();
        let au = acct_uuid(&acct);
        let mut line = json!({"a": a, "t": t, "acct": acct});
        match a {
            "present" => {
                if let Some(i) = act["tok"].as_str().and_then(|n| self.tok_by_name(n)) {
                    let l = self.present_line(i, t).await;
                    tr.emit(&l);
                }
                return;
            }
            "tick" => {
                line["res"] = json!("ok");
            }
            "o2present" => {
                if let Some(i) = act["g"].as_str().and_then(|n| self.grants.iter().position(|g| g.name == n)) {
                    let l = self.o2_line(i, t).await;
                    tr.emit(&l);
                }
                return;
            }
            "o2grant" => {
                // OAuth2 authorisation by the user behind login token `tok`, code exchanged at once
                let tn = act["tok"].as_str().unwrap_or("").to_string();
                line["tok"] = json!(tn);
                line["acct"] = json!("p1");
                let r: Result<Grant, String> = match self.tok_by_name(&tn) {
                    Some(i) => {
                        let jws = self.toks[i].jws.clone();
                        match self.w.present(t, &jws).await {
                            Ok(ident) => match self.w.o2_authorise(t, &ident).await {
                                Ok(code) => self.w.o2_exchange(t, &code).await,
                                Err(e) => Err(e),
                            },
                            Err(e) => Err(format!("noident:{e}")),
                        }
                    }
                    None => Err("notok".into()),
                };
                match r {
                    Ok(g) => {
                        let o = self.o2_info(&g.at);
                        let name = format!("g{}", self.grants.len() + 1);
                        line["res"] = json!("ok");
                        line["g"] = json!(name);
                        line["o"] = o.clone();
                        self.grants.push(O2 { name, at: g.at, rt: g.rt, o });
                    }
                    Err(e) => line["res"] = json!(e),
                }
            }
            "o2refresh" => {
                let gn = act["g"].as_str().unwrap_or("").to_string();
                line["g"] = json!(gn);
                line["acct"] = json!("p1");
                match self.grants.iter().position(|g| g.name == gn) {
                    Some(i) => {
                        let rt = self.grants[i].rt.clone();
                        match self.w.o2_refresh(t, &rt).await {
                            Ok(g) => {
                                let o = self.o2_info(&g.at);
                                line["res"] = json!("ok");
                                line["o"] = o.clone();
                                self.grants[i].at = g.at;
                                self.grants[i].rt = g.rt;
                                self.grants[i].o = o;
                            }
                            Err(e) => line["res"] = json!(e),
                        }
                    }
                    None => line["res"] = json!("nogrant"),
                }
            }
            "login" => {
                let privileged = act["priv"].as_bool().unwrap_or(false);
                let cred = act["cred"].as_str().unwrap_or("pw").to_string();
                let r = if acct == "an" {
                    self.w.login(t, "anonymous", false, AuthMech::Anonymous, vec![AuthCredential::Anonymous]).await
                } else if cred == "pk" {
                    self.w.login_passkey(t, &acct, privileged).await
                } else {
                    let pw = self.pw.clone();
                    self.w.login(t, &acct, privileged, AuthMech::Password, vec![AuthCredential::Password(pw)]).await
                };
                line["priv"] = json!(privileged);
                line["cred"] = json!(cred);
                match r {
                    Ok(jws) => {
                        let (name, tk, sname) = self.register(jws, &acct, acct == "an", None);
                        line["res"] = json!("ok");
                        line["tok"] = json!(name);
                        line["tk"] = tk;
                        line["s"] = json!(sname);
                    }
                    Err(e) => line["res"] = json!(e),
                }
            }
            "apply" => {
                let i = act["i"].as_u64().unwrap_or(0) as usize;
                line["i"] = json!(i);
                if let Some(da) = self.w.pending.get(i) {
                    match da {
                        DelayedAction::AuthSessionRecord(asr) => {
                            line["acct"] = json!(acct_name(asr.target_uuid));
                            line["s"] = json!(self.w.names.get('s', &asr.session_id.to_string()));
                            line["cred"] = json!(self.w.names.get('c', &asr.cred_id.to_string()));
                            line["exp"] = json!(asr.expiry.map(|e| relsecs(e.unix_timestamp())).unwrap_or(-1));
                        }
                        _ => line["a"] = json!("other"),
                    }
                    let r = self.w.apply_pending(i, t).await;
                    line["res"] = json!(r);
                } else {
                    line["a"] = json!("tick");
                    line["res"] = json!("ok");
                }
            }
            "apiissue" => {
                let exp = act["exp"].as_i64().unwrap_or(-1);
                let rw = act["rw"].as_bool().unwrap_or(false);
                let compact = act["compact"].as_bool().unwrap_or(false);
                line["exp"] = json!(exp);
                line["rw"] = json!(rw);
                line["compact"] = json!(compact);
                let before: Vec<Uuid> = match self.w.entry(au).await {
                    Some(e) => kanidmd_lib::verif::token::api_sessions(&e).into_iter().map(|x| x.0).collect(),
                    None => vec![],
                };
                match self.w.api_issue(t, au, if exp >= 0 { Some(exp as u64) } else { None }, rw, compact).await {
                    Ok(jws) => {
                        let comp = if compact {
                            // the compact token carries only the session id: find the new session on the entry
                            let after = match self.w.entry(au).await {
                                Some(e) => kanidmd_lib::verif::token::api_sessions(&e),
                                None => vec![],
                            };
                            after.into_iter().find(|x| !before.contains(&x.0)).map(|x| (x.0, relsecs(x.1), relsecs(x.2)))
                        } else {
                            None
                        };
                        let (name, tk, sname) = self.register(jws, &acct, false, comp);
                        line["res"] = json!("ok");
                        line["tok"] = json!(name);
                        line["tk"] = tk;
                        line["s"] = json!(sname);
                    }
                    Err(e) => line["res"] = json!(e),
                }
            }
            "apidestroy" | "revoke" => {
                let tn = act["tok"].as_str().unwrap_or("");
                line["tok"] = json!(tn);
                if let Some(i) = self.tok_by_name(tn) {
                    let (sid, tacct) = (self.toks[i].sid, self.toks[i].acct.clone());
                    line["acct"] = json!(tacct);
                    line["s"] = self.toks[i].tk["sid"].clone();
                    let r = if a == "revoke" {
                        self.w.session_destroy(t, acct_uuid(&tacct), sid).await
                    } else {
                        self.w.api_destroy(t, acct_uuid(&tacct), sid).await
                    };
                    line["res"] = json!(r);
                } else {
                    line["res"] = json!("notok");
                }
            }
            "cred" => {
                // credential changes: through a credential-update session (addpw / replace / rmpw / addpk / rmpk)
                // or by an administrative modify (purge / purgepw / purgepk)
                let mut op = act["op"].as_str().unwrap_or("addpw").to_string();
                let kinds: Vec<(&'static str, Uuid)> = match self.w.entry(au).await {
                    Some(e) => kanidmd_lib::verif::token::cred_ids(&e),
                    None => vec![],
                };
                let has_pw = kinds.iter().any(|k| k.0 == "primary");
                let pk = kinds.iter().find(|k| k.0 == "passkey").map(|k| k.1);
                // model-level ops name a credential: resolve to the concrete operation
                if op == "rm" {
                    let c = act["c"].as_str().unwrap_or("");
                    let target = kinds.iter().find(|k| self.w.names_peek('c', &k.1.to_string()).as_deref() == Some(c)).map(|k| k.0);
                    op = match target {
                        Some("primary") => if pk.is_some() { "rmpw".into() } else { "purgepw".into() },
                        Some("passkey") => if has_pw { "rmpk".into() } else { "purgepk".into() },
                        _ => "none".into(),
                    };
                } else if op == "add" {
                    op = if !has_pw { "addpw".into() } else if pk.is_none() { "addpk".into() } else { "none".into() };
                } else if op == "repl" {
                    op = if has_pw { "replace".into() } else { "none".into() };
                }
                line["op"] = json!(op);
                let newpw = |h: &mut H| {
                    h.pwn += 1;
                    pw_n(h.pwn)
                };
                let r = match op.as_str() {
                    "addpw" | "replace" => {
                        let pw = newpw(self);
                        let ops = if op == "replace" { vec![CredOp::DeletePrimary, CredOp::SetPassword(pw.clone())] } else { vec![CredOp::SetPassword(pw.clone())] };
                        let (r, _) = self.w.cred_update(t, au, &ops).await;
                        if r == "ok" {
                            self.pw = pw;
                        }
                        r
                    }
                    "rmpw" => self.w.cred_update(t, au, &[CredOp::DeletePrimary]).await.0,
                    "addpk" => self.w.cred_update(t, au, &[CredOp::AddPasskey]).await.0,
                    "rmpk" => match pk {
                        Some(u) => self.w.cred_update(t, au, &[CredOp::RemovePasskey(u)]).await.0,
                        None => "nopk".into(),
                    },
                    "purge" => self.w.modify(t, au, vec![Modify::Purged(Attribute::PrimaryCredential), Modify::Purged(Attribute::PassKeys)]).await,
                    "purgepw" => self.w.modify(t, au, vec![Modify::Purged(Attribute::PrimaryCredential)]).await,
                    "purgepk" => self.w.modify(t, au, vec![Modify::Purged(Attribute::PassKeys)]).await,
                    _ => "noop".into(),
                };
                line["res"] = json!(r);
            }
            "setvalid" => {
                let vf = act["vf"].as_i64().unwrap_or(-1);
                let ex = act["ex"].as_i64().unwrap_or(-1);
                line["vf"] = json!(vf);
                line["ex"] = json!(ex);
                let mut mods = vec![Modify::Purged(Attribute::AccountValidFrom), Modify::Purged(Attribute::AccountExpire)];
                if vf >= 0 {
                    mods.push(Modify::Present(Attribute::AccountValidFrom, Value::new_datetime_epoch(t_abs(vf as u64))));
                }
                if ex >= 0 {
                    mods.push(Modify::Present(Attribute::AccountExpire, Value::new_datetime_epoch(t_abs(ex as u64))));
                }
                line["res"] = json!(self.w.modify(t, au, mods).await);
            }
            "keyrotate" => {
                let at = act["at"].as_u64().unwrap_or(t);
                line["at"] = json!(at);
                let r = self
                    .w
                    .modify(t, DOMAIN_UUID, vec![Modify::Present(Attribute::KeyActionRotate, Value::new_datetime_epoch(t_abs(at)))])
                    .await;
                line["res"] = json!(r);
            }
            "keyrevoke" => {
                let k = act["k"].as_str().unwrap_or("");
                line["k"] = json!(k);
                match self.w.kid_of(k) {
                    Some(kid) => {
                        let r = self
                            .w
                            .modify(t, DOMAIN_UUID, vec![Modify::Present(Attribute::KeyActionRevoke, Value::HexString(kid))])
                            .await;
                        line["res"] = json!(r);
                    }
                    None => line["res"] = json!("nokey"),
                }
            }
            "delete" => {
                line["res"] = json!(self.w.delete(t, au).await);
            }
            _ => {
                line["a"] = json!("tick");
                line["res"] = json!("ok");
            }
        }
        line["st"] = self.st().await;
        tr.emit(&line);
        if self.auto_present {
            self.present_all(tr).await;
        }
    }
}

async fn start(tr: &mut Tracer, h: u64, sessexp: u32, auto: bool) -> H {
    let mut hh = H::new(sessexp, auto).await;
    let st = hh.st().await;
    tr.emit(&json!({"a":"reset","h":h,"sessexp":sessexp,"st":st}));
    hh
}

/// Random history: times jump by deltas that straddle the grace window, the session expiry and
/// api-token expiries; every event is followed by a presentation of every token.
async fn random_history(tr: &mut Tracer, rng: &mut Rng, h: u64, len: u64) {
    let sessexp: u32 = *rng.pick(&[450u32, 900, 3600, 86400]);
    let mut hh = start(tr, h, sessexp, true).await;
    let se = sessexp as u64;
    let deltas: Vec<u64> = vec![0, 0, 0, 1, 1, 2, 7, 60, 149, 150, 151, 298, 299, 300, 301, se / 2, se - 301, se - 1, se, se + 1, 3600];
    for _ in 0..len {
        let dt = *rng.pick(&deltas);
        let t = hh.t + dt;
        let live_uat: Vec<String> = hh.toks.iter().filter(|k| k.kind == "uat" && k.acct == "p1").map(|k| k.name.clone()).collect();
        let live_api: Vec<String> = hh.toks.iter().filter(|k| k.kind == "api").map(|k| k.name.clone()).collect();
        let kinds: Vec<&'static str> = match hh.w.entry(uuid_n(1)).await {
            Some(e) => kanidmd_lib::verif::token::cred_ids(&e).into_iter().map(|k| if k.0 == "passkey" { "pk" } else { "pw" }).collect(),
            None => vec![],
        };
        let npend = hh.w.pending.len() as u64;
        let act = match rng.below(100) {
            0..=17 => {
                let cred = if !kinds.is_empty() && rng.chance(5, 6) { *rng.pick(&kinds) } else { *rng.pick(&["pw", "pk"]) };
                json!({"a":"login","acct":"p1","t":t,"priv":rng.chance(1,3),"cred":cred})
            }
            18..=20 => json!({"a":"login","acct":"an","t":t}),
            21..=37 if npend > 0 => json!({"a":"apply","t":t,"i":rng.below(npend)}),
            21..=30 => json!({"a":"login","acct":"p1","t":t,"priv":false,"cred": if kinds.is_empty() { "pw" } else { *rng.pick(&kinds) }}),
            38..=45 => {
                let exp = match rng.below(4) { 0 => -1, 1 => (t + 200) as i64, 2 => (t + 450) as i64, _ => (t + 4000) as i64 };
                json!({"a":"apiissue","acct":"sa1","t":t,"exp":exp,"rw":rng.chance(1,2),"compact":rng.chance(1,3)})
            }
            46..=50 if !live_api.is_empty() => json!({"a":"apidestroy","t":t,"tok":rng.pick(&live_api)}),
            51..=60 if !live_uat.is_empty() => json!({"a":"revoke","t":t,"tok":rng.pick(&live_uat)}),
            61..=75 => json!({"a":"cred","acct":"p1","t":t,"op":*rng.pick(&["addpw","replace","replace","rmpw","addpk","addpk","rmpk","rmpk","purge","purgepw","purgepk"])}),
            76..=85 => {
                let who = *rng.pick(&["p1", "p1", "sa1", "an"]);
                let vf = match rng.below(3) { 0 => -1, 1 => t as i64 + *rng.pick(&[-50i64, 0, 1, 100]), _ => -1 };
                let ex = match rng.below(3) { 0 => -1, 1 => t as i64 + *rng.pick(&[-1i64, 0, 1, 200, 500]), _ => -1 };
                json!({"a":"setvalid","acct":who,"t":t,"vf":vf.max(-1),"ex":ex.max(-1)})
            }
            86..=89 => json!({"a":"keyrotate","t":t,"at": t + *rng.pick(&[0u64, 0, 100])}),
            90..=94 => {
                let ks = hh.w.key_names();
                if ks.is_empty() { json!({"a":"tick","t":t}) } else { json!({"a":"keyrevoke","t":t,"k":rng.pick(&ks)}) }
            }
            95 => json!({"a":"delete","acct":*rng.pick(&["p1","sa1"]),"t":t}),
            96..=97 if !live_uat.is_empty() => json!({"a":"o2grant","t":t,"tok":rng.pick(&live_uat)}),
            98 if !hh.grants.is_empty() => json!({"a":"o2refresh","t":t,"g":hh.grants[rng.below(hh.grants.len() as u64) as usize].name.clone()}),
            _ => json!({"a":"tick","t":t}),
        };
        hh.exec(&act, tr).await;
    }
}

/// Credential-focused history: sessions of each credential are live (recorded or still queued) when a
/// credential is replaced / removed / purged - including the purge that leaves no credential at all.
async fn cred_history(tr: &mut Tracer, rng: &mut Rng, h: u64) {
    let mut hh = start(tr, h, *rng.pick(&[900u32, 86400]), true).await;
    let mut t = 5u64;
    // variant: 0 = password only, 1 = password + passkey, 2 = passkey only
    let variant = h % 3;
    if variant >= 1 {
        hh.exec(&json!({"a":"cred","acct":"p1","t":t,"op":"addpk"}), tr).await;
    }
    if variant == 2 {
        hh.exec(&json!({"a":"cred","acct":"p1","t":t,"op":"rmpw"}), tr).await;
    }
    for round in 0..2 {
        let creds: Vec<&str> = match variant { 0 => vec!["pw"], 1 => vec!["pw", "pk"], _ => vec!["pk"] };
        for c in creds.iter() {
            for _ in 0..rng.range(1, 2) {
                t += rng.range(0, 3);
                hh.exec(&json!({"a":"login","acct":"p1","t":t,"priv":false,"cred":c}), tr).await;
                if rng.chance(4, 5) {
                    let n = hh.w.pending.len() as u64;
                    if n > 0 {
                        hh.exec(&json!({"a":"apply","t":t,"i":n - 1}), tr).await;
                    }
                }
            }
        }
        t += *rng.pick(&[1u64, 10, 299, 301]);
        let ops: Vec<&str> = match variant {
            0 => vec!["replace", "purgepw", "purge"],
            1 => vec!["replace", "rmpw", "rmpk", "purgepw", "purgepk", "purge"],
            _ => vec!["purgepk", "purge"],
        };
        let op = *rng.pick(&ops);
        hh.exec(&json!({"a":"cred","acct":"p1","t":t,"op":op}), tr).await;
        // late session records arrive after the removal
        while !hh.w.pending.is_empty() {
            t += 1;
            hh.exec(&json!({"a":"apply","t":t,"i":0}), tr).await;
        }
        t += 301;
        hh.exec(&json!({"a":"tick","t":t}), tr).await;
        if round == 0 {
            // restore the credential set of the variant for a second round
            if variant != 2 {
                hh.exec(&json!({"a":"cred","acct":"p1","t":t,"op":"addpw"}), tr).await;
            }
            if variant >= 1 {
                hh.exec(&json!({"a":"cred","acct":"p1","t":t,"op":"addpk"}), tr).await;
            }
        }
    }
}

/// OAuth2-focused history: a grant whose parent login session is then revoked / loses its credential /
/// was never recorded, observed before and after the grace window.
async fn o2_history(tr: &mut Tracer, rng: &mut Rng, h: u64) {
    let mut hh = start(tr, h, 86400, true).await;
    let mut t = 10u64;
    let cred = *rng.pick(&["pw", "pw", "pk"]);
    if cred == "pk" {
        hh.exec(&json!({"a":"cred","acct":"p1","t":t,"op":"addpk"}), tr).await;
    }
    hh.exec(&json!({"a":"login","acct":"p1","t":t,"priv":false,"cred":cred}), tr).await;
    let applied = rng.chance(3, 4);
    if applied {
        hh.exec(&json!({"a":"apply","t":t + 1,"i":0}), tr).await;
    }
    let Some(tok) = hh.toks.last().map(|k| k.name.clone()) else { return };
    t += 2;
    hh.exec(&json!({"a":"o2grant","t":t,"tok":tok}), tr).await;
    for _ in 0..rng.range(3, 7) {
        t += *rng.pick(&[0u64, 1, 100, 250, 298, 299, 300, 301, 600]);
        let g = hh.grants.last().map(|g| g.name.clone()).unwrap_or_default();
        let act = match rng.below(12) {
            0..=2 => json!({"a":"revoke","t":t,"tok":tok}),
            3..=4 => json!({"a":"cred","acct":"p1","t":t,"op": if cred == "pk" { "rmpk" } else { "replace" }}),
            5 => json!({"a":"cred","acct":"p1","t":t,"op":"purge"}),
            6..=7 => json!({"a":"o2refresh","t":t,"g":g}),
            8 => json!({"a":"apply","t":t,"i":0}),
            9 => json!({"a":"setvalid","acct":"p1","t":t,"vf":-1,"ex":(t + 150) as i64}),
            _ => json!({"a":"tick","t":t}),
        };
        hh.exec(&act, tr).await;
    }
    t = hh.t + 301;
    hh.exec(&json!({"a":"tick","t":t}), tr).await;
    let g = hh.grants.last().map(|g| g.name.clone()).unwrap_or_default();
    hh.exec(&json!({"a":"o2refresh","t":t + 1,"g":g}), tr).await;
    hh.exec(&json!({"a":"tick","t":t + 400}), tr).await;
}

/// One behaviour of the model (array of model actions) on a real server, model time unit = UNIT s.
async fn model_behaviour(tr: &mut Tracer, h: u64, beh: &[J]) {
    let mut hh = start(tr, h, (3 * UNIT) as u32, true).await;
    let mut now: u64 = 0;
    for m in beh {
        let a = m["a"].as_str().unwrap_or("");
        let t = now * UNIT;
        let sname_tok = |hh: &H, s: &str| -> Option<String> {
            hh.toks.iter().find(|k| k.tk["sid"].as_str() == Some(s)).map(|k| k.name.clone())
        };
        let act = match a {
            "tick" => {
                now += 1;
                json!({"a":"tick","t":now * UNIT})
            }
            "login" => {
                // the model names the credential; find its kind on the real account
                let c = m["c"].as_str().unwrap_or("");
                let kinds = match hh.w.entry(uuid_n(1)).await {
                    Some(e) => kanidmd_lib::verif::token::cred_ids(&e),
                    None => vec![],
                };
                let kind = kinds.iter().find(|k| hh.w.names_peek('c', &k.1.to_string()).as_deref() == Some(c)).map(|k| k.0);
                json!({"a":"login","acct":"p1","t":t,"cred": if kind == Some("passkey") { "pk" } else { "pw" }})
            }
            "apply" => {
                // index of the pending record of model session s
                let s = m["s"].as_str().unwrap_or("");
                let idx = hh.w.pending.iter().position(|da| match da {
                    DelayedAction::AuthSessionRecord(asr) => hh.w.names_peek('s', &asr.session_id.to_string()).as_deref() == Some(s),
                    _ => false,
                });
                match idx {
                    Some(i) => json!({"a":"apply","t":t,"i":i}),
                    None => json!({"a":"tick","t":t}),
                }
            }
            // the model's single account carries api tokens too; on the real server they live on sa1
            "apiissue" => {
                let exp = if m["e"].as_bool().unwrap_or(false) { (t + 2 * UNIT) as i64 } else { -1 };
                json!({"a":"apiissue","acct":"sa1","t":t,"exp":exp,"rw":false,"compact":false})
            }
            "apidestroy" | "revoke" => match sname_tok(&hh, m["s"].as_str().unwrap_or("")) {
                Some(k) => json!({"a":a,"t":t,"tok":k}),
                None => json!({"a":"tick","t":t}),
            },
            "o2grant" => match sname_tok(&hh, m["s"].as_str().unwrap_or("")) {
                Some(k) => json!({"a":"o2grant","t":t,"tok":k}),
                None => json!({"a":"tick","t":t}),
            },
            "o2refresh" => {
                let o = m["o"].as_str().unwrap_or("");
                match hh.grants.iter().find(|g| g.o["oid"].as_str() == Some(o)) {
                    Some(g) => json!({"a":"o2refresh","t":t,"g":g.name.clone()}),
                    None => json!({"a":"tick","t":t}),
                }
            }
            "credremove" => json!({"a":"cred","acct":"p1","t":t,"op":"rm","c":m["c"].as_str().unwrap_or("")}),
            "credadd" => json!({"a":"cred","acct":"p1","t":t,"op":"add"}),
            "credreplace" => json!({"a":"cred","acct":"p1","t":t,"op":"repl"}),
            "setvalid" => {
                let f = |v: i64| if v < 0 { -1 } else { v * UNIT as i64 };
                json!({"a":"setvalid","acct":"p1","t":t,"vf":f(m["vf"].as_i64().unwrap_or(-1)),"ex":f(m["ex"].as_i64().unwrap_or(-1))})
            }
            "keyrotate" => json!({"a":"keyrotate","t":t,"at":t}),
            "keyrevoke" => json!({"a":"keyrevoke","t":t,"k":m["k"].as_str().unwrap_or("")}),
            "delete" => json!({"a":"delete","acct":"p1","t":t}),
            _ => json!({"a":"tick","t":t}),
        };
        hh.exec(&act, tr).await;
    }
}

pub fn run(o: &Opts) -> i32 {
    let out = o.str("out", "/verif/work/C32/obs.ndjson");
    let mut tr = Tracer::create(&out);
    let rt = runtime();
    rt.block_on(async {
        if let Some(rp) = o.get("replay") {
            let lines = read_ndjson(rp);
            let mut hh: Option<H> = None;
            let mut h = 0;
            for l in lines {
                if l["a"] == "reset" || hh.is_none() {
                    h += 1;
                    let se = l["sessexp"].as_u64().unwrap_or(450) as u32;
                    hh = Some(start(&mut tr, h, se, false).await);
                    if l["a"] == "reset" {
                        continue;
                    }
                }
                if let Some(x) = hh.as_mut() {
                    x.exec(&l, &mut tr).await;
                }
            }
            return;
        }
        let mut h = 0;
        if let Some(bf) = o.get("behaviours") {
            for b in read_ndjson(bf) {
                h += 1;
                if let Some(arr) = b.as_array() {
                    model_behaviour(&mut tr, h, arr).await;
                }
            }
        }
        let mut rng = Rng::new(o.seed());
        let len = o.u64("len", 40);
        for _ in 0..o.u64("random", 0) {
            h += 1;
            random_history(&mut tr, &mut rng, h, len).await;
        }
        for _ in 0..o.u64("cred", 0) {
            h += 1;
            cred_history(&mut tr, &mut rng, h).await;
        }
        for _ in 0..o.u64("o2", 0) {
            h += 1;
            o2_history(&mut tr, &mut rng, h).await;
        }
    });
    let n = tr.finish();
    println!("OBSERVED lines={n} out={out}");
    0
}
