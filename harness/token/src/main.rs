//! Group driver: runs the REAL kanidm code and records observed traces (ndjson) which TLC
//! validates against the TLA+ specifications in /verif/spec. See /verif/DESIGN.md.
use kvc::util::Opts;
mod hist;
mod o2;
mod keys;
mod privs;
mod smoke;
mod valid;
mod world;

fn main() {
    let args: Vec<String> = std::env::args().collect();
    if args.len() < 2 {
        eprintln!("usage: {} <subcommand> [--key value ...]", args[0]);
        std::process::exit(2);
    }
    let opts = Opts::parse(&args[2..]);
    let rc = match args[1].as_str() {
        "smoke" => smoke::run(&opts),
        "hist" => hist::run(&opts),
        "keys" => keys::run(&opts),
        "priv" => privs::run(&opts),
        "valid" => valid::run(&opts),
        other => {
            eprintln!("unknown subcommand {other}");
            2
        }
    };
    std::process::exit(rc);
}
