//! C34: key objects on REAL servers. Server A is an IdmServer over a FILE-backed database (so
//! `reload` = drop the server and open the database again), server B an in-memory replica refreshed
//! from A. Two key objects: the domain (`dom`: es256 hs256 jwe) and a stand-alone object (`ko`:
//! es256 hs256 rs256 jwe). Rotation / revocation go through the public modify interface
//! (key_action_rotate / key_action_revoke); signing / encryption and verification / decryption use
//! the LOADED key object of the server (the object every token path of kanidm uses), plus real
//! login tokens (es256) and API tokens (hs256) issued by the IdmServer.
//!
//! Lines: reset | rotate | revoke | reload | repl (carry "st" = stored key sets of both servers) and
//!        sign | verify (no state change).
use crate::world::*;
use kanidm_proto::v1::{AuthCredential, AuthMech};
use kanidmd_lib::prelude::*;
use kanidmd_lib::verif::token as kt;
use kvc::srv::*;
use kvc::util::*;
use serde_json::{json, Value as J};
use std::path::PathBuf;

const PW: &str = "xk3!vQ9#pLm2zR7w-kk-Tq";

struct Tok {
    name: String,
    s: String,
    obj: &'static str,
    u: String,
    kid: String,
}

struct K {
    a: Option<World>,
    qa: Option<QueryServer>,
    qb: QueryServer,
    db: PathBuf,
    keymap: Vec<(String, String)>, // (name, kid)
    toks: Vec<Tok>,
    t: u64,
    auto: bool,
}

fn obj_uuid(o: &str) -> Uuid {
    if o == "dom" {
        UUID_DOMAIN_INFO
    } else {
        uuid_n(50)
    }
}
fn obj_static(o: &str) -> &'static str {
    if o == "dom" {
        "dom"
    } else {
        "ko"
    }
}

impl K {
    async fn new(db: PathBuf, rs256: bool, auto: bool) -> K {
        let _ = std::fs::remove_file(&db);
        let qa = open_qs_file(&db, 1, t(0), true).await;
        let mut w = World::from_qs(qa.clone(), 0).await;
        w.set_person_policy(0, None, None).await;
        let mut ko: EntryInitNew = kanidmd_lib::entry_init!(
            (Attribute::Class, EntryClass::Object.to_value()),
            (Attribute::Class, EntryClass::KeyObject.to_value()),
            (Attribute::Class, EntryClass::KeyObjectJwtEs256.to_value()),
            (Attribute::Class, EntryClass::KeyObjectJwtHs256.to_value()),
            (Attribute::Class, EntryClass::KeyObjectJweA128GCM.to_value()),
            (Attribute::Uuid, Value::Uuid(uuid_n(50)))
        );
        if rs256 {
            ko.add_ava(Attribute::Class, EntryClass::KeyObjectJwtRs256.to_value());
        }
        let p1 = kanidmd_lib::entry_init!(
            (Attribute::Class, EntryClass::Object.to_value()),
            (Attribute::Class, EntryClass::Account.to_value()),
            (Attribute::Class, EntryClass::Person.to_value()),
            (Attribute::Name, Value::new_iname("p1")),
            (Attribute::Uuid, Value::Uuid(uuid_n(1))),
            (Attribute::DisplayName, Value::new_utf8s("p1"))
        );
        let sa = kanidmd_lib::entry_init!(
            (Attribute::Class, EntryClass::Object.to_value()),
            (Attribute::Class, EntryClass::Account.to_value()),
            (Attribute::Class, EntryClass::ServiceAccount.to_value()),
            (Attribute::Name, Value::new_iname("sa1")),
            (Attribute::Uuid, Value::Uuid(uuid_n(2))),
            (Attribute::DisplayName, Value::new_utf8s("sa1"))
        );
        w.create(0, vec![ko, p1, sa]).await;
        let (r, _) = w.cred_update(0, uuid_n(1), &[CredOp::SetPassword(PW.into())]).await;
        if r != "ok" {
            eprintln!("TOOL-ERROR provisioning: {r}");
            std::process::exit(2);
        }
        // replica B shares the domain: refreshed from A
        let qb = new_qs(t(0)).await;
        {
            let mut rd = qa.read().await.expect("read");
            let ctx = rd.supplier_provide_refresh().expect("refresh ctx");
            drop(rd);
            let mut wr = qb.write(t(1)).await.expect("write");
            wr.consumer_apply_refresh(ctx).and_then(|_| wr.commit()).expect("apply refresh");
        }
        K { a: Some(w), qa: Some(qa), qb, db, keymap: Vec::new(), toks: Vec::new(), t: 1, auto }
    }

    fn qs(&self, srv: &str) -> &QueryServer {
        if srv == "B" {
            &self.qb
        } else {
            self.qa.as_ref().expect("server A")
        }
    }

    fn key_name(&mut self, kid: &str, usage: &str) -> String {
        if let Some(x) = self.keymap.iter().find(|x| x.1 == kid) {
            return x.0.clone();
        }
        let p = match usage {
            "es256" => "e",
            "hs256" => "h",
            "jwe" => "j",
            "rs256" => "r",
            _ => "f",
        };
        let n = self.keymap.iter().filter(|x| x.0.starts_with(p)).count() + 1;
        let name = format!("{p}{n}");
        self.keymap.push((name.clone(), kid.to_string()));
        name
    }
    fn kid_of(&self, name: &str) -> Option<String> {
        self.keymap.iter().find(|x| x.0 == name).map(|x| x.1.clone())
    }

    async fn st(&mut self) -> J {
        let mut out = serde_json::Map::new();
        for srv in ["A", "B"] {
            let mut so = serde_json::Map::new();
            for o in ["dom", "ko"] {
                let e = {
                    let mut rd = self.qs(srv).read().await.expect("read");
                    rd.internal_search_uuid(obj_uuid(o)).ok()
                };
                let mut ko = serde_json::Map::new();
                if let Some(e) = e {
                    let mut ks = kt::key_states(&e);
                    ks.retain(|k| k.1 != "hkdf");
                    ks.sort_by(|a, b| (a.3, &a.0).cmp(&(b.3, &b.0)));
                    for (kid, usage, status, vf, sc) in ks {
                        let n = self.key_name(&kid, usage);
                        ko.insert(n, json!({"u": usage, "st": status, "vf": relsecs(vf as i64).max(-1), "sc": relsecs(sc as i64).max(-1)}));
                    }
                }
                so.insert(o.to_string(), J::Object(ko));
            }
            out.insert(srv.to_string(), J::Object(so));
        }
        J::Object(out)
    }

    async fn modify(&mut self, srv: &str, obj: &str, m: Modify, t: u64) -> String {
        let qs = self.qs(srv).clone();
        let mut wr = qs.write(t_abs(t)).await.expect("write");
        match wr.internal_modify_uuid(obj_uuid(obj), &ModifyList::new_list(vec![m])).and_then(|_| wr.commit()) {
            Ok(()) => "ok".into(),
            Err(e) => class_of(&e),
        }
    }

    async fn verify_line(&mut self, srv: &str, i: usize) -> J {
        let (obj, u, s, name, kid) = {
            let k = &self.toks[i];
            (k.obj, k.u.clone(), k.s.clone(), k.name.clone(), k.kid.clone())
        };
        let rd = self.qs(srv).read().await.expect("read");
        let res = match kvc::util::catch(|| kt::key_consume(&rd, obj_uuid(obj), &u, &s)) {
            Ok(Ok(_)) => "ok".to_string(),
            Ok(Err(e)) => format!("err:{e}").chars().take(48).collect(),
            Err(_) => "panic".to_string(),
        };
        json!({"a":"verify","srv":srv,"tok":name,"tk":{"kid":kid,"obj":obj,"u":u},"t":self.t,"res":res})
    }

    async fn verify_all(&mut self, tr: &mut Tracer) {
        for i in 0..self.toks.len() {
            for srv in ["A", "B"] {
                let l = self.verify_line(srv, i).await;
                tr.emit(&l);
            }
        }
    }

    fn add_tok(&mut self, s: String, obj: &'static str, u: &str, kid_raw: &str) -> (String, String) {
        let kid = self.key_name(kid_raw, u);
        let name = format!("k{}", self.toks.len() + 1);
        self.toks.push(Tok { name: name.clone(), s, obj, u: u.to_string(), kid: kid.clone() });
        (name, kid)
    }

    async fn exec(&mut self, act: &J, tr: &mut Tracer) {
        let a = act["a"].as_str().unwrap_or("");
        if let Some(t) = act["t"].as_u64() {
            if t > self.t {
                self.t = t;
            }
        }
        let t = self.t;
        let srv = act["srv"].as_str().unwrap_or("A").to_string();
        let obj = obj_static(act["obj"].as_str().unwrap_or("dom"));
        let mut line = json!({"a": a, "t": t, "srv": srv, "obj": obj});
        let mut changes = true;
        match a {
            "verify" => {
                if let Some(i) = act["tok"].as_str().and_then(|n| self.toks.iter().position(|k| k.name == n)) {
                    let l = self.verify_line(&srv, i).await;
                    tr.emit(&l);
                }
                return;
            }
            "rotate" => {
                let at = act["at"].as_u64().unwrap_or(t);
                line["at"] = json!(at);
                line["res"] = json!(self.modify(&srv, obj, Modify::Present(Attribute::KeyActionRotate, Value::new_datetime_epoch(t_abs(at))), t).await);
            }
            "revoke" => {
                let k = act["k"].as_str().unwrap_or("");
                line["k"] = json!(k);
                line["res"] = match self.kid_of(k) {
                    Some(kid) => json!(self.modify(&srv, obj, Modify::Present(Attribute::KeyActionRevoke, Value::HexString(kid)), t).await),
                    None => json!("nokey"),
                };
            }
            "sign" => {
                changes = false;
                let u = act["u"].as_str().unwrap_or("es256").to_string();
                line["u"] = json!(u);
                let payload = format!("payload-{}", self.toks.len());
                let r = {
                    let rd = self.qs(&srv).read().await.expect("read");
                    kt::key_produce(&rd, obj_uuid(obj), &u, payload.as_bytes(), t_abs(t))
                };
                match r {
                    Ok((s, kid)) => {
                        let (name, kn) = self.add_tok(s, obj, &u, &kid);
                        line["res"] = json!("ok");
                        line["tok"] = json!(name);
                        line["kid"] = json!(kn);
                    }
                    Err(e) => line["res"] = json!(format!("err:{e}").chars().take(48).collect::<String>()),
                }
            }
            "login" | "apitok" => {
                // real token issue paths of the IdmServer on A: UAT (es256) / API token (hs256), domain key
                changes = false;
                line["a"] = json!("sign");
                line["srv"] = json!("A");
                line["obj"] = json!("dom");
                line["via"] = json!(a);
                let u = if a == "login" { "es256" } else { "hs256" };
                line["u"] = json!(u);
                let w = self.a.as_mut().expect("A");
                let r = if a == "login" {
                    let r = w.login(t, "p1", false, AuthMech::Password, vec![AuthCredential::Password(PW.into())]).await;
                    w.pending.clear();
                    r
                } else {
                    w.api_issue(t, uuid_n(2), None, false, false).await
                };
                match r {
                    Ok(jws) => {
                        use compact_jwt::traits::JwsVerifiable;
                        let kid = jws.kid().unwrap_or("").to_string();
                        let (name, kn) = self.add_tok(jws.to_string(), "dom", u, &kid);
                        line["res"] = json!("ok");
                        line["tok"] = json!(name);
                        line["kid"] = json!(kn);
                    }
                    Err(e) => line["res"] = json!(format!("err:{e}")),
                }
            }
            "reload" => {
                // restart of server A on its database file
                line["srv"] = json!("A");
                self.a = None;
                self.qa = None;
                let qa = open_qs_file(&self.db, 1, t_abs(t), true).await;
                self.a = Some(World::from_qs(qa.clone(), t).await);
                self.qa = Some(qa);
                line["res"] = json!("ok");
            }
            "repl" => {
                let from = act["from"].as_str().unwrap_or("A").to_string();
                let to = if from == "A" { "B" } else { "A" };
                line["from"] = json!(from);
                line["to"] = json!(to);
                line["srv"] = json!(to);
                let qf = self.qs(&from).clone();
                let qt = self.qs(to).clone();
                let mut wr = qt.write(t_abs(t)).await.expect("write");
                let res = match wr.consumer_get_state() {
                    Ok(state) => {
                        if std::env::var("KV_DEBUG_CID").is_ok() {
                            eprintln!("DBG repl {from}->{to} t={t} consumer state: {state:?}");
                        }
                        let mut rd = qf.read().await.expect("read");
                        let ctx = rd.supplier_provide_changes(state);
                        drop(rd);
                        match ctx {
                            Ok(ctx) => {
                                use kanidmd_lib::repl::proto::{ConsumerState, ReplIncrementalContext};
                                if std::env::var("KV_DEBUG_CID").is_ok() {
                                    if let Ok(v) = serde_json::to_value(&ctx) {
                                        let ko = uuid_n(50).to_string();
                                        let ranges = v.pointer("/v1/ranges").cloned().unwrap_or(J::Null);
                                        let ents: Vec<J> = v.pointer("/v1/entries").and_then(|e| e.as_array()).map(|a| a.iter().filter(|e| e["u"] == ko || e["uuid"] == ko).cloned().collect()).unwrap_or_default();
                                        let brief: Vec<String> = ents.iter().map(|e| e.to_string().chars().take(400).collect()).collect();
                                        line["dbgctx"] = json!({"ranges": ranges, "ko": brief, "state_req": format!("{:?}", ()).len()});
                                    }
                                }
                                // "ok" only when the supplier actually supplied changes and the consumer applied them
                                let kind = match &ctx {
                                    ReplIncrementalContext::V1 { .. } => "ok",
                                    ReplIncrementalContext::NoChangesAvailable => "nochange",
                                    ReplIncrementalContext::RefreshRequired => "refresh",
                                    ReplIncrementalContext::UnwillingToSupply => "unwilling",
                                    ReplIncrementalContext::DomainMismatch => "mismatch",
                                };
                                match wr.consumer_apply_changes(ctx) {
                                    Ok(ConsumerState::Ok) => match wr.commit() {
                                        Ok(()) => kind.to_string(),
                                        Err(e) => class_of(&e),
                                    },
                                    Ok(ConsumerState::RefreshRequired) => "refresh".to_string(),
                                    Err(e) => class_of(&e),
                                }
                            }
                            Err(e) => class_of(&e),
                        }
                    }
                    Err(e) => class_of(&e),
                };
                line["res"] = json!(res);
            }
            _ => {
                line["a"] = json!("tick");
                line["res"] = json!("ok");
            }
        }
        if changes {
            line["st"] = self.st().await;
            if std::env::var("KV_DEBUG_CID").is_ok() {
                // development aid: change ids of the key attribute of `ko` on both servers
                let mut d = serde_json::Map::new();
                for s in ["A", "B"] {
                    let mut rd = self.qs(s).read().await.expect("read");
                    if let Ok(e) = rd.internal_search_uuid(uuid_n(50)) {
                        let full = dump_entry(&e);
                        d.insert(s.to_string(), json!({"key_internal_data": full["cids"]["key_internal_data"], "class": full["cids"]["class"]}));
                    }
                }
                line["dbg"] = J::Object(d);
            }
        }
        tr.emit(&line);
        if self.auto {
            self.verify_all(tr).await;
        }
    }
}

async fn start(tr: &mut Tracer, db: &PathBuf, h: u64, rs256: bool, auto: bool) -> K {
    let mut k = K::new(db.clone(), rs256, auto).await;
    let st = k.st().await;
    tr.emit(&json!({"a":"reset","h":h,"rs256":rs256,"st":st}));
    k
}

/// Scenarios derived from the counterexample of the model with a stale signer map (two rotations in
/// the same second, then revoke either one), on both objects and both servers.
fn scenarios() -> Vec<Vec<J>> {
    let mut v = Vec::new();
    for obj in ["dom", "ko"] {
        for which in [0usize, 1] {
            for srv in ["A", "B"] {
                // names of the keys created by the two rotations are resolved at run time: "$n" = n-th newest es256 key
                v.push(vec![
                    json!({"a":"sign","srv":srv,"obj":obj,"u":"es256","t":10}),
                    json!({"a":"rotate","srv":srv,"obj":obj,"at":20,"t":20}),
                    json!({"a":"rotate","srv":srv,"obj":obj,"at":20,"t":20}),
                    json!({"a":"sign","srv":srv,"obj":obj,"u":"es256","t":21}),
                    json!({"a":"revoke","srv":srv,"obj":obj,"k":format!("$es256:{which}"),"t":22}),
                    json!({"a":"sign","srv":srv,"obj":obj,"u":"es256","t":22}),
                    json!({"a":"sign","srv":srv,"obj":obj,"u":"hs256","t":22}),
                    json!({"a":"sign","srv":srv,"obj":obj,"u":"jwe","t":23}),
                    json!({"a":"repl","from":srv,"t":24}),
                    json!({"a":"reload","t":25}),
                    json!({"a":"sign","srv":"A","obj":obj,"u":"es256","t":26}),
                    json!({"a":"rotate","srv":srv,"obj":obj,"at":500,"t":27}),
                    json!({"a":"sign","srv":srv,"obj":obj,"u":"es256","t":28}),
                    json!({"a":"sign","srv":srv,"obj":obj,"u":"es256","t":501}),
                ]);
            }
        }
    }
    // Family derived from the counterexample of KKeysHyp2.cfg (StampOnRevoke = FALSE): a key OLDER than the
    // changelog window is revoked on A, B - not having seen it - rotates the same object a moment later, then
    // the replicas exchange in either order (and A restarts): a revocation that is not stamped with its own
    // change id is trimmed by the merge and the key comes back valid.  Every usage, both objects, both orders.
    const OLD: u64 = 1_300_000; // > 2 x CHANGELOG_MAX_AGE (604800 s)
    for (obj, u) in [("ko", "es256"), ("ko", "hs256"), ("ko", "jwe"), ("dom", "es256")] {
        for rev in ["A", "B"] {
            let other = if rev == "A" { "B" } else { "A" };
            for first in [other, rev] {
                let second = if first == "B" { "A" } else { "B" };
                v.push(vec![
                    json!({"a":"sign","srv":"A","obj":obj,"u":u,"t":10}),
                    json!({"a":"sign","srv":"B","obj":obj,"u":u,"t":11}),
                    json!({"a":"revoke","srv":rev,"obj":obj,"k":format!("${u}:0"),"t":OLD}),
                    json!({"a":"rotate","srv":other,"obj":obj,"at":OLD + 1,"t":OLD + 1}),
                    json!({"a":"repl","from":first,"t":OLD + 2}),
                    json!({"a":"repl","from":second,"t":OLD + 3}),
                    json!({"a":"repl","from":first,"t":OLD + 4}),
                    json!({"a":"repl","from":second,"t":OLD + 5}),
                    json!({"a":"reload","t":OLD + 6}),
                    json!({"a":"repl","from":"B","t":OLD + 7}),
                    json!({"a":"repl","from":"A","t":OLD + 8}),
                    json!({"a":"sign","srv":"A","obj":obj,"u":u,"t":OLD + 9}),
                    json!({"a":"sign","srv":"B","obj":obj,"u":u,"t":OLD + 9}),
                ]);
            }
        }
    }
    // concurrent revocations on both replicas, merged on A, A restarted, then supplied onward: the
    // revocation made on A must reach B (several copies: which replica's change id wins is random)
    for _ in 0..6 {
        v.push(vec![
            json!({"a":"rotate","srv":"A","obj":"ko","at":5,"t":5}),
            json!({"a":"repl","from":"A","t":6}),
            json!({"a":"sign","srv":"B","obj":"ko","u":"es256","t":7}),
            json!({"a":"sign","srv":"B","obj":"ko","u":"jwe","t":7}),
            json!({"a":"revoke","srv":"B","obj":"ko","k":"$jwe:0","t":100}),
            json!({"a":"revoke","srv":"A","obj":"ko","k":"$es256:0","t":100}),
            json!({"a":"repl","from":"B","t":200}),
            json!({"a":"reload","t":300}),
            json!({"a":"repl","from":"A","t":310}),
            json!({"a":"repl","from":"B","t":311}),
            json!({"a":"repl","from":"A","t":312}),
        ]);
    }
    v
}

/// "$usage:i" -> name of the i-th (0 = oldest) key of that usage among the keys with the LARGEST valid_from
/// on the given object of the given server.
async fn resolve(k: &mut K, act: &J) -> J {
    let mut a = act.clone();
    if let Some(s) = act["k"].as_str() {
        if let Some(rest) = s.strip_prefix('$') {
            let (u, i) = rest.split_once(':').unwrap_or(("es256", "0"));
            let i: usize = i.parse().unwrap_or(0);
            let st = k.st().await;
            let srv = act["srv"].as_str().unwrap_or("A");
            let obj = act["obj"].as_str().unwrap_or("dom");
            if let Some(m) = st[srv][obj].as_object() {
                let maxvf = m.values().filter(|x| x["u"] == u).map(|x| x["vf"].as_i64().unwrap_or(-1)).max().unwrap_or(-1);
                let mut names: Vec<&String> = m.iter().filter(|(_, x)| x["u"] == u && x["vf"].as_i64() == Some(maxvf)).map(|(n, _)| n).collect();
                names.sort_by_key(|n| n[1..].parse::<u32>().unwrap_or(0));
                if let Some(n) = names.get(i.min(names.len().saturating_sub(1))) {
                    a["k"] = json!(n.to_string());
                }
            }
        }
    }
    a
}

async fn random_history(tr: &mut Tracer, rng: &mut Rng, db: &PathBuf, h: u64, len: u64, rs256: bool) {
    let mut k = start(tr, db, h, rs256, true).await;
    let mut usages = vec!["es256", "hs256", "jwe"];
    for _ in 0..len {
        let t = k.t + *rng.pick(&[0u64, 0, 0, 1, 1, 2, 10, 100]);
        let srv = *rng.pick(&["A", "A", "B"]);
        let obj = *rng.pick(&["dom", "ko"]);
        if obj == "ko" && rs256 && !usages.contains(&"rs256") {
            usages.push("rs256");
        }
        let act = match rng.below(100) {
            0..=15 => json!({"a":"rotate","srv":srv,"obj":obj,"t":t,"at": t + *rng.pick(&[0u64, 0, 0, 5, 50])}),
            16..=35 => {
                // revoke one of the keys currently known (any object: a foreign kid is refused by the server)
                let names: Vec<String> = k.keymap.iter().map(|x| x.0.clone()).filter(|n| !n.starts_with('f')).collect();
                if names.is_empty() { json!({"a":"tick","t":t}) } else { json!({"a":"revoke","srv":srv,"obj":obj,"k":rng.pick(&names),"t":t}) }
            }
            36..=65 => {
                let u = if obj == "ko" { *rng.pick(&usages) } else { *rng.pick(&["es256", "hs256", "jwe"]) };
                json!({"a":"sign","srv":srv,"obj":obj,"u":u,"t":t})
            }
            66..=72 => json!({"a":"login","t":t}),
            73..=77 => json!({"a":"apitok","t":t}),
            78..=84 => json!({"a":"reload","t":t}),
            85..=97 => json!({"a":"repl","from":srv,"t":t}),
            _ => json!({"a":"tick","t":t}),
        };
        k.exec(&act, tr).await;
    }
}

pub fn run(o: &Opts) -> i32 {
    let out = o.str("out", "/verif/work/C34/obs.ndjson");
    let db = PathBuf::from(o.str("db", "/verif/work/C34/keys.db"));
    if let Some(p) = db.parent() {
        let _ = std::fs::create_dir_all(p);
    }
    let rs256 = o.flag("rs256");
    let mut tr = Tracer::create(&out);
    let rt = runtime();
    rt.block_on(async {
        if let Some(rp) = o.get("replay") {
            let mut k: Option<K> = None;
            let mut h = 0;
            for l in read_ndjson(rp) {
                if l["a"] == "reset" || k.is_none() {
                    h += 1;
                    k = Some(start(&mut tr, &db, h, l["rs256"].as_bool().unwrap_or(false), false).await);
                    if l["a"] == "reset" {
                        continue;
                    }
                }
                if let Some(x) = k.as_mut() {
                    // a sign line produced by a login / api token is re-executed through the same path
                    let mut act = l.clone();
                    if let Some(via) = l["via"].as_str() {
                        act["a"] = json!(via);
                    }
                    x.exec(&act, &mut tr).await;
                }
            }
            return;
        }
        let mut h = 0;
        if o.flag("scenarios") {
            for sc in scenarios() {
                h += 1;
                let mut k = start(&mut tr, &db, h, false, true).await;
                for act in sc {
                    let a = resolve(&mut k, &act).await;
                    k.exec(&a, &mut tr).await;
                }
            }
        }
        let mut rng = Rng::new(o.seed());
        for _ in 0..o.u64("random", 0) {
            h += 1;
            random_history(&mut tr, &mut rng, &db, h, o.u64("len", 30), rs256 && h % 2 == 0).await;
        }
    });
    let _ = std::fs::remove_file(&db);
    let n = tr.finish();
    println!("OBSERVED lines={n} out={out}");
    0
}
