//! Minimal OAuth2 client flow against the REAL IdmServer (public client with PKCE): authorise as an
//! identity, exchange the code, refresh, introspect. Used by C36 (OAuth2 session with a parent login
//! session) and C49 (OAuth2 ports of the validity matrix).
#![allow(dead_code)]
use crate::world::*;
use base64::Engine as _;
use crypto_glue::traits::Digest;
use kanidm_proto::oauth2::*;
use kanidmd_lib::idm::oauth2::{AuthorisationRequestContext, AuthoriseResponse, Oauth2Error};
use kanidmd_lib::prelude::*;
use kvc::srv::*;
use serde_json::json;

pub const RS_NAME: &str = "rs1";
pub const REDIRECT: &str = "https://rs1.example.com/cb";
pub const VERIFIER: &str = "verif-code-verifier-0123456789abcdefghijklmnopqrstuvwxyz";

pub fn rs_entry(u: Uuid) -> EntryInitNew {
    kanidmd_lib::entry_init!(
        (Attribute::Class, EntryClass::Object.to_value()),
        (Attribute::Class, EntryClass::Account.to_value()),
        (Attribute::Class, EntryClass::OAuth2ResourceServer.to_value()),
        (Attribute::Class, EntryClass::OAuth2ResourceServerPublic.to_value()),
        (Attribute::Uuid, Value::Uuid(u)),
        (Attribute::Name, Value::new_iname(RS_NAME)),
        (Attribute::DisplayName, Value::new_utf8s(RS_NAME)),
        (Attribute::OAuth2RsOriginLanding, Value::new_url_s("https://rs1.example.com/").expect("url")),
        (Attribute::OAuth2RsOrigin, Value::new_url_s(REDIRECT).expect("url")),
        (
            Attribute::OAuth2RsScopeMap,
            Value::new_oauthscopemap(UUID_IDM_ALL_ACCOUNTS, ["openid".to_string(), "read".to_string()].into()).expect("scopemap")
        )
    )
}

pub fn o2err(e: &Oauth2Error) -> String {
    match e {
        Oauth2Error::AuthenticationRequired => "authrequired".into(),
        Oauth2Error::InvalidGrant => "invalidgrant".into(),
        Oauth2Error::InvalidToken => "invalidtoken".into(),
        Oauth2Error::AccessDenied => "denied".into(),
        other => format!("err:{other:?}").chars().take(48).collect(),
    }
}

fn no_authz() -> ClientAuthInfo {
    ClientAuthInfo::new(Source::Internal, None, None, None)
}

fn challenge() -> String {
    let mut h = crypto_glue::s256::Sha256::new();
    h.update(VERIFIER.as_bytes());
    base64::engine::general_purpose::URL_SAFE_NO_PAD.encode(h.finalize())
}

pub struct Grant {
    pub at: String,
    pub rt: String,
}

impl World {
    /// Authorisation request of the front end acting for `ident`; returns the authorisation code.
    pub async fn o2_authorise(&mut self, at: u64, ident: &Identity) -> Result<String, String> {
        let ar: AuthorisationRequest = serde_json::from_value(json!({
            "response_type": "code", "client_id": RS_NAME, "state": "st4te", "nonce": "n0nce",
            "redirect_uri": REDIRECT, "scope": "openid read",
            "code_challenge": challenge(), "code_challenge_method": "S256"
        }))
        .map_err(|e| format!("req:{e}"))?;
        let resp = {
            let r = self.idms.proxy_read().await.expect("pr");
            r.check_oauth2_authorisation(Some(ident), &ar, &AuthorisationRequestContext::default(), t(at))
        };
        match resp {
            Ok(AuthoriseResponse::Permitted(p)) => Ok(p.code),
            Ok(AuthoriseResponse::ConsentRequested { consent_token, .. }) => {
                let mut w = self.idms.proxy_write(t(at)).await.expect("pw");
                match w.check_oauth2_authorise_permit(ident, &consent_token, t(at)) {
                    Ok(p) => {
                        w.commit().map_err(|e| class_of(&e))?;
                        Ok(p.code)
                    }
                    Err(e) => Err(class_of(&e)),
                }
            }
            Ok(AuthoriseResponse::AuthenticationRequired { .. }) => Err("authrequired".into()),
            Ok(AuthoriseResponse::ReauthenticationRequired { .. }) => Err("reauthrequired".into()),
            Err(e) => Err(o2err(&e)),
        }
    }

    async fn o2_token(&mut self, at: u64, grant_type: GrantTypeReq) -> Result<Grant, String> {
        let treq = AccessTokenRequest {
            grant_type,
            client_post_auth: ClientPostAuth { client_id: Some(RS_NAME.to_string()), client_secret: None },
        };
        let mut w = self.idms.proxy_write(t(at)).await.expect("pw");
        match w.check_oauth2_token_exchange(&no_authz(), &treq, t(at)) {
            Ok(resp) => {
                w.commit().map_err(|e| class_of(&e))?;
                Ok(Grant { at: resp.access_token, rt: resp.refresh_token.unwrap_or_default() })
            }
            Err(e) => {
                // the server commits the revocation of a replayed grant before answering
                if matches!(e, Oauth2Error::InvalidGrant) {
                    let _ = w.commit();
                }
                Err(o2err(&e))
            }
        }
    }

    pub async fn o2_exchange(&mut self, at: u64, code: &str) -> Result<Grant, String> {
        self.o2_token(
            at,
            GrantTypeReq::AuthorizationCode { code: code.to_string(), redirect_uri: Url::parse(REDIRECT).expect("url"), code_verifier: Some(VERIFIER.to_string()) },
        )
        .await
    }

    pub async fn o2_refresh(&mut self, at: u64, rt: &str) -> Result<Grant, String> {
        self.o2_token(at, GrantTypeReq::RefreshToken { refresh_token: rt.to_string(), scope: None }).await
    }

    /// "active" | "inactive" | error class
    pub async fn o2_introspect(&self, at: u64, access_token: &str) -> String {
        let ir = AccessTokenIntrospectRequest { token: access_token.to_string(), token_type_hint: None, client_post_auth: ClientPostAuth::default() };
        let mut r = self.idms.proxy_read().await.expect("pr");
        match r.check_oauth2_token_introspect(&ir, t(at)) {
            Ok(resp) => (if resp.active { "active" } else { "inactive" }).to_string(),
            Err(e) => o2err(&e),
        }
    }
}

/// (session id, parent session id, iat) claimed by an access token (unverified decode; projection only)
pub fn at_info(at: &str) -> Option<(Uuid, Option<Uuid>, i64)> {
    let payload = at.split('.').nth(1)?;
    let raw = base64::engine::general_purpose::URL_SAFE_NO_PAD.decode(payload).ok()?;
    let v: serde_json::Value = serde_json::from_slice(&raw).ok()?;
    let sid = v.get("session_id").and_then(|s| s.as_str()).and_then(|s| Uuid::parse_str(s).ok())?;
    let parent = v.get("parent_session_id").and_then(|s| s.as_str()).and_then(|s| Uuid::parse_str(s).ok());
    let iat = v.get("iat").and_then(|x| x.as_i64()).unwrap_or(0);
    Some((sid, parent, iat))
}
