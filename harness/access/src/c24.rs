//! C24: create / modify / delete / revive as user (and synchronisation) identities against a REAL
//! server whose access control profiles are ordinary entries written by the driver. Every operation runs
//! in its own write transaction through the public event constructors (ModifyEvent::from_message, ...),
//! the population is projected before and after inside the transaction, the transaction is dropped.
//!
//!  {"a":"cfg","in":{...},"acps":[..],"ents":{id:entry}}                 configuration in force (pre-state)
//!  {"a":"op","op":"modify"|"create"|"delete"|"revive","idd":..,"id":..,"f":AST,"ml":[{"k","a","v":[..]}],
//!   "new":{"id","sys","live","attrs","o2g"},"m":[candidate ids],"res":..,"post":{id:entry changed or new}}
use crate::c23::*;
use crate::world::*;
use kanidm_proto::internal::{CreateRequest, DeleteRequest, Modify as ProtoModify, ModifyList as ProtoModifyList, ModifyRequest};
use kanidm_proto::v1::Entry as ProtoEntry;
use kanidmd_lib::event::ReviveRecycledEvent;
use kanidmd_lib::prelude::*;
use kanidmd_lib::valueset::from_value_iter;
use kvc::srv::*;
use kvc::util::*;
use serde_json::{json, Map, Value as J};
use std::collections::{BTreeMap, BTreeSet};

/// base population of C23 plus protected kinds: built-in range entry b1, system-protected e7, dynamic
/// group e8, synchronised object e9 (owned by sync account e50); e2 additionally is a group.
pub async fn write_world() -> QueryServer {
    let qs = base_world().await;
    let mut wr = qs.write(t(NOW - 4)).await.expect("write");
    let dn = |s: &str| vec![Value::new_utf8s(s)];
    let mut b1 = EntryInitNew::default();
    b1.set_ava(Attribute::Uuid, vec![Value::Uuid(un("b1"))]);
    b1.set_ava(Attribute::Name, vec![Value::new_iname("nb1")]);
    b1.set_ava(Attribute::Class, vec![Value::new_iutf8("object"), Value::new_iutf8("extensibleobject")]);
    b1.set_ava(Attribute::Description, dn("d1"));
    let ents = vec![
        b1,
        plain(7, &["object", "extensibleobject", "system"], vec![(Attribute::Description, dn("d1"))]),
        plain(8, &["object", "group", "dyngroup"], vec![(Attribute::DynGroupFilter, vec![Value::new_json_filter(ProtoFilter::Eq("name".into(), "n1".into()))])]),
        plain(9, &["object", "extensibleobject", "sync_object"], vec![(Attribute::Description, dn("d1")), (Attribute::SyncParentUuid, vec![Value::Refer(uuid_e(50))])]),
    ];
    wr.internal_create(ents).expect("create protected population");
    wr.internal_modify_uuid(uuid_e(2), &ModifyList::new_list(vec![Modify::Present(Attribute::Class, Value::new_iutf8("group"))])).expect("e2 group");
    wr.commit().expect("commit");
    qs
}

/// model entries (and, given the uuids known before an operation, any entry that is new)
pub fn population(wr: &mut QueryServerWriteTransaction<'_>, known: Option<&BTreeSet<Uuid>>) -> (BTreeMap<String, J>, BTreeSet<Uuid>) {
    let mut m = BTreeMap::new();
    let mut ids = BTreeSet::new();
    for e in search_all(wr) {
        let u = e.get_uuid();
        ids.insert(u);
        if nm(u) != u.to_string() || known.map(|k| !k.contains(&u)).unwrap_or(false) {
            m.insert(nm(u), proj_entry(&e));
        }
    }
    (m, ids)
}

fn proto_val(a: &str, v: &str) -> String {
    // reference-valued attributes carry model names
    match a {
        "member" | "entry_managed_by" | "uuid" | "sync_parent_uuid" => un(v).to_string(),
        _ => v.to_string(),
    }
}

pub fn proto_modlist(ml: &J) -> ProtoModifyList {
    let mut mods = Vec::new();
    for m in ml.as_array().cloned().unwrap_or_default() {
        let a = m["a"].as_str().unwrap_or("").to_string();
        match m["k"].as_str().unwrap_or("") {
            "pres" => for v in strs(&m["v"]) { mods.push(ProtoModify::Present(a.clone(), proto_val(&a, &v))); },
            "rem" => for v in strs(&m["v"]) { mods.push(ProtoModify::Removed(a.clone(), proto_val(&a, &v))); },
            _ => mods.push(ProtoModify::Purged(a.clone())),
        }
    }
    ProtoModifyList::new_list(mods)
}

fn has_set(ml: &J) -> bool {
    ml.as_array().map(|a| a.iter().any(|m| m["k"] == "set")).unwrap_or(false)
}

/// model modification list -> server modification list with real values (needed for Modify::Set, which the
/// protocol modify list can not express: it is what SCIM PUT / batch callers build)
pub fn internal_modlist(wr: &mut QueryServerWriteTransaction<'_>, ml: &J) -> Result<ModifyList<ModifyInvalid>, OperationError> {
    let mut mods = Vec::new();
    for m in ml.as_array().cloned().unwrap_or_default() {
        let an = m["a"].as_str().unwrap_or("").to_string();
        let attr = Attribute::from(an.as_str());
        let vals: Vec<String> = strs(&m["v"]).iter().map(|v| proto_val(&an, v)).collect();
        match m["k"].as_str().unwrap_or("") {
            "pres" => for v in vals { mods.push(Modify::Present(attr.clone(), wr.clone_value(&attr, &v)?)); },
            "rem" => for v in vals { mods.push(Modify::Removed(attr.clone(), wr.clone_partialvalue(&attr, &v)?)); },
            "set" => {
                let mut vs = Vec::new();
                for v in vals { vs.push(wr.clone_value(&attr, &v)?); }
                mods.push(Modify::Set(attr.clone(), from_value_iter(vs.into_iter())?));
            }
            _ => mods.push(Modify::Purged(attr.clone())),
        }
    }
    Ok(ModifyList::new_list(mods))
}

/// execute one operation in its own (dropped) write transaction
pub async fn do_op(qs: &QueryServer, at: u64, line: &J) -> J {
    let mut wr = qs.write(t(at)).await.expect("write");
    let op = line["op"].as_str().unwrap_or("").to_string();
    let mut o = Map::new();
    o.insert("a".into(), json!("op"));
    if line.get("mods").is_some() { o.insert("mods".into(), line["mods"].clone()); }
    for k in ["op", "idd", "f", "ml", "new"] {
        o.insert(k.into(), if line.get(k).is_some() { line[k].clone() } else if k == "ml" { json!([]) } else { json!({"t":"none"}) });
    }
    if op == "create" {
        let id = line["new"]["id"].as_str().unwrap_or("e60").to_string();
        o.insert("new".into(), json!({"id": id, "sys": id.starts_with('b') && line["new"]["attrs"].get("uuid").is_some(), "live": "live", "o2g": [], "attrs": line["new"]["attrs"]}));
    } else {
        o.insert("new".into(), json!({"id": "none", "sys": false, "live": "live", "o2g": [], "attrs": {}}));
    }
    let Some(ident) = mk_ident(&mut wr, &line["idd"]) else {
        eprintln!("TOOL-ERROR cannot build identity {}", line["idd"]);
        std::process::exit(2);
    };
    o.insert("id".into(), proj_ident(&ident));
    let (pre, known) = population(&mut wr, None);
    let mut m: Vec<String> = vec![];
    let res = catch(|| -> Result<(), OperationError> {
        match op.as_str() {
            "batch" => {
                // per-entry modification lists addressed by uuid (BatchModifyEvent, as the SCIM PUT path builds it)
                let mut modset = std::collections::BTreeMap::new();
                let mut ors = Vec::new();
                if let Some(mm) = line["mods"].as_object() {
                    for (id, ml) in mm {
                        let mlv = internal_modlist(&mut wr, ml)?.validate(wr.get_schema()).map_err(OperationError::SchemaViolation)?;
                        modset.insert(un(id), mlv);
                        ors.push(f_eq(Attribute::Uuid, PartialValue::Uuid(un(id))));
                    }
                }
                let f = kanidmd_lib::filter_all!(f_or(ors)).validate(wr.get_schema()).map_err(OperationError::SchemaViolation)?;
                m = be_candidates(&mut wr, &ident, &f).iter().map(|e| nm(e.get_uuid())).collect();
                let be = BatchModifyEvent { ident: ident.clone(), modset };
                wr.batch_modify(&be)
            }
            "modify" if has_set(&line["ml"]) => {
                let f = Filter::from_rw(&ident, &ast_to_proto(&line["f"]), &mut wr)?;
                let ml = internal_modlist(&mut wr, &line["ml"])?;
                let me = ModifyEvent::from_internal_parts(ident.clone(), &ml, &f, &wr)?;
                m = be_candidates(&mut wr, &ident, &me.filter).iter().map(|e| nm(e.get_uuid())).collect();
                wr.modify(&me)
            }
            "modify" => {
                let req = ModifyRequest::new(ast_to_proto(&line["f"]), proto_modlist(&line["ml"]));
                let me = ModifyEvent::from_message(ident.clone(), &req, &mut wr)?;
                m = be_candidates(&mut wr, &ident, &me.filter).iter().map(|e| nm(e.get_uuid())).collect();
                wr.modify(&me)
            }
            "delete" => {
                let req = DeleteRequest::new(ast_to_proto(&line["f"]));
                let de = DeleteEvent::from_message(ident.clone(), &req, &mut wr)?;
                m = be_candidates(&mut wr, &ident, &de.filter).iter().map(|e| nm(e.get_uuid())).collect();
                wr.delete(&de)
            }
            "revive" => {
                let f = Filter::from_rw(&ident, &ast_to_proto(&line["f"]), &mut wr)?;
                let re = ReviveRecycledEvent::from_parts(ident.clone(), &f, &wr)?;
                m = be_candidates(&mut wr, &ident, &re.filter).iter().map(|e| nm(e.get_uuid())).collect();
                wr.revive_recycled(&re)
            }
            "create" => {
                let mut attrs: BTreeMap<String, Vec<String>> = BTreeMap::new();
                if let Some(am) = line["new"]["attrs"].as_object() {
                    for (a, vs) in am {
                        attrs.insert(a.clone(), strs(vs).iter().map(|v| proto_val(a, v)).collect());
                    }
                }
                let req = CreateRequest::new(vec![ProtoEntry { attrs }]);
                let ce = CreateEvent::from_message(ident.clone(), &req, &mut wr)?;
                wr.create(&ce).map(|_| ())
            }
            _ => Err(OperationError::InvalidState),
        }
    })
;
    let (res, panicked) = match res { Ok(r) => (r, false), Err(_) => (Err(OperationError::InvalidState), true) };
    let resc = if panicked { "panic".to_string() } else { res_class(&res) };
    let mut post = Map::new();
    if res.is_ok() {
        for (k, v) in population(&mut wr, Some(&known)).0 {
            if pre.get(&k) != Some(&v) {
                post.insert(k, v);
            }
        }
    }
    o.insert("m".into(), json!(sorted(m)));
    o.insert("res".into(), json!(resc));
    o.insert("post".into(), J::Object(post));
    drop(wr);
    J::Object(o)
}

// ------------------------------------------------------------------ generation
const SATTRS: [&str; 8] = ["class", "name", "uuid", "description", "displayname", "member", "entry_managed_by", "memberof"];
const MATTRS: [&str; 8] = ["description", "displayname", "class", "member", "mail", "name", "entry_managed_by", "legalname"];
const MCLASSES: [&str; 12] = ["group", "extensibleobject", "system", "recycled", "sync_object", "dyngroup", "tombstone", "account", "person", "domain_info", "system_info", "system_config"];
const CCLASSES: [&str; 11] = ["object", "extensibleobject", "group", "system", "sync_object", "recycled", "account", "dyngroup", "domain_info", "system_info", "system_config"];

fn sub(rng: &mut Rng, pool: &[&str], lo: u64, hi: u64) -> Vec<String> {
    let k = rng.range(lo, hi) as usize;
    let mut p: Vec<&str> = pool.to_vec();
    rng.shuffle(&mut p);
    sorted(p.into_iter().take(k).map(|s| s.to_string()).collect())
}

fn wtargets() -> Vec<J> {
    vec![
        pres("class"), pres("class"),
        and(vec![pres("class"), andnot(or(vec![eq("class", "recycled"), eq("class", "tombstone")]))]),
        eq("class", "group"), eq("description", "d1"), eq("class", "recycled"),
        or(vec![eq("class", "recycled"), eq("class", "tombstone")]),
        eq("class", "system"), eq("class", "sync_object"), eq("class", "extensibleobject"),
        eq("entry_managed_by", "e20"), eq("name", "n60"), pres("name"), selff(),
        and(vec![eq("class", "extensibleobject"), andnot(eq("class", "system"))]),
    ]
}

fn wreceiver(rng: &mut Rng) -> (String, Vec<String>) {
    match rng.below(20) {
        0..=9 => ("group".into(), vec!["e20".into()]),
        10..=12 => ("group".into(), vec!["e21".into()]),
        13 => ("group".into(), vec!["e20".into(), "e21".into()]),
        14 => ("group".into(), vec!["e22".into()]),
        15..=18 => ("mgr".into(), vec![]),
        _ => ("none".into(), vec![]),
    }
}

fn gen_wcfg(rng: &mut Rng) -> J {
    let tg = wtargets();
    let mut acps = Vec::new();
    if rng.chance(17, 20) {
        // a broad reader so that targets are selectable
        acps.push(json!({"en": true, "rk": "group", "rg": ["e20"], "tgt": if rng.chance(3, 4) { pres("class") } else { tg[2].clone() },
            "srch": true, "sa": ["class", "description", "name", "uuid"], "mod": false, "cre": false, "del": false}));
    }
    if rng.chance(1, 2) {
        // a creator / deleter with plausible content
        let mut cc = vec!["object", "extensibleobject", "group"];
        if rng.chance(1, 4) { cc.push("system"); }
        let mut ca = vec!["class", "name", "uuid", "description", "displayname"];
        if rng.chance(1, 2) { ca.push("member"); }
        if rng.chance(1, 5) { ca.retain(|a| *a != "uuid"); }
        acps.push(json!({"en": true, "rk": "group", "rg": [if rng.chance(3, 4) { "e20" } else { "e21" }],
            "tgt": if rng.chance(1, 2) { pres("class") } else if rng.chance(1, 2) { eq("name", "ne60") } else { eq("class", "extensibleobject") },
            "srch": false, "sa": [], "mod": false, "cre": true, "ca": ca, "cc": cc, "del": rng.chance(1, 2)}));
    }
    let n = rng.range(1, 2);
    for _ in 0..n {
        let (rk, rg) = wreceiver(rng);
        let tgt = if rng.chance(1, 25) { json!({"t":"none"}) } else if rng.chance(2, 5) { pres("class") } else { rng.pick(&tg).clone() };
        let mut ca = sub(rng, &SATTRS, 2, 6);
        if rng.chance(4, 5) { ca.push("class".into()); ca = sorted(ca); }
        // a third of the modify parts are about classes: class is writable and many classes are listed
        let classy = rng.chance(1, 3);
        let (mut pa, mut ra) = (sub(rng, &MATTRS, 0, 4), sub(rng, &MATTRS, 0, 4));
        if classy {
            pa.push("class".into());
            ra.push("class".into());
            pa = sorted(pa);
            ra = sorted(ra);
        }
        let (clo, chi) = if classy { (4, 8) } else { (0, 4) };
        acps.push(json!({"en": true, "rk": rk, "rg": rg, "tgt": tgt,
            "srch": rng.chance(1, 2), "sa": sub(rng, &SATTRS, 1, 5),
            "mod": classy || rng.chance(7, 10), "pa": pa, "ra": ra,
            "pc": sub(rng, &MCLASSES, clo, chi), "rc": sub(rng, &MCLASSES, clo, chi),
            "cre": rng.chance(1, 2), "ca": ca, "cc": sub(rng, &CCLASSES, 1, 5),
            "del": rng.chance(2, 5)}));
    }
    let mut ents = gen_ents(rng);
    ents["e50"] = json!({"sync_yield_authority": match rng.below(3) { 0 => json!([]), 1 => json!(["description"]), _ => json!(["description", "displayname"]) }});
    json!({"acps": acps, "ents": ents})
}

fn modlists() -> Vec<J> {
    let it = |k: &str, a: &str, v: Vec<&str>| json!({"k": k, "a": a, "v": v});
    vec![
        json!([it("pres", "description", vec!["d3"])]),
        json!([it("rem", "description", vec!["d1"])]),
        json!([it("purge", "description", vec![])]),
        json!([it("pres", "description", vec!["d3"]), it("purge", "displayname", vec![])]),
        json!([it("purge", "class", vec![])]),
        json!([it("pres", "class", vec!["group"])]),
        json!([it("rem", "class", vec!["group"])]),
        json!([it("pres", "class", vec!["system"])]),
        json!([it("pres", "class", vec!["recycled"])]),
        json!([it("pres", "class", vec!["tombstone"])]),
        json!([it("pres", "class", vec!["sync_object"])]),
        json!([it("pres", "class", vec!["dyngroup"])]),
        json!([it("pres", "class", vec!["domain_info"])]),
        json!([it("pres", "class", vec!["system_info"])]),
        json!([it("pres", "class", vec!["system_config"])]),
        json!([it("rem", "class", vec!["system"])]),
        json!([it("rem", "class", vec!["sync_object"])]),
        json!([it("rem", "class", vec!["dyngroup"])]),
        json!([it("rem", "class", vec!["extensibleobject"])]),
        json!([it("pres", "member", vec!["e10"])]),
        json!([it("rem", "member", vec!["e12"])]),
        json!([it("purge", "member", vec![])]),
        json!([it("pres", "displayname", vec!["x9"])]),
        json!([it("purge", "entry_managed_by", vec![])]),
        json!([it("pres", "entry_managed_by", vec!["e21"])]),
        json!([it("pres", "class", vec!["group"]), it("pres", "description", vec!["d3"])]),
        json!([it("pres", "legalname", vec!["l1"])]),
        json!([it("purge", "description", vec![]), it("pres", "description", vec!["d3"])]),
        json!([it("purge", "displayname", vec![]), it("pres", "displayname", vec!["x9"])]),
        json!([it("rem", "description", vec!["d2"])]),
        json!([it("rem", "class", vec!["group"]), it("purge", "member", vec![])]),
        json!([it("purge", "description", vec![]), it("purge", "class", vec![])]),
        // Modify::Set: replaces the whole value set (needs the present AND the removed grant)
        json!([it("set", "description", vec!["d4"])]),
        json!([it("set", "displayname", vec!["x8"])]),
        json!([it("set", "legalname", vec!["l2"])]),
        json!([it("set", "member", vec!["e10"])]),
        json!([it("set", "member", vec!["e10", "e12"])]),
        json!([it("set", "entry_managed_by", vec!["e21"])]),
        json!([it("set", "class", vec!["object", "extensibleobject", "group"])]),
        json!([it("set", "class", vec!["object", "extensibleobject"])]),
        json!([it("set", "class", vec!["object", "extensibleobject", "system"])]),
        json!([it("set", "description", vec!["d4"]), it("pres", "legalname", vec!["l3"])]),
    ]
}

fn wfilters() -> Vec<J> {
    let mut v = vec![eq("description", "d1"), eq("description", "d2"), eq("uuid", "e2"), eq("uuid", "e9"), eq("uuid", "b1"),
                     and(vec![eq("class", "group"), eq("description", "d1")])];
    for n in ["n1", "n2", "n3", "n6", "n7", "n8", "n9", "nb1", "n4", "n5"] {
        v.push(eq("name", n));
    }
    v
}

fn wids() -> Vec<J> {
    vec![
        json!({"u":"e10","scope":"rw"}), json!({"u":"e10","scope":"rw"}), json!({"u":"e10","scope":"rw"}), json!({"u":"e10","scope":"rw"}),
        json!({"u":"e11","scope":"rw"}), json!({"u":"e11","scope":"rw"}), json!({"u":"e11","scope":"rw"}),
        json!({"u":"e12","scope":"rw"}),
        json!({"u":"e10","scope":"ro"}), json!({"u":"e10","scope":"sync"}), json!({"synch":"e50","scope":"sync"}),
        json!({"synch":"e50","scope":"rw"}), json!({"u":"e3","scope":"rw"}),
    ]
}

fn gen_create(rng: &mut Rng, acps: &[J]) -> J {
    let id = if rng.chance(1, 8) { "b2" } else if rng.chance(1, 2) { "e60" } else { "e61" };
    let mut classes = vec!["object".to_string(), "extensibleobject".to_string()];
    if rng.chance(1, 3) { classes.push(rng.pick(&["group", "system", "sync_object", "recycled", "dyngroup", "account"]).to_string()); }
    let mut allowed: Option<Vec<String>> = None;
    if rng.chance(7, 10) {
        // aimed at a create profile: its classes, only attributes it lists
        let cands: Vec<&J> = acps.iter().filter(|p| p["cre"].as_bool().unwrap_or(false)).collect();
        if !cands.is_empty() {
            let p = rng.pick(&cands);
            classes = strs(&p["cc"]);
            if rng.chance(1, 5) { classes.push("object".into()); }
            allowed = Some(strs(&p["ca"]));
        }
    }
    let mut attrs = Map::new();
    attrs.insert("class".into(), json!(sorted(classes)));
    attrs.insert("name".into(), json!([format!("n{id}")]));
    if rng.chance(3, 4) { attrs.insert("uuid".into(), json!([id])); }
    if rng.chance(1, 2) { attrs.insert("description".into(), json!(["d1"])); }
    if rng.chance(1, 4) { attrs.insert("displayname".into(), json!(["x1"])); }
    if rng.chance(1, 6) { attrs.insert("member".into(), json!(["e10"])); }
    if let Some(al) = allowed {
        if rng.chance(9, 10) {
            attrs.retain(|k, _| al.contains(k) || k == "class");
        }
    }
    json!({"id": id, "attrs": attrs})
}

/// Configuration 0 of every run: members of e20 hold a profile that grants EVERYTHING (all attributes and
/// classes present/removed, create of any class, delete) on every entry, so that the built-in rules
/// (scope, protected classes and entries, tombstones, class purge) are the only thing left to refuse.
fn grant_all_scenario(rng: &mut Rng) -> (J, Vec<J>) {
    let mut attrs: Vec<&str> = MATTRS.to_vec();
    attrs.extend(["uuid", "memberof"]);
    let cfg = json!({"acps": [
        {"en": true, "rk": "group", "rg": ["e20"], "tgt": pres("class"), "srch": true, "sa": ["class", "description", "name", "uuid"],
         "mod": true, "pa": attrs, "ra": attrs, "pc": MCLASSES, "rc": MCLASSES,
         "cre": true, "ca": ["class", "name", "uuid", "description", "displayname", "member"], "cc": CCLASSES, "del": true}],
        "ents": {"e1": {"description": ["d1"], "displayname": ["x1"], "entry_managed_by": []},
                 "e2": {"description": ["d1"], "displayname": [], "entry_managed_by": ["e21"]},
                 "e3": {"description": ["d2"], "displayname": ["x3"], "entry_managed_by": []},
                 "e6": {"description": [], "entry_managed_by": ["e10"]},
                 "e50": {"sync_yield_authority": ["description"]}}});
    let names = ["n1", "n2", "n3", "n6", "n7", "n8", "n9", "nb1", "n4", "n5"];
    let mut ops = Vec::new();
    let rw = json!({"u":"e10","scope":"rw"});
    for ml in modlists() {
        for n in names {
            ops.push(json!({"op": "modify", "idd": rw, "f": eq("name", n), "ml": ml}));
        }
    }
    for n in names {
        ops.push(json!({"op": "delete", "idd": rw, "f": eq("name", n)}));
        ops.push(json!({"op": "revive", "idd": rw, "f": eq("name", n)}));
    }
    for (id, cls) in [("e60", vec!["object", "extensibleobject"]), ("e60", vec!["object", "extensibleobject", "group"]),
                      ("e60", vec!["object", "extensibleobject", "system"]), ("e60", vec!["object", "extensibleobject", "recycled"]),
                      ("e60", vec!["object", "extensibleobject", "sync_object"]), ("e60", vec!["object", "group", "dyngroup"]),
                      ("b2", vec!["object", "extensibleobject"]), ("e60", vec!["object", "extensibleobject", "tombstone"])] {
        ops.push(json!({"op": "create", "idd": rw, "new": {"id": id, "attrs": {"class": cls, "name": [format!("n{id}")], "uuid": [id], "description": ["d1"]}}}));
    }
    // the same requests from identities that may never write
    let n = ops.len();
    for idd in [json!({"u":"e10","scope":"ro"}), json!({"u":"e10","scope":"sync"}), json!({"synch":"e50","scope":"sync"}), json!({"synch":"e50","scope":"rw"})] {
        for _ in 0..40 {
            let mut l = ops[rng.below(n as u64) as usize].clone();
            l["idd"] = idd.clone();
            ops.push(l);
        }
    }
    (cfg, ops)
}

/// Configuration 1 of every run: ASYMMETRIC grants. Members of e20 may add (present) description, member,
/// class(+group) but not remove them; may remove displayname but not add it; may do both on legalname; may do
/// neither on entry_managed_by. Every attribute is then hit with present / removed / purge / Set requests,
/// through modify and through batch_modify.
fn asymmetric_scenario() -> (J, Vec<J>) {
    let rd = json!({"en": true, "rk": "group", "rg": ["e20"], "tgt": pres("class"), "srch": true, "sa": ["class", "description", "name", "uuid"], "mod": false, "cre": false, "del": false});
    let present_only = json!({"en": true, "rk": "group", "rg": ["e20"], "tgt": pres("class"), "srch": false, "sa": [],
        "mod": true, "pa": ["class", "description", "legalname", "member"], "ra": [], "pc": ["group"], "rc": [], "cre": false, "del": false});
    let removed_only = json!({"en": true, "rk": "group", "rg": ["e20"], "tgt": pres("class"), "srch": false, "sa": [],
        "mod": true, "pa": [], "ra": ["displayname", "legalname"], "pc": [], "rc": [], "cre": false, "del": false});
    let cfg = json!({"acps": [rd, present_only, removed_only],
        "ents": {"e1": {"description": ["d1"], "displayname": ["x1"], "entry_managed_by": ["e21"]},
                 "e2": {"description": [], "displayname": ["x2"], "entry_managed_by": []},
                 "e3": {"description": ["d2"], "displayname": ["x3"], "entry_managed_by": []},
                 "e6": {"description": ["d1"], "entry_managed_by": ["e10"]},
                 "e50": {"sync_yield_authority": []}}});
    let it = |k: &str, a: &str, v: Vec<&str>| json!({"k": k, "a": a, "v": v});
    let mut mls = Vec::new();
    for (a, v) in [("description", "d7"), ("displayname", "x7"), ("legalname", "l7"), ("entry_managed_by", "e21"), ("member", "e11")] {
        mls.push(json!([it("set", a, vec![v])]));
        mls.push(json!([it("pres", a, vec![v])]));
        mls.push(json!([it("purge", a, vec![])]));
        mls.push(json!([it("purge", a, vec![]), it("pres", a, vec![v])]));
    }
    mls.push(json!([it("rem", "description", vec!["d1"])]));
    mls.push(json!([it("rem", "displayname", vec!["x1"])]));
    mls.push(json!([it("set", "class", vec!["object", "extensibleobject", "group"])]));
    mls.push(json!([it("set", "class", vec!["object", "extensibleobject"])]));
    mls.push(json!([it("set", "class", vec!["object", "group"])]));
    mls.push(json!([it("pres", "class", vec!["group"])]));
    mls.push(json!([it("rem", "class", vec!["group"])]));
    mls.push(json!([it("set", "description", vec!["d7"]), it("set", "legalname", vec!["l7"])]));
    let mut ops = Vec::new();
    for idd in [json!({"u":"e10","scope":"rw"}), json!({"u":"e10","scope":"ro"}), json!({"u":"e12","scope":"rw"})] {
        for ml in &mls {
            for n in ["n1", "n2", "n3", "n6"] {
                if idd["scope"] == "rw" && idd["u"] == "e10" || n == "n1" {
                    ops.push(json!({"op": "modify", "idd": idd, "f": eq("name", n), "ml": ml}));
                }
            }
            ops.push(json!({"op": "batch", "idd": idd, "mods": {"e1": ml}}));
            ops.push(json!({"op": "batch", "idd": idd, "mods": {"e3": ml, "e2": [it("pres", "legalname", vec!["l1"])]}}));
        }
    }
    (cfg, ops)
}

pub fn run(o: &Opts) -> i32 {
    let out = o.str("out", "/verif/work/C24/obs.ndjson");
    let rt = runtime();
    rt.block_on(async {
        let mut tr = Tracer::create(&out);
        let qs = write_world().await;
        let mut rng = Rng::new(o.seed());
        let mut script: Vec<(J, Vec<J>)> = Vec::new();
        if let Some(rp) = o.get("replay") {
            for l in read_ndjson(rp) {
                match l["a"].as_str().unwrap_or("") {
                    "cfg" => script.push((l["in"].clone(), vec![])),
                    "op" => {
                        if script.is_empty() { script.push((json!({"acps": [], "ents": {}}), vec![])); }
                        script.last_mut().expect("cfg").1.push(l);
                    }
                    _ => {}
                }
            }
        } else {
            let (mls, fs, ids) = (modlists(), wfilters(), wids());
            script.push(grant_all_scenario(&mut rng));
            script.push(asymmetric_scenario());
            for _ in 0..o.u64("configs", 30) {
                let cfg = gen_wcfg(&mut rng);
                let acps = cfg["acps"].as_array().cloned().unwrap_or_default();
                let mut ops = Vec::new();
                for _ in 0..o.u64("ops", 100) {
                    let idd = rng.pick(&ids).clone();
                    if rng.chance(1, 12) {
                        let pool = ["e1", "e2", "e3", "e6", "e9", "e7", "e4"];
                        let mut mods = Map::new();
                        for _ in 0..rng.range(1, 2) {
                            let mut ml = rng.pick(&mls).clone();
                            if ml.as_array().map(|a| a.is_empty()).unwrap_or(true) { ml = mls[0].clone(); }
                            mods.insert(rng.pick(&pool).to_string(), ml);
                        }
                        ops.push(json!({"op": "batch", "idd": idd, "mods": mods}));
                        continue;
                    }
                    let line = match rng.below(10) {
                        0..=4 => {
                            let mut ml = rng.pick(&mls).clone();
                            if rng.chance(7, 10) {
                                // aimed at a modify profile: one item from what it grants
                                let ms: Vec<&J> = acps.iter().filter(|p| p["mod"].as_bool().unwrap_or(false)).collect();
                                if !ms.is_empty() {
                                    let p = rng.pick(&ms);
                                    let fit: Vec<&J> = mls.iter().filter(|ml| ml.as_array().map(|a| a.iter().all(|m| {
                                        let a_ = m["a"].as_str().unwrap_or("").to_string();
                                        match m["k"].as_str().unwrap_or("") {
                                            "pres" => strs(&p["pa"]).contains(&a_) && (a_ != "class" || strs(&m["v"]).iter().all(|c| strs(&p["pc"]).contains(c))),
                                            "set" => strs(&p["pa"]).contains(&a_),
                                            _ => strs(&p["ra"]).contains(&a_) && (a_ != "class" || strs(&m["v"]).iter().all(|c| strs(&p["rc"]).contains(c))),
                                        }
                                    })).unwrap_or(false)).collect();
                                    if !fit.is_empty() { ml = (*rng.pick(&fit)).clone(); }
                                }
                            }
                            let f = if rng.chance(3, 5) { eq("name", rng.pick(&["n1", "n2", "n3", "n6"])) } else { rng.pick(&fs).clone() };
                            json!({"op": "modify", "idd": idd, "f": f, "ml": ml})
                        }
                        5..=6 => json!({"op": "create", "idd": idd, "new": gen_create(&mut rng, &acps)}),
                        7..=8 => json!({"op": "delete", "idd": idd, "f": rng.pick(&fs)}),
                        _ => json!({"op": "revive", "idd": idd, "f": rng.pick(&[eq("name", "n4"), eq("uuid", "e4"), eq("name", "n1"), eq("description", "d1"), eq("name", "n5")])}),
                    };
                    ops.push(line);
                }
                script.push((cfg, ops));
            }
        }
        for (k, (cfg, ops)) in script.iter().enumerate() {
            if let Err(e) = apply_cfg(&qs, k as u64, cfg).await {
                eprintln!("TOOL-ERROR cannot apply configuration {k}: {e}");
                return 2;
            }
            {
                let mut rd = qs.read().await.expect("read");
                let acps = proj_acps(&mut rd);
                let ents = proj_ents(&mut rd, &Default::default());
                tr.emit(&json!({"a":"cfg","n":k,"in":cfg,"acps":acps,"ents":ents}));
            }
            for l in ops {
                let obs = do_op(&qs, NOW + 100_000 + k as u64, l).await;
                tr.emit(&obs);
            }
        }
        println!("OBSERVED lines={} out={out}", tr.finish());
        0
    })
}
