//! C50: synchronisation agreements against a REAL IdmServer. Histories of real `scim_sync_apply`
//! requests by two agreements (e50, e51), yield-authority changes and user modifications of synchronised
//! entries; every step commits (when it succeeded) and logs the population afterwards.
//!
//!  {"a":"reset","syncable":[attrs with sync_allowed],"st":{id:entry}}
//!  {"a":"sync","ag":"e50","idk":"synch"|"user"|"synch_rw","req":{"from":"refresh"|"active"|"stale",
//!        "entries":[{"id","kind":"group"|"person","ext":bool,"attrs":{a:[v]}}],"retain":{"mode","ids":[..]}},
//!        "res":..,"st":{..}}
//!  {"a":"yield","ag":"e50","y":[attrs],"res":..,"st":{..}}
//!  {"a":"umod","idd":{..},"id":{..},"t":"e1","ml":[..],"res":..,"st":{..}}
use crate::c23::plain;
use crate::c24::proto_modlist;
use crate::world::*;
use kanidm_proto::internal::ModifyRequest;
use kanidm_proto::scim_v1::ScimSyncRequest;
use kanidmd_lib::idm::scim::ScimSyncUpdateEvent;
use kanidmd_lib::idm::server::IdmServerProxyWriteTransaction;
use kanidmd_lib::prelude::*;
use kanidmd_lib::schema::SchemaTransaction;
use kanidmd_lib::verif::access as ka;
use kvc::srv::*;
use kvc::util::*;
use serde_json::{json, Map, Value as J};
use std::collections::BTreeSet;

const SCHEMA: &str = "urn:ietf:params:scim:schemas:kanidm:sync:1:";

pub fn population(wr: &mut QueryServerWriteTransaction<'_>, base: &BTreeSet<Uuid>) -> J {
    let mut m = Map::new();
    for e in search_all(wr) {
        let u = e.get_uuid();
        if nm(u) != u.to_string() || !base.contains(&u) || u == UUID_IDM_ADMINS {
            let mut p = proj_entry(&e);
            // token sessions / cookies are not part of the vocabulary
            if let Some(a) = p["attrs"].as_object_mut() {
                a.remove("sync_token_session");
                if a.contains_key("sync_cookie") {
                    a.insert("sync_cookie".into(), json!(["set"]));
                }
            }
            m.insert(nm(u), p);
        }
    }
    J::Object(m)
}

struct World {
    idms: IdmServer,
    base: BTreeSet<Uuid>,
    now: u64,
    cookie: u64,
}

impl World {
    async fn new() -> World {
        let qs = new_qs(t(0)).await;
        let (idms, _d, _a) = new_idms(qs, t(1)).await;
        let mut w = World { idms, base: BTreeSet::new(), now: 10, cookie: 0 };
        let mut pw = w.idms.proxy_write(t(w.now)).await.expect("proxy_write");
        for e in search_all(&mut pw.qs_write) {
            w.base.insert(e.get_uuid());
        }
        let dn = |s: &str| vec![Value::new_utf8s(s)];
        let ents = vec![
            plain(50, &["object", "sync_account"], vec![]),
            plain(51, &["object", "sync_account"], vec![]),
            plain(10, &["object", "account", "person"], vec![(Attribute::DisplayName, dn("x10"))]),
            plain(20, &["object", "group"], vec![(Attribute::Member, vec![Value::Refer(uuid_e(10))])]),
            plain(4, &["object", "account", "person"], vec![(Attribute::DisplayName, dn("x4")), (Attribute::Description, dn("d1"))]),
            plain(6, &["object", "group"], vec![(Attribute::Description, dn("d1"))]),
        ];
        pw.qs_write.internal_create(ents).expect("create c50 population");
        // a profile that lets members of e20 read and modify anything (so that only the built-in
        // sync constraint decides what a user may change on synchronised entries)
        let all = ["description", "displayname", "name", "legalname", "mail", "user_auth_token_session", "oauth2_session",
                   "credential_update_intent_token", "member", "loginshell", "gidnumber", "sync_external_id", "sync_parent_uuid"];
        let spec = json!({"en": true, "rk": "group", "rg": ["e20"], "tgt": {"t":"pres","a":"class"},
            "srch": true, "sa": ["class", "name", "uuid", "description", "displayname", "sync_parent_uuid"],
            "mod": true, "pa": all, "ra": all, "pc": ["person"], "rc": ["person"], "cre": false, "del": true});
        acp_create(&mut pw.qs_write, uuid_e(40), "acp40", &spec).expect("acp");
        pw.commit().expect("commit");
        w
    }

    async fn st(&mut self) -> J {
        let mut pw = self.idms.proxy_write(t(self.now)).await.expect("proxy_write");
        population(&mut pw.qs_write, &self.base)
    }

    /// model request -> the JSON body a sync client would send
    fn build_request(cookie: &mut u64, pw: &mut IdmServerProxyWriteTransaction<'_>, ag: Uuid, req: &J) -> Result<ScimSyncRequest, String> {
        let cur = pw.qs_write.internal_search_uuid(ag).ok().and_then(|e| e.get_ava_single_private_binary(Attribute::SyncCookie).map(|b| b.to_vec()));
        use base64::Engine;
        let b64 = |b: &[u8]| base64::engine::general_purpose::URL_SAFE_NO_PAD.encode(b);
        let from = match req["from"].as_str().unwrap_or("refresh") {
            "refresh" => json!("Refresh"),
            "stale" => json!({"Active": {"cookie": b64(b"stale-cookie")}}),
            _ => match cur {
                Some(c) => json!({"Active": {"cookie": b64(&c)}}),
                None => json!({"Active": {"cookie": b64(b"none-yet")}}),
            },
        };
        *cookie += 1;
        let to = json!({"Active": {"cookie": b64(format!("cookie-{}", *cookie).as_bytes())}});
        let mut entries = Vec::new();
        for e in req["entries"].as_array().cloned().unwrap_or_default() {
            let id = e["id"].as_str().unwrap_or("e8");
            let mut o = Map::new();
            let schemas: Vec<String> = match e["kind"].as_str().unwrap_or("group") {
                "person" => vec![format!("{SCHEMA}person"), format!("{SCHEMA}account")],
                "system" => vec![format!("{SCHEMA}system")],
                _ => vec![format!("{SCHEMA}group")],
            };
            o.insert("schemas".into(), json!(schemas));
            o.insert("id".into(), json!(un(id).to_string()));
            if e["ext"].as_bool().unwrap_or(true) {
                o.insert("externalId".into(), json!(format!("ext-{id}")));
            }
            if let Some(am) = e["attrs"].as_object() {
                for (a, vs) in am {
                    let v = strs(vs);
                    match a.as_str() {
                        "member" => { o.insert(a.clone(), json!(v.iter().map(|m| json!({"external_id": un(m).to_string()})).collect::<Vec<_>>())); }
                        "mail" => { o.insert(a.clone(), json!(v.iter().map(|m| json!({"value": m})).collect::<Vec<_>>())); }
                        "sync_parent_uuid" | "entry_managed_by" | "uuid" => { o.insert(a.clone(), json!(un(&v[0]).to_string())); }
                        _ => { o.insert(a.clone(), json!(v[0])); }
                    }
                }
            }
            entries.push(J::Object(o));
        }
        let ids = |k: &str| -> Vec<String> { strs(&req["retain"][k]).iter().map(|s| un(s).to_string()).collect() };
        let retain = match req["retain"]["mode"].as_str().unwrap_or("ignore") {
            "retain" => json!({"Retain": ids("ids")}),
            "delete" => json!({"Delete": ids("ids")}),
            _ => json!("Ignore"),
        };
        let body = json!({"from_state": from, "to_state": to, "entries": entries, "retain": retain});
        serde_json::from_value::<ScimSyncRequest>(body).map_err(|e| format!("{e}"))
    }

    async fn sync(&mut self, line: &J) -> String {
        self.now += 2;
        let ag = un(line["ag"].as_str().unwrap_or("e50"));
        let mut pw = self.idms.proxy_write(t(self.now)).await.expect("proxy_write");
        let ident = match line["idk"].as_str().unwrap_or("synch") {
            "user" => mk_ident(&mut pw.qs_write, &json!({"u":"e10","scope":"rw"})).expect("ident"),
            "synch_rw" => ka::ident_synch(ag, AccessScope::ReadWrite),
            _ => ka::ident_synch(ag, AccessScope::Synchronise),
        };
        let req = match World::build_request(&mut self.cookie, &mut pw, ag, &line["req"]) {
            Ok(r) => r,
            Err(e) => {
                eprintln!("TOOL-ERROR cannot build sync request: {e}");
                std::process::exit(2);
            }
        };
        let sse = ScimSyncUpdateEvent { ident };
        let ct = t(self.now);
        let r = catch(|| pw.scim_sync_apply(&sse, &req, ct));
        match r {
            Err(_) => "panic".into(),
            Ok(Err(e)) => res_class(&Err(e)),
            Ok(Ok(())) => match pw.commit() {
                Ok(()) => "ok".into(),
                Err(e) => format!("commit_{}", res_class(&Err(e))),
            },
        }
    }

    async fn set_yield(&mut self, ag: &str, y: &[String]) -> String {
        self.now += 2;
        let mut pw = self.idms.proxy_write(t(self.now)).await.expect("proxy_write");
        let mut mods = vec![Modify::Purged(Attribute::SyncYieldAuthority)];
        for a in y {
            mods.push(Modify::Present(Attribute::SyncYieldAuthority, Value::new_iutf8(a)));
        }
        match pw.qs_write.internal_modify_uuid(un(ag), &ModifyList::new_list(mods)).and_then(|_| pw.commit()) {
            Ok(()) => "ok".into(),
            Err(e) => res_class(&Err(e)),
        }
    }

    async fn umod(&mut self, line: &J) -> (String, J) {
        self.now += 2;
        let mut pw = self.idms.proxy_write(t(self.now)).await.expect("proxy_write");
        let ident = mk_ident(&mut pw.qs_write, &line["idd"]).expect("ident");
        let idj = proj_ident(&ident);
        let tid = line["t"].as_str().unwrap_or("e1");
        let req = ModifyRequest::new(ProtoFilter::Eq("uuid".into(), un(tid).to_string()), proto_modlist(&line["ml"]));
        let r = catch(|| ModifyEvent::from_message(ident.clone(), &req, &mut pw.qs_write).and_then(|me| pw.qs_write.modify(&me)));
        let res = match r {
            Err(_) => "panic".to_string(),
            Ok(Err(e)) => res_class(&Err(e)),
            Ok(Ok(())) => match pw.commit() {
                Ok(()) => "ok".into(),
                Err(e) => format!("commit_{}", res_class(&Err(e))),
            },
        };
        (res, idj)
    }
}

// ------------------------------------------------------------------ generation
fn ent(id: &str, kind: &str, ext: bool, attrs: J) -> J {
    json!({"id": id, "kind": kind, "ext": ext, "attrs": attrs})
}
fn std_attrs(rng: &mut Rng, id: &str, kind: &str) -> J {
    let mut a = Map::new();
    a.insert("name".into(), json!([format!("s{id}")]));
    if kind == "person" {
        a.insert("displayname".into(), json!([format!("dn{}", rng.below(3))]));
    }
    if kind == "group" || rng.chance(1, 12) {
        match rng.below(3) { 0 => {} , k => { a.insert("description".into(), json!([format!("d{k}")])); } }
    } else if rng.chance(1, 2) {
        a.insert("legalname".into(), json!([format!("l{}", rng.below(3))]));
    }
    J::Object(a)
}

fn gen_sync(rng: &mut Rng, fresh: &mut u64) -> J {
    let ag = if rng.chance(3, 4) { "e50" } else { "e51" };
    let own: Vec<(&str, &str)> = if ag == "e50" { vec![("e1", "person"), ("e2", "group")] } else { vec![("e3", "group")] };
    let mut entries = Vec::new();
    let mut ids_in = Vec::new();
    for (id, kind) in &own {
        if rng.chance(2, 3) {
            let mut a = std_attrs(rng, id, kind);
            if *id == "e2" && rng.chance(1, 2) { a["member"] = json!(["e1"]); }
            if *id == "e2" && rng.chance(1, 8) { a["member"] = json!(["e4"]); }
            entries.push(ent(id, kind, rng.chance(5, 6), a));
            ids_in.push(id.to_string());
        }
    }
    if rng.chance(1, 3) {
        *fresh += 1;
        let id = format!("e{}", 60 + *fresh);
        let kind = if rng.chance(1, 2) { "group" } else { "person" };
        entries.push(ent(&id, kind, rng.chance(5, 6), std_attrs(rng, &id, kind)));
        ids_in.push(id);
    }
    // out-of-scope ids: other agreement's, native, recycled, reserved range (new and existing)
    if rng.chance(1, 3) {
        let (id, kind): (String, &str) = match rng.below(7) {
            0 => (if ag == "e50" { "e3".into() } else { "e2".into() }, "group"),
            1 => ("e4".into(), "person"),
            2 => ("e6".into(), "group"),
            3 => ("e5".into(), "group"),
            4 | 5 => { *fresh += 1; (format!("b{}", 10 + *fresh), if rng.chance(1, 2) { "group" } else { "person" }) }
            _ => (UUID_IDM_ADMINS.to_string(), "group"),
        };
        let mut a = std_attrs(rng, &id.replace('-', ""), kind);
        if id.len() > 10 { a["name"] = json!(["idm_admins"]); }
        entries.push(ent(&id, kind, rng.chance(3, 4), a));
    }
    // attributes outside the agreement's authority
    if !entries.is_empty() && rng.chance(1, 5) {
        let k = rng.below(entries.len() as u64) as usize;
        match rng.below(4) {
            0 => entries[k]["attrs"]["entry_managed_by"] = json!(["e20"]),
            1 => entries[k]["attrs"]["sync_parent_uuid"] = json!(["e51"]),
            2 => entries[k]["attrs"]["uuid"] = json!(["e77"]),
            _ => entries[k]["kind"] = json!("system"),
        }
    }
    let retain = match rng.below(10) {
        0..=5 => json!({"mode": "ignore", "ids": []}),
        6..=7 => {
            let mut ids = ids_in.clone();
            if rng.chance(1, 2) { ids.push("e1".into()); ids.push("e2".into()); ids.push("e3".into()); }
            json!({"mode": "retain", "ids": sorted(ids)})
        }
        _ => {
            let pool = ["e2", "e3", "e4", "e5", "e6", "e99", "e61", "e62"];
            let mut ids = vec![rng.pick(&pool).to_string()];
            if rng.chance(1, 3) { ids.push(rng.pick(&pool).to_string()); }
            json!({"mode": "delete", "ids": sorted(ids)})
        }
    };
    let from = match rng.below(12) { 0 => "stale", 1..=2 => "refresh", _ => "active" };
    let idk = match rng.below(15) { 0 => "user", 1 => "synch_rw", _ => "synch" };
    json!({"op": "sync", "ag": ag, "idk": idk, "req": {"from": from, "entries": entries, "retain": retain}})
}

fn gen_umod(rng: &mut Rng) -> J {
    let it = |k: &str, a: &str, v: Vec<&str>| json!({"k": k, "a": a, "v": v});
    let mls = vec![
        json!([it("purge", "description", vec![]), it("pres", "description", vec!["u1"])]),
        json!([it("purge", "description", vec![])]),
        json!([it("purge", "displayname", vec![]), it("pres", "displayname", vec!["udn"])]),
        json!([it("pres", "legalname", vec!["ul"])]),
        json!([it("purge", "user_auth_token_session", vec![])]),
        json!([it("purge", "credential_update_intent_token", vec![])]),
        json!([it("purge", "name", vec![]), it("pres", "name", vec!["uname"])]),
        json!([it("purge", "sync_external_id", vec![])]),
        json!([it("purge", "member", vec![])]),
        json!([it("purge", "sync_parent_uuid", vec![])]),
    ];
    let idd = match rng.below(8) { 0 => json!({"u":"e10","scope":"ro"}), 1 => json!({"u":"e4","scope":"rw"}), _ => json!({"u":"e10","scope":"rw"}) };
    json!({"op": "umod", "idd": idd, "t": rng.pick(&["e1", "e1", "e2", "e2", "e3", "e4", "e61", "e62"]), "ml": rng.pick(&mls)})
}

fn initial_script() -> Vec<J> {
    vec![
        json!({"op":"sync","ag":"e50","idk":"synch","req":{"from":"refresh","entries":[
            ent("e1","person",true,json!({"name":["se1"],"displayname":["dn0"]})),
            ent("e2","group",true,json!({"name":["se2"],"member":["e1"]})),
            ent("e5","group",true,json!({"name":["se5"]}))],"retain":{"mode":"ignore","ids":[]}}}),
        json!({"op":"sync","ag":"e50","idk":"synch","req":{"from":"active","entries":[],"retain":{"mode":"delete","ids":["e5"]}}}),
        json!({"op":"sync","ag":"e51","idk":"synch","req":{"from":"refresh","entries":[
            ent("e3","group",true,json!({"name":["se3"],"description":["d1"]}))],"retain":{"mode":"ignore","ids":[]}}}),
    ]
}

/// History 1 of every run: one request per way of stepping outside the agreement's scope, each otherwise valid.
fn scope_script() -> Vec<J> {
    let sync = |ag: &str, idk: &str, from: &str, entries: Vec<J>, mode: &str, ids: Vec<&str>| {
        json!({"op":"sync","ag":ag,"idk":idk,"req":{"from":from,"entries":entries,"retain":{"mode":mode,"ids":ids}}})
    };
    let g = |id: &str, ext: bool, extra: J| {
        let mut a = json!({"name":[format!("s{}", id.replace('-', ""))]});
        if let Some(m) = extra.as_object() { for (k, v) in m { a[k] = v.clone(); } }
        ent(id, "group", ext, a)
    };
    let p = |id: &str, ext: bool| ent(id, "person", ext, json!({"name":[format!("s{id}")],"displayname":["dnx"]}));
    let admins = UUID_IDM_ADMINS.to_string();
    let mut v = vec![
        // entries of the other agreement, native entries, recycled ones: with and without an external id
        sync("e50", "synch", "active", vec![g("e3", false, json!({"description":["d2"]}))], "ignore", vec![]),
        sync("e50", "synch", "active", vec![g("e3", true, json!({"description":["d2"]}))], "ignore", vec![]),
        sync("e50", "synch", "active", vec![p("e4", false)], "ignore", vec![]),
        sync("e50", "synch", "active", vec![p("e4", true)], "ignore", vec![]),
        sync("e50", "synch", "active", vec![g("e6", false, json!({"description":["d2"]}))], "ignore", vec![]),
        sync("e50", "synch", "active", vec![g("e6", true, json!({}))], "ignore", vec![]),
        sync("e50", "synch", "active", vec![g("e5", true, json!({}))], "ignore", vec![]),
        sync("e50", "synch", "active", vec![g("e5", false, json!({}))], "ignore", vec![]),
        sync("e50", "synch", "active", vec![ent(&admins, "group", false, json!({"name":["idm_admins"],"description":["owned"]}))], "ignore", vec![]),
        sync("e50", "synch", "active", vec![ent(&admins, "group", true, json!({"name":["idm_admins"]}))], "ignore", vec![]),
        // a valid own entry together with a foreign one
        sync("e50", "synch", "active", vec![g("e2", true, json!({})), g("e3", false, json!({}))], "ignore", vec![]),
        // deletes outside the scope
        sync("e50", "synch", "active", vec![], "delete", vec!["e3"]),
        sync("e50", "synch", "active", vec![], "delete", vec!["e4"]),
        sync("e50", "synch", "active", vec![], "delete", vec!["e6", "e2"]),
        sync("e50", "synch", "active", vec![], "delete", vec![&admins]),
        sync("e51", "synch", "active", vec![], "delete", vec!["e1"]),
        sync("e51", "synch", "active", vec![g("e2", false, json!({"description":["mine"]}))], "ignore", vec![]),
        // attributes outside the agreement's authority
        sync("e50", "synch", "active", vec![g("e2", true, json!({"entry_managed_by":["e20"]}))], "ignore", vec![]),
        sync("e50", "synch", "active", vec![g("e2", true, json!({"sync_parent_uuid":["e51"]}))], "ignore", vec![]),
        sync("e50", "synch", "active", vec![g("e2", true, json!({"uuid":["e77"]}))], "ignore", vec![]),
        sync("e50", "synch", "active", vec![ent("e2", "system", true, json!({"name":["se2"]}))], "ignore", vec![]),
        // wrong identities / states
        sync("e50", "user", "active", vec![g("e2", true, json!({}))], "ignore", vec![]),
        sync("e50", "synch_rw", "active", vec![g("e2", true, json!({}))], "ignore", vec![]),
        sync("e50", "synch", "stale", vec![g("e2", true, json!({}))], "ignore", vec![]),
        // yielded authority: the agreement must leave description alone afterwards
        json!({"op":"yield","ag":"e50","y":["description"]}),
        sync("e50", "synch", "active", vec![g("e2", true, json!({"description":["d2"]}))], "ignore", vec![]),
        sync("e50", "synch", "active", vec![g("e2", true, json!({}))], "ignore", vec![]),
    ];
    // users on synchronised entries: every attribute of the grant-all profile, yielded or not
    let it = |k: &str, a: &str, vv: Vec<&str>| json!({"k": k, "a": a, "v": vv});
    for t in ["e1", "e2", "e3", "e4"] {
        for ml in [json!([it("purge", "description", vec![]), it("pres", "description", vec!["u1"])]),
                   json!([it("purge", "displayname", vec![]), it("pres", "displayname", vec!["udn"])]),
                   json!([it("pres", "legalname", vec!["ul"])]),
                   json!([it("purge", "name", vec![]), it("pres", "name", vec![&format!("u{t}")])]),
                   json!([it("purge", "member", vec![])]),
                   json!([it("purge", "sync_external_id", vec![])]),
                   json!([it("purge", "user_auth_token_session", vec![])])] {
            v.push(json!({"op":"umod","idd":{"u":"e10","scope":"rw"},"t":t,"ml":ml}));
        }
    }
    v
}

pub fn run(o: &Opts) -> i32 {
    let out = o.str("out", "/verif/work/C50/obs.ndjson");
    runtime().block_on(async {
        let mut tr = Tracer::create(&out);
        let mut rng = Rng::new(o.seed());
        // histories: replay file (lines between resets) or generated
        let mut hists: Vec<Vec<J>> = Vec::new();
        if let Some(rp) = o.get("replay") {
            for l in read_ndjson(rp) {
                match l["a"].as_str().unwrap_or("") {
                    "reset" => hists.push(vec![]),
                    "sync" | "yield" | "umod" => {
                        if hists.is_empty() { hists.push(vec![]); }
                        let mut s = l.clone();
                        s["op"] = l["a"].clone();
                        hists.last_mut().expect("h").push(s);
                    }
                    _ => {}
                }
            }
        } else {
            for h in 0..o.u64("histories", 8) {
                let mut v = initial_script();
                if h == 0 {
                    // the model's counterexample: an id from the reserved system range that does not exist yet
                    v.push(json!({"op":"sync","ag":"e50","idk":"synch","req":{"from":"active","entries":[
                        ent("b7","group",true,json!({"name":["sb7"]}))],"retain":{"mode":"ignore","ids":[]}}}));
                }
                if h == 1 {
                    v.extend(scope_script());
                }
                let mut fresh = 0;
                for _ in 0..o.u64("steps", 25) {
                    v.push(match rng.below(10) {
                        0..=5 => gen_sync(&mut rng, &mut fresh),
                        6 => json!({"op":"yield","ag": if rng.chance(3, 4) { "e50" } else { "e51" },
                                    "y": match rng.below(3) { 0 => json!([]), 1 => json!(["description"]), _ => json!(["description", "displayname"]) }}),
                        _ => gen_umod(&mut rng),
                    });
                }
                hists.push(v);
            }
        }
        if o.get("replay").is_none() {
            if let Some(wf) = o.get("yieldwalk") {
                // the edge-covering walk over the yield-authority model (KSyncYieldMC): every SetYield / ClearYield is
                // one committed transaction; after each commit a real user (grant-all profile) tries to change the
                // attributes that may or may not be yielded on entries of both agreements
                let mut v = initial_script();
                let it = |k: &str, a: &str, vv: Vec<&str>| json!({"k": k, "a": a, "v": vv});
                for (k, step) in read_ndjson(wf).into_iter().enumerate() {
                    v.push(json!({"op":"yield","ag":step["ag"],"y":step["y"]}));
                    let val = format!("w{k}");
                    for (t, a) in [("e2", "description"), ("e3", "description"), ("e1", "legalname"), ("e1", "displayname")] {
                        v.push(json!({"op":"umod","idd":{"u":"e10","scope":"rw"},"t":t,
                                      "ml":[it("purge", a, vec![]), it("pres", a, vec![&val])]}));
                    }
                }
                hists.push(v);
            }
        }
        for h in hists {
            let mut w = World::new().await;
            let syncable: Vec<String> = {
                let pw = w.idms.proxy_write(t(w.now)).await.expect("pw");
                let mut v: Vec<String> = pw.qs_write.get_schema().get_attributes().values().filter(|a| a.sync_allowed).map(|a| a.name.to_string()).collect();
                v.sort();
                v
            };
            // per request kind: the synchronisable attributes of its classes (+ phantom ones), as phase 3 computes them
            let kattrs: J = {
                let pw = w.idms.proxy_write(t(w.now)).await.expect("pw");
                let sch = pw.qs_write.get_schema();
                let phantom: Vec<String> = sch.get_attributes().values().filter(|a| a.phantom && a.sync_allowed).map(|a| a.name.to_string()).collect();
                let of = |classes: &[&str]| -> Vec<String> {
                    let mut v: Vec<String> = phantom.clone();
                    for c in classes {
                        if let Some(cl) = sch.get_classes().get(*c) {
                            for a in cl.systemmay.iter().chain(cl.may.iter()).chain(cl.systemmust.iter()).chain(cl.must.iter()) {
                                if sch.get_attributes().get(a).map(|x| x.sync_allowed).unwrap_or(false) {
                                    v.push(a.to_string());
                                }
                            }
                        }
                    }
                    sorted(v)
                };
                json!({"group": of(&["group"]), "person": of(&["person", "account"]), "system": []})
            };
            let st = w.st().await;
            tr.emit(&json!({"a":"reset","syncable":syncable,"kattrs":kattrs,"st":st}));
            for l in h {
                let mut o = Map::new();
                match l["op"].as_str().unwrap_or("") {
                    "sync" => {
                        let res = w.sync(&l).await;
                        o.insert("a".into(), json!("sync"));
                        for k in ["ag", "idk", "req"] { o.insert(k.into(), l[k].clone()); }
                        if let Some(es) = o["req"]["entries"].as_array_mut() {
                            for e in es.iter_mut() {
                                let reserved = un(e["id"].as_str().unwrap_or("e0")) < DYNAMIC_RANGE_MINIMUM_UUID;
                                e["sys"] = json!(reserved);
                            }
                        }
                        o.insert("res".into(), json!(res));
                    }
                    "yield" => {
                        let res = w.set_yield(l["ag"].as_str().unwrap_or("e50"), &strs(&l["y"])).await;
                        o.insert("a".into(), json!("yield"));
                        for k in ["ag", "y"] { o.insert(k.into(), l[k].clone()); }
                        o.insert("res".into(), json!(res));
                    }
                    "umod" => {
                        let (res, idj) = w.umod(&l).await;
                        o.insert("a".into(), json!("umod"));
                        for k in ["idd", "t", "ml"] { o.insert(k.into(), l[k].clone()); }
                        o.insert("id".into(), idj);
                        o.insert("res".into(), json!(res));
                    }
                    _ => continue,
                }
                o.insert("st".into(), w.st().await);
                tr.emit(&J::Object(o));
            }
        }
        println!("OBSERVED lines={} out={out}", tr.finish());
        0
    })
}
