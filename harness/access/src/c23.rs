//! C23: searches / existence checks as user identities against a REAL server whose access control
//! profiles are ordinary entries written by the driver (parsed by the real reload_accesscontrols at
//! commit). Every request is logged with the identity, the candidate set and the returned entries with
//! their attribute names; KAccessTrace.tla judges each line against the grant model.
//!
//! Line shapes (observations double as replay scripts: only "in" / "idd","kind","f","req" are re-read):
//!  {"a":"cfg","in":{"acps":[spec..4],"ents":{"e1":{"description":["d1"],..}},"o2g":["e20"]},
//!            "acps":[projected enabled profiles],"ents":{id:{live,sys,attrs,o2g}}}
//!  {"a":"search","kind":"ext"|"recycle"|"exists","idd":{"u":"e10","scope":"ro"},"f":AST,"req":[..]|"all",
//!            "id":{projected identity},"m":[candidate ids],"res":"ok"|"err_..","out":{id:[attr names]},"ex":bool}
use crate::world::*;
use kanidmd_lib::idm::ldap::{LdapBoundToken, LdapResponseState, LdapServer, LdapSession};
use kanidmd_lib::idm::server::IdmServerTransaction;
use kanidmd_lib::prelude::*;
use ldap3_proto::proto::{LdapFilter, LdapOp, LdapResultCode, LdapSearchScope};
use ldap3_proto::simple::{CompareRequest, SearchRequest, ServerOps};
use kvc::srv::*;
use kvc::util::*;
use serde_json::{json, Map, Value as J};
use std::collections::{BTreeMap, BTreeSet};

pub fn eq(a: &str, v: &str) -> J { json!({"t":"eq","a":a,"v":v}) }
pub fn pres(a: &str) -> J { json!({"t":"pres","a":a}) }
pub fn and(s: Vec<J>) -> J { json!({"t":"and","s":s}) }
pub fn or(s: Vec<J>) -> J { json!({"t":"or","s":s}) }
pub fn andnot(f: J) -> J { json!({"t":"andnot","f":f}) }
pub fn selff() -> J { json!({"t":"self"}) }

pub const ACP_SLOTS: [u64; 4] = [40, 41, 42, 43];
pub const VAR_ENTS: [u64; 4] = [1, 2, 3, 6];

fn put(e: &mut EntryInitNew, a: Attribute, v: Vec<Value>) { e.set_ava(a, v); }

pub fn plain(n: u64, classes: &[&str], extra: Vec<(Attribute, Vec<Value>)>) -> EntryInitNew {
    let mut e = EntryInitNew::default();
    put(&mut e, Attribute::Uuid, vec![Value::Uuid(uuid_e(n))]);
    put(&mut e, Attribute::Name, vec![Value::new_iname(&format!("n{n}"))]);
    put(&mut e, Attribute::Class, classes.iter().map(|c| Value::new_iutf8(c)).collect());
    for (a, v) in extra { put(&mut e, a, v); }
    e
}

/// The fixed population every configuration is built on.
pub async fn base_world() -> QueryServer {
    let qs = new_world(true).await;
    let mut wr = qs.write(t(2)).await.expect("write");
    let dn = |s: &str| vec![Value::new_utf8s(s)];
    let ents = vec![
        plain(10, &["object", "account", "person"], vec![(Attribute::DisplayName, dn("x10"))]),
        plain(11, &["object", "account", "person"], vec![(Attribute::DisplayName, dn("x11"))]),
        plain(12, &["object", "account", "person"], vec![(Attribute::DisplayName, dn("x1"))]),
        plain(20, &["object", "group"], vec![(Attribute::Member, vec![Value::Refer(uuid_e(10)), Value::Refer(uuid_e(21))])]),
        plain(21, &["object", "group"], vec![(Attribute::Member, vec![Value::Refer(uuid_e(11))])]),
        plain(22, &["object", "group"], vec![]),
        plain(50, &["object", "sync_account"], vec![]),
        plain(1, &["object", "extensibleobject"], vec![]),
        plain(2, &["object", "extensibleobject"], vec![]),
        plain(3, &["object", "extensibleobject", "account", "person"], vec![(Attribute::DisplayName, dn("x1"))]),
        plain(6, &["object", "group"], vec![(Attribute::Member, vec![Value::Refer(uuid_e(12))])]),
        plain(4, &["object", "extensibleobject"], vec![(Attribute::Description, dn("d1")), (Attribute::EntryManagedBy, vec![Value::Refer(uuid_e(20))])]),
        plain(5, &["object", "extensibleobject"], vec![(Attribute::Description, dn("d1"))]),
        plain(30, &["object", "account", "oauth2_resource_server", "oauth2_resource_server_basic"], vec![
            (Attribute::DisplayName, dn("x30")),
            (Attribute::OAuth2RsOriginLanding, vec![Value::new_url_s("https://rs.example.com").expect("url")]),
            (Attribute::OAuth2RsOrigin, vec![Value::new_url_s("https://rs.example.com/cb").expect("url")]),
            (Attribute::OAuth2RsScopeMap, vec![Value::new_oauthscopemap(uuid_e(20), ["openid".to_string()].into_iter().collect()).expect("scopemap")]),
        ]),
    ];
    wr.internal_create(ents).expect("create base population");
    // e5 becomes a tombstone, e4 stays recycled
    wr.internal_delete_uuid(uuid_e(5)).expect("delete e5");
    wr.commit().expect("commit");
    let mut wr = qs.write(t(3 + 8 * 86400)).await.expect("write");
    wr.purge_recycled().expect("purge_recycled");
    wr.commit().expect("commit");
    let mut wr = qs.write(t(4 + 8 * 86400)).await.expect("write");
    wr.internal_delete_uuid(uuid_e(4)).expect("delete e4");
    let off = json!({"en": false, "rk":"group","rg":["e22"],"tgt":{"t":"pres","a":"class"},"srch":true,"sa":["class"]});
    for s in ACP_SLOTS {
        acp_create(&mut wr, uuid_e(s), &format!("acp{s}"), &off).expect("acp slot");
    }
    wr.commit().expect("commit");
    qs
}

pub const NOW: u64 = 10 + 8 * 86400;

/// apply a configuration: the four profile slots, the variable attributes of e1 e2 e3 e6, the scope-map group
pub async fn apply_cfg(qs: &QueryServer, k: u64, inp: &J) -> Result<(), String> {
    let mut wr = qs.write(t(NOW + k)).await.map_err(|e| format!("{e:?}"))?;
    for (i, s) in ACP_SLOTS.iter().enumerate() {
        let spec = inp["acps"].get(i).cloned().unwrap_or(json!({"en": false, "rk":"group","rg":["e22"],"tgt":{"t":"pres","a":"class"},"srch":true,"sa":["class"]}));
        acp_update(&mut wr, uuid_e(*s), &spec).map_err(|e| format!("acp{s}: {e:?}"))?;
    }
    if let Some(m) = inp["ents"].as_object() {
        for (id, attrs) in m {
            let mut mods = Vec::new();
            for a in ["description", "displayname", "entry_managed_by", "mail", "sync_yield_authority"] {
                let at = Attribute::from(a);
                if let Some(vs) = attrs.get(a) {
                    mods.push(Modify::Purged(at.clone()));
                    for v in strs(vs) {
                        let val = match a {
                            "entry_managed_by" => Value::Refer(un(&v)),
                            "mail" => Value::new_email_address_s(&v).ok_or("mail")?,
                            "sync_yield_authority" => Value::new_iutf8(&v),
                            _ => Value::new_utf8s(&v),
                        };
                        mods.push(Modify::Present(at.clone(), val));
                    }
                }
            }
            if !mods.is_empty() {
                wr.internal_modify_uuid(un(id), &ModifyList::new_list(mods)).map_err(|e| format!("ent {id}: {e:?}"))?;
            }
        }
    }
    if inp.get("o2g").is_some() {
        let mut mods = vec![Modify::Purged(Attribute::OAuth2RsScopeMap)];
        for g in strs(&inp["o2g"]) {
            mods.push(Modify::Present(Attribute::OAuth2RsScopeMap, Value::new_oauthscopemap(un(&g), ["openid".to_string()].into_iter().collect()).ok_or("scopemap")?));
        }
        wr.internal_modify_uuid(uuid_e(30), &ModifyList::new_list(mods)).map_err(|e| format!("o2g: {e:?}"))?;
    }
    wr.commit().map_err(|e| format!("commit {e:?}"))
}

/// run one search-like request as described by `line` and return the observation (without cfg data)
pub fn do_search(rd: &mut QueryServerReadTransaction<'_>, line: &J, extra: &mut BTreeSet<Uuid>) -> J {
    let kind = line["kind"].as_str().unwrap_or("ext").to_string();
    let mut o = Map::new();
    o.insert("a".into(), json!("search"));
    for k in ["kind", "idd", "f"] {
        o.insert(k.into(), line[k].clone());
    }
    let all = line["all"].as_bool().unwrap_or(false) || !line["req"].is_array();
    o.insert("all".into(), json!(all));
    o.insert("req".into(), if all { json!([]) } else { line["req"].clone() });
    let Some(ident) = mk_ident(rd, &line["idd"]) else {
        eprintln!("TOOL-ERROR cannot build identity {}", line["idd"]);
        std::process::exit(2);
    };
    o.insert("id".into(), proj_ident(&ident));
    let req: Option<Vec<String>> = if all { None } else { Some(strs(&line["req"])) };
    let pf = ast_to_proto(&line["f"]);
    let mut out = Map::new();
    let mut m: Vec<String> = vec![];
    let mut ex = false;
    let res: Result<(), OperationError> = (|| {
        let finv = Filter::from_ro(&ident, &pf, rd)?;
        if kind == "exists" {
            let fo = finv.validate(rd.get_schema()).map_err(OperationError::SchemaViolation)?;
            let ee = ExistsEvent { ident: ident.clone(), filter: fo.clone().into_ignore_hidden(), filter_orig: fo };
            for e in be_candidates(rd, &ident, &ee.filter) { m.push(nm(e.get_uuid())); extra.insert(e.get_uuid()); }
            ex = rd.exists(&ee)?;
            return Ok(());
        }
        let se = if kind == "recycle" {
            SearchEvent::from_internal_recycle_message(ident.clone(), &finv, req.as_deref(), rd)?
        } else {
            SearchEvent::from_internal_message(ident.clone(), &finv, req.as_deref(), rd)?
        };
        for e in be_candidates(rd, &ident, &se.filter) { m.push(nm(e.get_uuid())); extra.insert(e.get_uuid()); }
        let r = rd.search_ext(&se)?;
        for e in r {
            extra.insert(e.get_uuid());
            let names: Vec<String> = sorted(e.get_ava_names().map(|s| s.to_string()).collect());
            out.insert(nm(e.get_uuid()), json!(names));
        }
        Ok(())
    })();
    o.insert("m".into(), json!(sorted(m)));
    o.insert("res".into(), json!(res_class(&res)));
    o.insert("out".into(), J::Object(out));
    o.insert("ex".into(), json!(ex));
    J::Object(o)
}

/// the projected population: model entries plus any other stored entry in `extra`
pub fn proj_ents(rd: &mut QueryServerReadTransaction<'_>, extra: &BTreeSet<Uuid>) -> J {
    let mut m = Map::new();
    for e in search_all(rd) {
        let u = e.get_uuid();
        let is_model = nm(u) != u.to_string();
        if is_model || extra.contains(&u) {
            m.insert(nm(u), proj_entry(&e));
        }
    }
    J::Object(m)
}

// ------------------------------------------------------------------ LDAP gateway
fn ast_to_ldap(f: &J) -> Option<LdapFilter> {
    let val = |v: &J| -> String {
        let s = v.as_str().unwrap_or("");
        let is_name = (s.starts_with('e') || s.starts_with('b')) && s.len() > 1 && s[1..].chars().all(|c| c.is_ascii_digit());
        if is_name { un(s).to_string() } else { s.to_string() }
    };
    Some(match f["t"].as_str().unwrap_or("") {
        "eq" => LdapFilter::Equality(f["a"].as_str()?.to_string(), val(&f["v"])),
        "pres" => LdapFilter::Present(f["a"].as_str()?.to_string()),
        "and" => LdapFilter::And(f["s"].as_array()?.iter().map(ast_to_ldap).collect::<Option<Vec<_>>>()?),
        "or" => LdapFilter::Or(f["s"].as_array()?.iter().map(ast_to_ldap).collect::<Option<Vec<_>>>()?),
        "andnot" => LdapFilter::Not(Box::new(ast_to_ldap(&f["f"])?)),
        _ => return None,
    })
}
fn ldap_wrap(f: LdapFilter) -> LdapFilter {
    // the wrapper do_search / do_compare put around the client's filter
    LdapFilter::And(vec![f, LdapFilter::Not(Box::new(LdapFilter::Or(vec![
        LdapFilter::Equality("class".into(), "classtype".into()),
        LdapFilter::Equality("class".into(), "attributetype".into()),
        LdapFilter::Equality("class".into(), "access_control_profile".into()),
    ])))])
}

/// LDAP search / compare through the REAL LdapServer::do_op with a bound token for the account in "idd"
/// (a unix-bind session: the gateway bounds it to the anonymous identity).
pub async fn do_ldap(idms: &IdmServer, ldaps: &LdapServer, line: &J, extra: &mut BTreeSet<Uuid>) -> J {
    let kind = line["kind"].as_str().unwrap_or("ldap").to_string();
    let mut o = Map::new();
    o.insert("a".into(), json!("search"));
    for k in ["kind", "idd", "f", "req", "t", "atype", "val"] {
        if line.get(k).is_some() { o.insert(k.into(), line[k].clone()); }
    }
    o.insert("all".into(), json!(false));
    let bind_uuid = un(line["idd"]["u"].as_str().unwrap_or("e10"));
    let session = LdapSession::UnixBind(bind_uuid);
    let token = LdapBoundToken { spn: "verif".into(), session_id: uuid_e(9999), effective_session: session.clone() };
    let ct = duration_from_epoch_now();
    // identity the gateway derives, rdn -> uuid map, candidate sets (same constructors as do_search/do_compare)
    let mut rdn2uuid: BTreeMap<String, Uuid> = BTreeMap::new();
    let ident;
    let basedn;
    let mut m: Vec<String> = vec![];
    let mut m2: Vec<String> = vec![];
    let mut f2 = json!({"t":"none"});
    let mut cmp_dn = String::new();
    {
        let mut pr = idms.proxy_read().await.expect("proxy_read");
        ident = match pr.validate_ldap_session(&session, Source::Internal, ct) {
            Ok(i) => i,
            Err(e) => { eprintln!("TOOL-ERROR ldap session: {e:?}"); std::process::exit(2); }
        };
        basedn = format!("dc={}", pr.qs_read.get_domain_name().replace('.', ",dc="));
        for e in search_all(&mut pr.qs_read) {
            if let Ok(r) = pr.qs_read.uuid_to_rdn(e.get_uuid()) { rdn2uuid.insert(r, e.get_uuid()); }
        }
        fn cands(qs: &mut QueryServerReadTransaction<'_>, ident: &Identity, lf: &LdapFilter, acc: &mut Vec<String>, extra: &mut BTreeSet<Uuid>) {
            if let Ok(fv) = Filter::from_ldap_ro(ident, &ldap_wrap(lf.clone()), qs).and_then(|f| f.validate(qs.get_schema()).map_err(OperationError::SchemaViolation)) {
                for e in be_candidates(qs, ident, &fv.into_ignore_hidden()) { acc.push(nm(e.get_uuid())); extra.insert(e.get_uuid()); }
            }
        }
        if kind == "ldap" {
            if let Some(lf) = ast_to_ldap(&line["f"]) { cands(&mut pr.qs_read, &ident, &lf, &mut m, extra); }
        } else {
            let tu = un(line["t"].as_str().unwrap_or("e1"));
            let rdn = pr.qs_read.uuid_to_rdn(tu).unwrap_or_else(|_| format!("uuid={tu}"));
            cmp_dn = format!("{rdn},{basedn}");
            let (ra, rv) = rdn.split_once('=').unwrap_or(("uuid", ""));
            let rf = LdapFilter::Equality(ra.to_string(), rv.to_string());
            let af = LdapFilter::Equality(line["atype"].as_str().unwrap_or("name").to_string(), line["val"].as_str().unwrap_or("").to_string());
            cands(&mut pr.qs_read, &ident, &LdapFilter::And(vec![rf.clone(), af]), &mut m, extra);
            cands(&mut pr.qs_read, &ident, &rf, &mut m2, extra);
            f2 = json!({"t":"eq","a":ra,"v":vstr(rv)});
            o.insert("f".into(), json!({"t":"and","s":[f2.clone(), {"t":"eq","a":line["atype"],"v":line["val"]}]}));
        }
    }
    o.insert("id".into(), proj_ident(&ident));
    let req = strs(&line["req"]);
    let op = if kind == "ldap" {
        let Some(lf) = ast_to_ldap(&line["f"]) else { eprintln!("TOOL-ERROR filter has no LDAP form"); std::process::exit(2); };
        ServerOps::Search(SearchRequest { msgid: 1, base: basedn.clone(), scope: LdapSearchScope::Subtree, filter: lf, attrs: req.clone() })
    } else {
        ServerOps::Compare(CompareRequest { msgid: 1, entry: cmp_dn.clone(), atype: line["atype"].as_str().unwrap_or("name").to_string(), val: line["val"].as_str().unwrap_or("").to_string() })
    };
    let r = ldaps.do_op(idms, op, Some(token), std::net::IpAddr::V4(std::net::Ipv4Addr::LOCALHOST), uuid_e(9998)).await;
    let mut out = Map::new();
    let (mut ex, mut ex2) = (false, false);
    let mut dnspn: Vec<String> = vec![];
    let mut done_ok = false;
    let res = match r {
        Ok(LdapResponseState::MultiPartResponse(msgs)) | Ok(LdapResponseState::BindMultiPartResponse(_, msgs)) => {
            for msg in msgs {
                match msg.op {
                    LdapOp::SearchResultEntry(e) => {
                        let rdn = e.dn.strip_suffix(&format!(",{basedn}")).unwrap_or(&e.dn).to_string();
                        let id = rdn2uuid.get(&rdn).map(|u| { extra.insert(*u); nm(*u) }).unwrap_or_else(|| format!("dn:{}", e.dn));
                        if rdn.starts_with("spn=") { dnspn.push(id.clone()); }
                        let names: Vec<String> = sorted(e.attributes.iter().map(|a| a.atype.to_lowercase()).collect());
                        out.insert(id, json!(names));
                    }
                    LdapOp::CompareResult(cr) => {
                        ex = cr.code == LdapResultCode::CompareTrue;
                        ex2 = ex || cr.code == LdapResultCode::CompareFalse;
                        done_ok = ex2 || cr.code == LdapResultCode::NoSuchObject;
                    }
                    LdapOp::SearchResultDone(d) => { done_ok = d.code == LdapResultCode::Success; }
                    _ => {}
                }
            }
            if done_ok { "ok".to_string() } else { "refused".to_string() }
        }
        Ok(LdapResponseState::Respond(msg)) => {
            match msg.op {
                LdapOp::CompareResult(cr) => {
                    ex = cr.code == LdapResultCode::CompareTrue;
                    ex2 = ex || cr.code == LdapResultCode::CompareFalse;
                    done_ok = ex2 || cr.code == LdapResultCode::NoSuchObject;
                }
                LdapOp::SearchResultDone(d) => { done_ok = d.code == LdapResultCode::Success; }
                _ => {}
            }
            if done_ok { "ok".to_string() } else { "refused".to_string() }
        }
        Ok(_) => "err_other".to_string(),
        Err(e) => res_class(&Err(e)),
    };
    o.insert("m".into(), json!(sorted(m)));
    o.insert("m2".into(), json!(sorted(m2)));
    o.insert("f2".into(), f2);
    o.insert("res".into(), json!(res));
    o.insert("out".into(), J::Object(out));
    o.insert("ex".into(), json!(ex));
    o.insert("ex2".into(), json!(ex2));
    o.insert("dnspn".into(), json!(dnspn));
    if !o.contains_key("req") { o.insert("req".into(), json!([])); }
    J::Object(o)
}

// ------------------------------------------------------------------ generation
const ATTRS: [&str; 10] = ["class", "name", "displayname", "description", "memberof", "entry_managed_by", "uuid", "mail", "spn", "oauth2_rs_origin_landing"];

fn targets() -> Vec<J> {
    vec![
        pres("class"),
        eq("class", "account"),
        eq("class", "group"),
        eq("description", "d1"),
        eq("description", "d2"),
        eq("name", "n1"),
        selff(),
        eq("memberof", "e20"),
        and(vec![eq("class", "account"), andnot(eq("memberof", "e20"))]),
        or(vec![eq("description", "d1"), eq("name", "n6")]),
        eq("class", "recycled"),
        or(vec![eq("class", "recycled"), eq("class", "tombstone")]),
        and(vec![pres("class"), andnot(or(vec![eq("class", "recycled"), eq("class", "tombstone")]))]),
        eq("class", "oauth2_resource_server"),
        eq("entry_managed_by", "e20"),
        eq("uuid", "e2"),
        pres("entry_managed_by"),
        and(vec![pres("description"), andnot(eq("description", "d2"))]),
    ]
}
fn requests() -> Vec<J> {
    let mut v = vec![
        eq("description", "d1"), eq("description", "d2"), eq("displayname", "x1"), selff(),
        eq("memberof", "e20"), eq("memberof", "e21"), eq("entry_managed_by", "e20"), eq("entry_managed_by", "e10"),
        eq("class", "account"), eq("class", "oauth2_resource_server"), eq("class", "sync_account"),
        and(vec![eq("description", "d1"), andnot(eq("name", "n1"))]),
        or(vec![eq("name", "n1"), eq("name", "n2")]),
        and(vec![eq("class", "group"), eq("description", "d1")]),
        or(vec![eq("description", "d1"), eq("displayname", "x1")]),
        and(vec![eq("uuid", "e2"), pres("description")]),
        or(vec![eq("uuid", "e4"), eq("uuid", "e5"), eq("uuid", "e1")]),
        pres("mail"),
    ];
    for n in [1, 2, 3, 4, 5, 6, 10, 30] {
        v.push(eq("name", &format!("n{n}")));
    }
    v
}
fn reqattrs() -> Vec<J> {
    vec![json!("all"), json!(["name"]), json!(["description", "displayname"]), json!(["class", "uuid", "memberof"]), json!(["mail"]),
         json!(["name", "description", "entry_managed_by"]), json!(["directmemberof", "spn"]), json!(["oauth2_rs_origin_landing", "displayname"])]
}
fn idents() -> Vec<J> {
    vec![
        json!({"u":"e10","scope":"ro"}), json!({"u":"e10","scope":"rw"}), json!({"u":"e11","scope":"ro"}),
        json!({"u":"e12","scope":"rw"}), json!({"u":"e12","scope":"ro"}), json!({"u":"e10","scope":"sync"}),
        json!({"u": UUID_ANONYMOUS.to_string(),"scope":"ro"}), json!({"synch":"e50","scope":"sync"}), json!({"synch":"e50","scope":"ro"}),
        json!({"u":"e3","scope":"ro"}),
    ]
}

pub fn filter_attrs(f: &J) -> BTreeSet<String> {
    let mut s = BTreeSet::new();
    match f["t"].as_str().unwrap_or("") {
        "eq" | "pres" => { s.insert(f["a"].as_str().unwrap_or("").to_string()); }
        "self" => { s.insert("uuid".to_string()); }
        "and" | "or" => { for x in f["s"].as_array().cloned().unwrap_or_default() { s.extend(filter_attrs(&x)); } }
        "andnot" => { s.extend(filter_attrs(&f["f"])); }
        _ => {}
    }
    s
}

fn subset(rng: &mut Rng, pool: &[&str], lo: u64, hi: u64) -> Vec<String> {
    let k = rng.range(lo, hi) as usize;
    let mut p: Vec<&str> = pool.to_vec();
    rng.shuffle(&mut p);
    sorted(p.into_iter().take(k).map(|s| s.to_string()).collect())
}

pub fn gen_receiver(rng: &mut Rng) -> (String, Vec<String>) {
    match rng.below(10) {
        0..=2 => ("group".into(), vec!["e20".into()]),
        3 => ("group".into(), vec!["e21".into()]),
        4 => ("group".into(), vec!["e20".into(), "e21".into()]),
        // every account (also the anonymous identity the LDAP gateway maps unix binds to)
        5..=6 => ("group".into(), vec![UUID_IDM_ALL_ACCOUNTS.to_string()]),
        7..=8 => ("mgr".into(), vec![]),
        _ => if rng.chance(1, 2) { ("group".into(), vec!["e22".into()]) } else { ("none".into(), vec![]) },
    }
}

pub fn gen_ents(rng: &mut Rng) -> J {
    let mut ents = Map::new();
    for n in VAR_ENTS {
        let mut a = Map::new();
        a.insert("description".into(), match rng.below(3) { 0 => json!([]), 1 => json!(["d1"]), _ => json!(["d2"]) });
        if n != 6 {
            a.insert("displayname".into(), match rng.below(3) { 0 => json!(["x1"]), 1 => json!(["x2"]), _ => if n == 3 { json!(["x3"]) } else { json!([]) } });
        }
        a.insert("entry_managed_by".into(), match rng.below(5) { 0 => json!(["e20"]), 1 => json!(["e21"]), 2 => json!(["e10"]), 3 => json!(["e12"]), _ => json!([]) });
        if n == 3 {
            a.insert("mail".into(), if rng.chance(1, 2) { json!(["m3@example.com"]) } else { json!([]) });
        }
        ents.insert(format!("e{n}"), J::Object(a));
    }
    J::Object(ents)
}

fn gen_cfg(rng: &mut Rng) -> J {
    let tg = targets();
    let nacp = rng.range(1, 4);
    let mut acps = Vec::new();
    for _ in 0..nacp {
        let (rk, rg) = gen_receiver(rng);
        let tgt = if rng.chance(1, 25) { json!({"t":"none"}) } else { rng.pick(&tg).clone() };
        let mut sa = subset(rng, &ATTRS, 1, 6);
        if rng.chance(1, 2) { sa.push("class".into()); sa = sorted(sa); }
        acps.push(json!({"en": true, "rk": rk, "rg": rg, "tgt": tgt, "srch": true, "sa": sa}));
    }
    if rng.chance(1, 4) && acps.len() < 4 {
        // a broad profile for every account, so that the LDAP gateway's anonymous-bounded identity sees something
        let mut sa: Vec<String> = ["class", "name", "spn", "uuid", "description", "displayname"].iter().map(|s| s.to_string()).collect();
        let drop = rng.below(8) as usize;
        if drop < sa.len() { sa.remove(drop); }
        acps.push(json!({"en": true, "rk": "group", "rg": [UUID_IDM_ALL_ACCOUNTS.to_string()],
            "tgt": if rng.chance(2, 3) { pres("class") } else { eq("description", "d1") }, "srch": true, "sa": sa}));
    }
    let o2g: Vec<&str> = match rng.below(4) { 0 => vec!["e20"], 1 => vec!["e21"], 2 => vec!["e22"], _ => vec!["e20", "e22"] };
    json!({"acps": acps, "ents": gen_ents(rng), "o2g": o2g})
}

pub fn run(o: &Opts) -> i32 {
    let out = o.str("out", "/verif/work/C23/obs.ndjson");
    let rt = runtime();
    rt.block_on(async {
        let mut tr = Tracer::create(&out);
        let qs = base_world().await;
        let (idms, _d, _a) = new_idms(qs.clone(), t(NOW - 1)).await;
        let ldaps = LdapServer::new(&idms).await.expect("ldap server");
        let mut rng = Rng::new(o.seed());
        // script: list of (cfg input, searches)
        let mut script: Vec<(J, Vec<J>)> = Vec::new();
        if let Some(rp) = o.get("replay") {
            for l in read_ndjson(rp) {
                match l["a"].as_str().unwrap_or("") {
                    "cfg" => script.push((l["in"].clone(), vec![])),
                    "search" => {
                        if script.is_empty() { script.push((json!({"acps": [], "ents": {}}), vec![])); }
                        script.last_mut().expect("cfg").1.push(l);
                    }
                    _ => {}
                }
            }
        } else {
            let ncfg = o.u64("configs", 30);
            let per = o.u64("searches", 120);
            let (rq, ra, ids) = (requests(), reqattrs(), idents());
            for _ in 0..ncfg {
                let cfg = gen_cfg(&mut rng);
                let mut ss = Vec::new();
                for _ in 0..per {
                    let kind = match rng.below(12) { 0..=5 => "ext", 6..=7 => "exists", 8..=9 => "recycle", 10 => "ldap", _ => "ldapcmp" };
                    let mut req = if kind == "exists" { json!("all") } else { rng.pick(&ra).clone() };
                    let mut f = rng.pick(&rq).clone();
                    let mut idd = rng.pick(&ids).clone();
                    if rng.chance(3, 5) {
                        // aimed request: filter attributes inside one profile's attribute set, identity among
                        // the usual receivers, requested attributes overlapping the profile's
                        let acps = cfg["acps"].as_array().cloned().unwrap_or_default();
                        let p = rng.pick(&acps).clone();
                        let sa = set_of(&strs(&p["sa"]));
                        let fit: Vec<&J> = rq.iter().filter(|q| filter_attrs(q).is_subset(&sa)).collect();
                        if !fit.is_empty() { f = (*rng.pick(&fit)).clone(); }
                        idd = rng.pick(&ids[..5]).clone();
                        if kind != "exists" && rng.chance(1, 2) {
                            let mut v: Vec<String> = sa.iter().cloned().collect();
                            rng.shuffle(&mut v);
                            v.truncate(2);
                            if rng.chance(1, 2) { v.push("description".into()); }
                            req = json!(sorted(v));
                        }
                    }
                    if kind == "ldap" || kind == "ldapcmp" {
                        // LDAP has no "self" term; attribute lists are explicit native names
                        let nos: Vec<&J> = rq.iter().filter(|q| ast_to_ldap(q).is_some()).collect();
                        if ast_to_ldap(&f).is_none() { f = (*rng.pick(&nos)).clone(); }
                        if !req.is_array() { req = json!(["name", "class", "description", "uuid"]); }
                        let idd = json!({"u": rng.pick(&["e10", "e12", "e3"]), "scope": "ro"});
                        if kind == "ldap" {
                            ss.push(json!({"kind": kind, "idd": idd, "f": f, "req": req}));
                        } else {
                            let t = rng.pick(&["e1", "e2", "e3", "e6", "e10", "e30", "e4"]);
                            let (atype, val) = rng.pick(&[("description", "d1"), ("description", "d2"), ("displayname", "x1"), ("name", "n1"), ("class", "account"), ("class", "group")]);
                            ss.push(json!({"kind": kind, "idd": idd, "t": t, "atype": atype, "val": val, "req": []}));
                        }
                        continue;
                    }
                    ss.push(json!({"kind": kind, "idd": idd, "f": f, "req": req}));
                }
                script.push((cfg, ss));
            }
        }
        for (k, (cfg, ss)) in script.iter().enumerate() {
            if let Err(e) = apply_cfg(&qs, k as u64, cfg).await {
                eprintln!("TOOL-ERROR cannot apply configuration {k}: {e}");
                return 2;
            }
            let mut extra = BTreeSet::new();
            let mut obs: Vec<J> = Vec::new();
            for s in ss.iter() {
                if s["kind"].as_str().unwrap_or("").starts_with("ldap") {
                    obs.push(do_ldap(&idms, &ldaps, s, &mut extra).await);
                } else {
                    let mut rd = qs.read().await.expect("read");
                    obs.push(do_search(&mut rd, s, &mut extra));
                }
            }
            let mut rd = qs.read().await.expect("read");
            let acps = proj_acps(&mut rd);
            tr.emit(&json!({"a":"cfg","n":k,"in":cfg,"acps":acps,"ents":proj_ents(&mut rd, &extra)}));
            for l in obs { tr.emit(&l); }
        }
        let _ = BTreeMap::<u8, u8>::new();
        println!("OBSERVED lines={} out={out}", tr.finish());
        0
    })
}
