//! Shared world for the access-control drivers: a REAL in-memory QueryServer, model-name <-> uuid
//! mapping, projections (entries, ACP entries, identities) into the JSON shapes KAccess*.tla read,
//! and conversion of the model filter AST to the real protocol filter.
#![allow(dead_code)]
use kanidmd_lib::prelude::*;
use kanidmd_lib::verif::access as ka;
use kanidmd_lib::{filter, filter_all};
use kvc::srv::*;
use serde_json::{json, Map, Value as J};
use std::collections::BTreeSet;
use std::sync::Arc;

/// reserved (system) range uuids used for model "built-in" entries: b<N>
pub const SYS_BASE: u128 = 0x0000_0000_0000_0000_0000_fffe_0000_0000u128;

pub fn nm(u: Uuid) -> String {
    let v = u.as_u128();
    if (SYS_BASE..SYS_BASE + 1000).contains(&v) {
        format!("b{}", v - SYS_BASE)
    } else {
        name_of(u)
    }
}
pub fn un(s: &str) -> Uuid {
    if let Some(n) = s.strip_prefix('e').and_then(|x| x.parse::<u64>().ok()) {
        return uuid_e(n);
    }
    if let Some(n) = s.strip_prefix('b').and_then(|x| x.parse::<u128>().ok()) {
        return Uuid::from_u128(SYS_BASE + n);
    }
    Uuid::parse_str(s).unwrap_or_else(|_| panic!("bad model id {s}"))
}
/// a value string: uuids become model names, long values are cut
pub fn vstr(s: &str) -> String {
    if s.len() == 36 {
        if let Ok(u) = Uuid::parse_str(s) {
            return nm(u);
        }
    }
    if s.len() > 72 {
        let mut k = 72;
        while !s.is_char_boundary(k) {
            k -= 1;
        }
        return s[..k].to_string();
    }
    s.to_string()
}
pub fn strs(v: &J) -> Vec<String> {
    v.as_array().map(|a| a.iter().filter_map(|x| x.as_str().map(|s| s.to_string())).collect()).unwrap_or_default()
}

// ------------------------------------------------------------------ filters
/// model filter AST -> protocol filter (what a client sends / what an ACP entry stores)
pub fn ast_to_proto(f: &J) -> ProtoFilter {
    let val = |v: &J| -> String {
        let s = v.as_str().unwrap_or("");
        // model entry names stand for uuids
        let is_name = (s.starts_with('e') || s.starts_with('b')) && s.len() > 1 && s[1..].chars().all(|c| c.is_ascii_digit());
        if is_name { un(s).to_string() } else { s.to_string() }
    };
    match f["t"].as_str().unwrap_or("") {
        "eq" => ProtoFilter::Eq(f["a"].as_str().unwrap_or("").to_string(), val(&f["v"])),
        "pres" => ProtoFilter::Pres(f["a"].as_str().unwrap_or("").to_string()),
        "self" => ProtoFilter::SelfUuid,
        "and" => ProtoFilter::And(f["s"].as_array().map(|a| a.iter().map(ast_to_proto).collect()).unwrap_or_default()),
        "or" => ProtoFilter::Or(f["s"].as_array().map(|a| a.iter().map(ast_to_proto).collect()).unwrap_or_default()),
        "andnot" => ProtoFilter::AndNot(Box::new(ast_to_proto(&f["f"]))),
        other => panic!("unknown filter node {other}"),
    }
}
/// protocol filter (as stored in an ACP entry) -> model AST
pub fn proto_to_ast(pf: &ProtoFilter) -> J {
    match pf {
        ProtoFilter::Eq(a, v) => json!({"t":"eq","a":a.to_lowercase(),"v":vstr(&v.to_lowercase())}),
        ProtoFilter::Cnt(a, v) => json!({"t":"cnt","a":a.to_lowercase(),"v":v}),
        ProtoFilter::Pres(a) => json!({"t":"pres","a":a.to_lowercase()}),
        ProtoFilter::Or(v) => json!({"t":"or","s":v.iter().map(proto_to_ast).collect::<Vec<_>>()}),
        ProtoFilter::And(v) => json!({"t":"and","s":v.iter().map(proto_to_ast).collect::<Vec<_>>()}),
        ProtoFilter::AndNot(b) => json!({"t":"andnot","f":proto_to_ast(b)}),
        ProtoFilter::SelfUuid => json!({"t":"self"}),
    }
}

// ------------------------------------------------------------------ projections
/// One stored entry: liveness, reserved-range flag, every attribute as strings, oauth2 scope-map groups.
pub fn proj_entry(e: &EntrySealedCommitted) -> J {
    let mut attrs = Map::new();
    for (a, vs) in e.get_ava_iter() {
        let an = a.as_str();
        // values that depend on the random server uuid / random keys are normalised so that logs are
        // reproducible: change ids keep their timestamp, key material and keyed hashes become "<set>"
        let mut v: Vec<String> = if an == "key_internal_data" || an == "name_history" || an.contains("private_key") || an.contains("secret") {
            vec!["<set>".to_string()]
        } else if an.ends_with("_cid") {
            vs.to_proto_string_clone_iter().map(|s| s.chars().take(32).collect()).collect()
        } else {
            vs.to_proto_string_clone_iter().map(|s| vstr(&s)).collect()
        };
        v.sort();
        v.dedup();
        attrs.insert(a.to_string(), json!(v));
    }
    let mut o2g: Vec<String> = e
        .get_ava_as_oauthscopemaps(Attribute::OAuth2RsScopeMap)
        .map(|m| m.keys().map(|k| nm(*k)).collect())
        .unwrap_or_default();
    o2g.sort();
    json!({"live": liveness(e), "sys": e.get_uuid() < DYNAMIC_RANGE_MINIMUM_UUID, "attrs": attrs, "o2g": o2g})
}

fn iutf8(e: &EntrySealedCommitted, a: Attribute) -> Vec<String> {
    let mut v: Vec<String> = e.get_ava_iter_iutf8(a).map(|i| i.map(|s| s.to_string()).collect()).unwrap_or_default();
    v.sort();
    v
}

/// Every ENABLED access control profile entry of the server, read back from the stored entries
/// (so what is logged is the configuration the server itself parses at commit).
pub fn proj_acps<'a, T: QueryServerTransaction<'a>>(txn: &mut T) -> Vec<J> {
    let f = filter!(f_eq(Attribute::Class, EntryClass::AccessControlProfile.into()));
    let mut es = txn.internal_search(f).expect("acp search");
    es.sort_by_key(|e| e.get_uuid());
    let mut out = Vec::new();
    for e in es {
        if e.get_ava_single_bool(Attribute::AcpEnable) == Some(false) {
            continue;
        }
        let has = |c: EntryClass| e.attribute_equality(Attribute::Class, &c.into());
        let (rk, rg): (&str, Vec<String>) = if has(EntryClass::AccessControlReceiverGroup) {
            match e.get_ava_refer(Attribute::AcpReceiverGroup) {
                Some(s) => ("group", s.iter().map(|u| nm(*u)).collect()),
                None => ("bad", vec![]),
            }
        } else if has(EntryClass::AccessControlReceiverEntryManager) {
            ("mgr", vec![])
        } else {
            ("none", vec![])
        };
        let tgt = if has(EntryClass::AccessControlTargetScope) {
            match e.get_ava_single_protofilter(Attribute::AcpTargetScope) {
                Some(pf) => proto_to_ast(pf),
                None => json!({"t":"bad"}),
            }
        } else {
            json!({"t":"none"})
        };
        let mc = iutf8(&e, Attribute::AcpModifyClass);
        let pc = if e.get_ava_set(Attribute::AcpModifyPresentClass).is_some() { iutf8(&e, Attribute::AcpModifyPresentClass) } else { mc.clone() };
        let rc = if e.get_ava_set(Attribute::AcpModifyRemoveClass).is_some() { iutf8(&e, Attribute::AcpModifyRemoveClass) } else { mc };
        out.push(json!({
            "n": e.get_ava_set(Attribute::Name).and_then(|vs| vs.to_proto_string_clone_iter().next()).unwrap_or_default(),
            "rk": rk, "rg": rg, "tgt": tgt,
            "srch": has(EntryClass::AccessControlSearch), "sa": iutf8(&e, Attribute::AcpSearchAttr),
            "mod": has(EntryClass::AccessControlModify),
            "pa": iutf8(&e, Attribute::AcpModifyPresentAttr), "ra": iutf8(&e, Attribute::AcpModifyRemovedAttr),
            "pc": pc, "rc": rc,
            "cre": has(EntryClass::AccessControlCreate), "ca": iutf8(&e, Attribute::AcpCreateAttr), "cc": iutf8(&e, Attribute::AcpCreateClass),
            "del": has(EntryClass::AccessControlDelete),
        }));
    }
    out
}

/// The identity as the models see it.
pub fn proj_ident(id: &Identity) -> J {
    let scope = match id.access_scope() {
        AccessScope::ReadOnly => "ro",
        AccessScope::ReadWrite => "rw",
        AccessScope::Synchronise => "sync",
    };
    match &id.origin {
        IdentType::User(u) => {
            let e = &u.entry;
            let mut mo: Vec<String> = e.get_ava_refer(Attribute::MemberOf).map(|s| s.iter().map(|u| nm(*u)).collect()).unwrap_or_default();
            mo.sort();
            let mut cls: Vec<String> = e.get_ava_as_iutf8(Attribute::Class).map(|s| s.iter().cloned().collect()).unwrap_or_default();
            cls.sort();
            let spu: Vec<String> = e.get_ava_single_refer(Attribute::SyncParentUuid).map(|u| vec![nm(u)]).unwrap_or_default();
            json!({"u": nm(e.get_uuid()), "mo": mo, "scope": scope, "origin": "user",
                   "anon": e.get_uuid() == UUID_ANONYMOUS, "cls": cls, "spu": spu})
        }
        IdentType::Synch(u) => json!({"u": nm(*u), "mo": [], "scope": scope, "origin": "sync", "anon": false, "cls": [], "spu": []}),
        IdentType::Internal(_) => json!({"u": "internal", "mo": [], "scope": scope, "origin": "internal", "anon": false, "cls": [], "spu": []}),
    }
}

/// identity description used in scripts / replays: {"u":"e10","scope":"rw"} or {"synch":"e50","scope":"sync"}
pub fn mk_ident<'a, T: QueryServerTransaction<'a>>(txn: &mut T, d: &J) -> Option<Identity> {
    let scope = match d["scope"].as_str().unwrap_or("rw") {
        "ro" => AccessScope::ReadOnly,
        "sync" => AccessScope::Synchronise,
        _ => AccessScope::ReadWrite,
    };
    if let Some(s) = d["synch"].as_str() {
        return Some(ka::ident_synch(un(s), scope));
    }
    let u = un(d["u"].as_str()?);
    let e: Arc<EntrySealedCommitted> = txn.internal_search_uuid(u).ok()?;
    Some(ka::ident_user(e, scope))
}

// ------------------------------------------------------------------ ACP entries
fn class_list(spec: &J) -> Vec<&'static str> {
    let mut c = vec!["object", "access_control_profile"];
    match spec["rk"].as_str().unwrap_or("none") {
        "group" => c.push("access_control_receiver_group"),
        "mgr" => c.push("access_control_receiver_entry_manager"),
        _ => {}
    }
    if spec["tgt"]["t"].as_str().unwrap_or("none") != "none" {
        c.push("access_control_target_scope");
    }
    if spec["srch"].as_bool().unwrap_or(false) { c.push("access_control_search"); }
    if spec["mod"].as_bool().unwrap_or(false) { c.push("access_control_modify"); }
    if spec["cre"].as_bool().unwrap_or(false) { c.push("access_control_create"); }
    if spec["del"].as_bool().unwrap_or(false) { c.push("access_control_delete"); }
    c
}

/// (attribute, values) content of an ACP entry for a model profile spec (same shape as proj_acps yields,
/// plus "en": false to disable the slot).
pub fn acp_content(spec: &J) -> Vec<(Attribute, Vec<Value>)> {
    let mut out: Vec<(Attribute, Vec<Value>)> = Vec::new();
    out.push((Attribute::Class, class_list(spec).into_iter().map(Value::new_iutf8).collect()));
    out.push((Attribute::AcpEnable, vec![Value::Bool(spec["en"].as_bool().unwrap_or(true))]));
    out.push((Attribute::AcpReceiverGroup, if spec["rk"] == "group" { strs(&spec["rg"]).iter().map(|g| Value::Refer(un(g))).collect() } else { vec![] }));
    out.push((Attribute::AcpTargetScope, if spec["tgt"]["t"].as_str().unwrap_or("none") != "none" { vec![Value::new_json_filter(ast_to_proto(&spec["tgt"]))] } else { vec![] }));
    // the attributes of a kind are only legal (schema) when the kind's class is present
    let iu = |flag: &str, k: &str| -> Vec<Value> {
        if spec[flag].as_bool().unwrap_or(false) { strs(&spec[k]).iter().map(|s| Value::new_iutf8(s)).collect() } else { vec![] }
    };
    out.push((Attribute::AcpSearchAttr, iu("srch", "sa")));
    out.push((Attribute::AcpModifyPresentAttr, iu("mod", "pa")));
    out.push((Attribute::AcpModifyRemovedAttr, iu("mod", "ra")));
    out.push((Attribute::AcpModifyPresentClass, iu("mod", "pc")));
    out.push((Attribute::AcpModifyRemoveClass, iu("mod", "rc")));
    out.push((Attribute::AcpCreateAttr, iu("cre", "ca")));
    out.push((Attribute::AcpCreateClass, iu("cre", "cc")));
    out
}

pub fn acp_create(wr: &mut QueryServerWriteTransaction<'_>, uuid: Uuid, name: &str, spec: &J) -> Result<(), OperationError> {
    let mut e = EntryInitNew::default();
    e.set_ava(Attribute::Uuid, [Value::Uuid(uuid)]);
    e.set_ava(Attribute::Name, [Value::new_iname(name)]);
    for (a, vs) in acp_content(spec) {
        if !vs.is_empty() {
            e.set_ava(a, vs);
        }
    }
    wr.internal_create(vec![e])
}
pub fn acp_update(wr: &mut QueryServerWriteTransaction<'_>, uuid: Uuid, spec: &J) -> Result<(), OperationError> {
    let mut mods = Vec::new();
    for (a, vs) in acp_content(spec) {
        if a == Attribute::Class {
            // class can not be purged (even internally): remove the optional classes that are not wanted
            let want: Vec<String> = class_list(spec).iter().map(|s| s.to_string()).collect();
            for c in ["access_control_receiver_group", "access_control_receiver_entry_manager", "access_control_target_scope",
                      "access_control_search", "access_control_modify", "access_control_create", "access_control_delete"] {
                if want.iter().any(|w| w == c) {
                    mods.push(Modify::Present(Attribute::Class, Value::new_iutf8(c)));
                } else {
                    mods.push(Modify::Removed(Attribute::Class, PartialValue::new_iutf8(c)));
                }
            }
            continue;
        }
        mods.push(Modify::Purged(a.clone()));
        for v in vs {
            mods.push(Modify::Present(a.clone(), v));
        }
    }
    wr.internal_modify_uuid(uuid, &ModifyList::new_list(mods))
}

// ------------------------------------------------------------------ server
/// Fresh default server; optionally with every shipped access control profile removed so that the
/// only grants are the ones the driver configures.
pub async fn new_world(strip_default_acps: bool) -> QueryServer {
    let qs = new_qs(t(0)).await;
    if strip_default_acps {
        let mut wr = qs.write(t(1)).await.expect("write");
        let f = filter!(f_eq(Attribute::Class, EntryClass::AccessControlProfile.into()));
        wr.internal_delete(&f).expect("delete default acps");
        wr.commit().expect("commit");
    }
    qs
}

pub fn res_class(r: &Result<(), OperationError>) -> String {
    match r {
        Ok(()) => "ok".to_string(),
        Err(OperationError::AccessDenied) => "denied".to_string(),
        Err(OperationError::NoMatchingEntries) => "nomatch".to_string(),
        Err(e) => {
            let s = format!("{e:?}");
            let s: String = s.chars().filter(|c| c.is_ascii_alphanumeric()).take(40).collect();
            format!("err_{s}")
        }
    }
}

/// The backend candidate set of a request filter resolved for `ident` (what `search` hands to the
/// access-control step): same resolve + backend search calls as QueryServerTransaction::search.
pub fn be_candidates<'a, T: QueryServerTransaction<'a>>(txn: &mut T, ident: &Identity, f: &Filter<FilterValid>) -> Vec<Arc<EntrySealedCommitted>> {
    use kanidmd_lib::be::{BackendTransaction, Limits};
    let vfr = {
        let (be, cache) = txn.get_resolve_filter_cache_and_be_txn();
        let idxmeta = be.get_idxmeta_ref();
        match f.resolve(ident, Some(idxmeta), cache) {
            Ok(v) => v,
            Err(_) => return vec![],
        }
    };
    let mut v = txn.get_be_txn().search(&Limits::unlimited(), &vfr).unwrap_or_default();
    v.sort_by_key(|e| e.get_uuid());
    v
}

pub fn sorted(mut v: Vec<String>) -> Vec<String> {
    v.sort();
    v.dedup();
    v
}
pub fn set_of(v: &[String]) -> BTreeSet<String> {
    v.iter().cloned().collect()
}
pub fn unused() {
    let _ = filter_all!(f_pres(Attribute::Class));
}
