//! C25: the SHIPPED access controls on a fresh default server.
//!  * `acp-extract --out F` writes ONE json line: every enabled profile entry read back from the server
//!    (receiver groups, target filter AST, attribute / class sets), the built-in group graph (for every
//!    built-in static group: itself + its memberof), the memberships every person has anyway, the
//!    high-privilege group, the target entries (high-privilege: admin, idm_admin, a person, a service
//!    account and a group placed in idm_high_privilege, idm_admins, the HP group itself; ordinary: a
//!    person, a service account, a group). KAccessDefMC.tla enumerates role subsets over it.
//!  * `c25 --out F` starts the same server, emits the same line as {"a":"cfg",..}, then for every
//!    role set of the script places a REAL user in those groups (committed) and attempts REAL
//!    modifies of every sensitive attribute on every target:
//!    {"a":"op","op":"modify","roles":[..],"t":target,"id":..,"f":..,"ml":..,"m":..,"res":..,"post":..}
use crate::c23::{eq, plain};
use crate::c24::do_op;
use crate::world::*;
use kanidmd_lib::prelude::*;
use kanidmd_lib::filter;
use kvc::srv::*;
use kvc::util::*;
use serde_json::{json, Map, Value as J};
use std::collections::{BTreeMap, BTreeSet};

pub const PROBE: u64 = 100;
const T_SETUP: u64 = 50;

pub struct Setup {
    pub cfg: J,
    pub roles: Vec<String>,      // all built-in static groups (ids)
    pub nonhp_roles: Vec<String>, // those whose upward closure avoids the HP group
    pub thp: Vec<String>,
    pub tnon: Vec<String>,
}

fn add_member(wr: &mut QueryServerWriteTransaction<'_>, g: Uuid, m: Uuid) {
    wr.internal_modify_uuid(g, &ModifyList::new_list(vec![Modify::Present(Attribute::Member, Value::Refer(m))])).expect("add member");
}

pub async fn default_world() -> (QueryServer, Setup) {
    let qs = new_world(false).await;
    let hp = UUID_IDM_HIGH_PRIVILEGE;
    let mut wr = qs.write(t(T_SETUP)).await.expect("write");
    let dn = |s: &str| vec![Value::new_utf8s(s)];
    let person = |n: u64| plain(n, &["object", "account", "person"], vec![(Attribute::DisplayName, dn(&format!("x{n}"))), (Attribute::Description, dn("d1"))]);
    let svc = |n: u64| plain(n, &["object", "account", "service_account"], vec![(Attribute::DisplayName, dn(&format!("x{n}"))), (Attribute::Description, dn("d1")),
        (Attribute::EntryManagedBy, vec![Value::Refer(UUID_IDM_ADMINS)])]);
    let grp = |n: u64, mem: Vec<u64>| plain(n, &["object", "group"], vec![(Attribute::Description, dn("d1")), (Attribute::EntryManagedBy, vec![Value::Refer(UUID_IDM_ADMINS)]),
        (Attribute::Member, mem.into_iter().map(|m| Value::Refer(uuid_e(m))).collect())]);
    wr.internal_create(vec![person(PROBE), person(101), svc(102), person(103), grp(104, vec![103]), grp(105, vec![101]), svc(106)]).expect("create c25 population");
    for m in [101, 102, 105] {
        add_member(&mut wr, hp, uuid_e(m));
    }
    wr.commit().expect("commit");

    let mut rd = qs.read().await.expect("read");
    let acps = proj_acps(&mut rd);
    // built-in static groups and their upward closure (real memberof)
    let gs = rd.internal_search(filter!(f_eq(Attribute::Class, EntryClass::Group.into()))).expect("groups");
    let mut up = Map::new();
    let mut names = Map::new();
    let mut roles = Vec::new();
    let mut nonhp = Vec::new();
    for g in gs.iter() {
        let u = g.get_uuid();
        if u >= DYNAMIC_RANGE_MINIMUM_UUID || g.attribute_equality(Attribute::Class, &EntryClass::DynGroup.into()) {
            continue;
        }
        let mut c: BTreeSet<Uuid> = g.get_ava_refer(Attribute::MemberOf).cloned().unwrap_or_default();
        c.insert(u);
        up.insert(nm(u), json!(c.iter().map(|x| nm(*x)).collect::<Vec<_>>()));
        names.insert(nm(u), json!(g.get_ava_set(Attribute::Name).and_then(|v| v.to_proto_string_clone_iter().next()).unwrap_or_default()));
        roles.push(nm(u));
        if !c.contains(&hp) {
            nonhp.push(nm(u));
        }
    }
    let probe = rd.internal_search_uuid(uuid_e(PROBE)).expect("probe");
    let base: Vec<String> = probe.get_ava_refer(Attribute::MemberOf).map(|s| s.iter().map(|u| nm(*u)).collect()).unwrap_or_default();
    let thp: Vec<String> = vec![nm(UUID_ADMIN), nm(UUID_IDM_ADMIN), "e101".into(), "e102".into(), "e105".into(), nm(UUID_IDM_ADMINS), nm(hp)];
    let tnon: Vec<String> = vec!["e103".into(), "e104".into(), "e106".into()];
    let mut ents = Map::new();
    for id in thp.iter().chain(tnon.iter()).chain(["e100".to_string()].iter()) {
        let e = rd.internal_search_uuid(un(id)).expect("target");
        ents.insert(id.clone(), proj_entry(&e));
    }
    // sync agreements (none on a default server) are part of the entries the model looks at
    let cfg = json!({"a":"cfg","acps":acps,"ents":ents,"roles":roles,"nonhp":nonhp,"names":names,"up":up,"base":base,
                     "hp":nm(hp),"thp":thp,"tnon":tnon,"probe":"e100"});
    drop(rd);
    (qs, Setup { cfg, roles, nonhp_roles: nonhp, thp, tnon })
}

pub fn extract(o: &Opts) -> i32 {
    let out = o.str("out", "/verif/work/C25/defacp.json");
    runtime().block_on(async {
        let (_qs, s) = default_world().await;
        let mut tr = Tracer::create(&out);
        tr.emit(&s.cfg);
        tr.finish();
        println!("EXTRACTED profiles={} roles={} nonhp_roles={} out={out}", s.cfg["acps"].as_array().map(|a| a.len()).unwrap_or(0), s.roles.len(), s.nonhp_roles.len());
        0
    })
}

/// (kind, attribute, value) attempts for an account / a group target
fn attempts(target_is_group: bool, probe: &str) -> Vec<J> {
    let it = |k: &str, a: &str, v: Vec<&str>| json!([{"k": k, "a": a, "v": v}]);
    let mut v = Vec::new();
    if target_is_group {
        v.push(it("pres", "member", vec![probe]));
        v.push(it("purge", "member", vec![]));
        v.push(it("rem", "member", vec!["e101"]));
        for a in ["name", "description", "entry_managed_by", "mail"] {
            v.push(it("purge", a, vec![]));
        }
        v.push(json!([{"k":"purge","a":"description","v":[]},{"k":"pres","a":"description","v":["d9"]}]));
    } else {
        for a in ["primary_credential", "passkeys", "attested_passkeys", "unix_password", "radius_secret", "ssh_publickey",
                  "credential_update_intent_token", "api_token_session", "user_auth_token_session", "oauth2_session",
                  "name", "displayname", "legalname", "mail", "account_expire", "account_valid_from", "gidnumber", "loginshell",
                  "entry_managed_by", "description", "oauth2_consent_scope_map"] {
            v.push(it("purge", a, vec![]));
        }
        v.push(json!([{"k":"purge","a":"displayname","v":[]},{"k":"pres","a":"displayname","v":["x9"]}]));
        v.push(it("pres", "legalname", vec!["l9"]));
        v.push(it("pres", "mail", vec!["m9@example.com"]));
        v.push(it("pres", "account_expire", vec!["2030-01-01T00:00:00Z"]));
        v.push(it("pres", "account_valid_from", vec!["2020-01-01T00:00:00Z"]));
        v.push(json!([{"k":"purge","a":"name","v":[]},{"k":"pres","a":"name","v":["renamed"]}]));
        v.push(it("pres", "loginshell", vec!["/bin/zsh"]));
    }
    v
}

async fn set_roles(qs: &QueryServer, at: u64, all_roles: &[String], want: &BTreeSet<String>) -> Result<(), String> {
    let mut wr = qs.write(t(at)).await.map_err(|e| format!("{e:?}"))?;
    for g in all_roles {
        let gu = un(g);
        let ge = wr.internal_search_uuid(gu).map_err(|e| format!("{e:?}"))?;
        let has = ge.get_ava_refer(Attribute::Member).map(|s| s.contains(&uuid_e(PROBE))).unwrap_or(false);
        if want.contains(g) && !has {
            wr.internal_modify_uuid(gu, &ModifyList::new_list(vec![Modify::Present(Attribute::Member, Value::Refer(uuid_e(PROBE)))])).map_err(|e| format!("add {g}: {e:?}"))?;
        } else if !want.contains(g) && has {
            wr.internal_modify_uuid(gu, &ModifyList::new_list(vec![Modify::Removed(Attribute::Member, PartialValue::Refer(uuid_e(PROBE)))])).map_err(|e| format!("rem {g}: {e:?}"))?;
        }
    }
    wr.commit().map_err(|e| format!("{e:?}"))
}

pub fn run(o: &Opts) -> i32 {
    let out = o.str("out", "/verif/work/C25/obs.ndjson");
    runtime().block_on(async {
        let (qs, s) = default_world().await;
        let mut tr = Tracer::create(&out);
        tr.emit(&s.cfg);
        let mut rng = Rng::new(o.seed());
        // role sets: from a replay file, or: every single role, pairs / all subsets of the non-HP roles, the full non-HP set
        let mut sets: Vec<(BTreeSet<String>, Option<Vec<J>>)> = Vec::new();
        if let Some(rp) = o.get("replay") {
            let mut cur: Option<(BTreeSet<String>, Vec<J>)> = None;
            for l in read_ndjson(rp) {
                if l["a"] != "op" { continue; }
                let rs: BTreeSet<String> = strs(&l["roles"]).into_iter().collect();
                match &mut cur {
                    Some((c, v)) if *c == rs => v.push(l),
                    _ => {
                        if let Some((c, v)) = cur.take() { sets.push((c, Some(v))); }
                        cur = Some((rs, vec![l]));
                    }
                }
            }
            if let Some((c, v)) = cur.take() { sets.push((c, Some(v))); }
        } else {
            let nh = &s.nonhp_roles;
            let full: BTreeSet<String> = nh.iter().cloned().collect();
            sets.push((BTreeSet::new(), None));
            sets.push((full, None));
            let maxsub = o.u64("subsets", 2);
            let k = nh.len();
            for mask in 1u64..(1u64 << k.min(16)) {
                let c = mask.count_ones() as u64;
                if c <= maxsub || (maxsub >= 99) {
                    sets.push(((0..k).filter(|i| mask >> i & 1 == 1).map(|i| nh[i].clone()).collect(), None));
                }
            }
            // users who ARE high privilege (guard against vacuity: they do get grants)
            let hp_roles: Vec<&String> = s.roles.iter().filter(|r| !nh.contains(r)).collect();
            let nhp = o.u64("hproles", 6) as usize;
            let mut pick: Vec<&String> = hp_roles.clone();
            rng.shuffle(&mut pick);
            for r in pick.into_iter().take(nhp) {
                sets.push(([r.clone()].into_iter().collect(), None));
            }
        }
        let mut at = 1000;
        for (roles, script) in sets {
            at += 10;
            if let Err(e) = set_roles(&qs, at, &s.roles, &roles).await {
                eprintln!("TOOL-ERROR cannot place the probe user in {roles:?}: {e}");
                return 2;
            }
            let rl: Vec<String> = roles.iter().cloned().collect();
            let mut lines: Vec<J> = Vec::new();
            match script {
                Some(v) => lines = v,
                None => {
                    for tid in s.thp.iter().chain(s.tnon.iter()) {
                        let is_group = s.cfg["ents"][tid]["attrs"]["class"].as_array().map(|a| a.iter().any(|c| c == "group")).unwrap_or(false);
                        for ml in attempts(is_group, "e100") {
                            lines.push(json!({"op":"modify","idd":{"u":"e100","scope":"rw"},"f":eq("uuid", tid),"ml":ml,"t":tid}));
                        }
                    }
                }
            }
            for l in lines {
                let mut obs = do_op(&qs, at + 5, &l).await;
                obs["roles"] = json!(rl);
                obs["t"] = l["t"].clone();
                tr.emit(&obs);
            }
        }
        let _ = BTreeMap::<u8, u8>::new();
        println!("OBSERVED lines={} out={out}", tr.finish());
        0
    })
}
