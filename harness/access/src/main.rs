//! Group driver: runs the REAL kanidm code and records observed traces (ndjson) which TLC
//! validates against the TLA+ specifications in /verif/spec. See /verif/DESIGN.md.
use kvc::util::Opts;
mod world;
mod c23;
mod c24;
mod c25;
mod c50;

fn main() {
    let args: Vec<String> = std::env::args().collect();
    if args.len() < 2 {
        eprintln!("usage: {} <subcommand> [--key value ...]", args[0]);
        std::process::exit(2);
    }
    let opts = Opts::parse(&args[2..]);
    let rc = match args[1].as_str() {
        "c23" => c23::run(&opts),
        "c24" => c24::run(&opts),
        "c25" => c25::run(&opts),
        "c50" => c50::run(&opts),
        "acp-extract" => c25::extract(&opts),
        other => {
            eprintln!("unknown subcommand {other}");
            2
        }
    };
    std::process::exit(rc);
}
