//! Server construction and storage transitions shared by the store-group drivers.
//! Everything here drives the REAL kanidm APIs the way kanidmd does (server/core/src/lib.rs).
#![allow(dead_code)]
use kanidm_proto::backup::BackupCompression;
use kanidm_proto::internal::FsType;
use kanidmd_lib::be::{Backend, BackendConfig, BackendTransaction};
use kanidmd_lib::prelude::*;
use kanidmd_lib::repl::proto::{ConsumerState, ReplIncrementalContext, ReplRefreshContext, ReplRuvRange};
use kanidmd_lib::schema::Schema;
use std::time::Duration;

pub fn new_backend() -> (Backend, Schema) {
    let schema = Schema::new().expect("schema");
    let idxmeta = {
        let w = schema.write();
        w.reload_idxmeta()
    };
    let cfg = BackendConfig::new(None, 1, FsType::Generic, Some(2048));
    let be = Backend::new(cfg, idxmeta, false).expect("backend");
    (be, schema)
}

/// QueryServer over a backend, initialised exactly like `setup_qs_idms` does.
pub async fn qs_over(be: Backend, schema: Schema, at: Duration, level: DomainVersion) -> Result<QueryServer, OperationError> {
    let qs = QueryServer::new(be, schema, "example.com".to_string(), at)?;
    qs.initialise_helper(at, level).await?;
    Ok(qs)
}

pub async fn fresh(at: Duration) -> QueryServer {
    sketching::test_init();
    let (be, schema) = new_backend();
    qs_over(be, schema, at, DOMAIN_TGT_LEVEL).await.expect("fresh server")
}

pub async fn fresh_level(at: Duration, level: DomainVersion) -> QueryServer {
    sketching::test_init();
    let (be, schema) = new_backend();
    qs_over(be, schema, at, level).await.expect("fresh server")
}

pub fn comp(gz: bool) -> BackupCompression {
    if gz {
        BackupCompression::Gzip
    } else {
        BackupCompression::NoCompression
    }
}

/// Backup of a running server into a buffer (what `kanidmd database backup` does on a read txn).
pub async fn backup(qs: &QueryServer, gz: bool) -> Result<Vec<u8>, OperationError> {
    let mut txn = qs.read().await?;
    let mut buf: Vec<u8> = Vec::new();
    txn.get_be_txn().backup(&mut buf, comp(gz))?;
    Ok(buf)
}

pub fn new_backend_file(path: &std::path::Path) -> Result<(Backend, Schema), OperationError> {
    let schema = Schema::new()?;
    let idxmeta = {
        let w = schema.write();
        w.reload_idxmeta()
    };
    let cfg = BackendConfig::new(Some(path), 1, FsType::Generic, Some(2048));
    let be = Backend::new(cfg, idxmeta, false)?;
    Ok((be, schema))
}

static DBSEQ: std::sync::atomic::AtomicU64 = std::sync::atomic::AtomicU64::new(0);
/// A fresh database file path under /tmp/store-<pid>/ (removed by `cleanup_dbfiles`).
pub fn new_dbfile() -> std::path::PathBuf {
    let d = std::path::PathBuf::from(format!("/tmp/store-{}", std::process::id()));
    let _ = std::fs::create_dir_all(&d);
    let n = DBSEQ.fetch_add(1, std::sync::atomic::Ordering::SeqCst);
    d.join(format!("r{n}.db"))
}
pub fn remove_dbfile(p: &std::path::Path) {
    for suf in ["", "-wal", "-shm"] {
        let _ = std::fs::remove_file(format!("{}{}", p.display(), suf));
    }
}
pub fn cleanup_dbfiles() {
    let _ = std::fs::remove_dir_all(format!("/tmp/store-{}", std::process::id()));
}

/// Restore as `kanidmd database restore` does and then start the server as the NEXT process start does:
///   process 1: open the (empty, file backed) DB, `restore`, commit, reindex (backend), start a query server, reindex;
///   process 2: open the DB file again (this is where the in-memory RUV is rebuilt from the entries), start the server.
/// Returns the running server of "process 2" and the DB file (the caller removes it).
pub async fn restore(buf: &[u8], gz: bool, at: Duration) -> Result<(QueryServer, std::path::PathBuf), OperationError> {
    let path = new_dbfile();
    {
        let (be, schema) = new_backend_file(&path)?;
        {
            let mut w = be.write()?;
            w.restore(std::io::Cursor::new(buf), comp(gz))?;
            w.commit()?;
        }
        {
            let mut w = be.write()?;
            w.reindex(false)?;
            w.commit()?;
        }
        let qs = qs_over(be, schema, at, DOMAIN_TGT_LEVEL).await?;
        {
            let mut w = qs.write(at).await?;
            w.reindex(false)?;
            w.commit()?;
        }
    }
    let (be, schema) = new_backend_file(&path)?;
    let qs = qs_over(be, schema, at + Duration::from_secs(1), DOMAIN_TGT_LEVEL).await?;
    Ok((qs, path))
}

/// Restore only (backend level), no reindex / server start: used to observe refusal.
pub fn restore_be_only(buf: &[u8], gz: bool) -> Result<Backend, OperationError> {
    let (be, _schema) = new_backend();
    {
        let mut w = be.write()?;
        w.restore(std::io::Cursor::new(buf), comp(gz))?;
        w.commit()?;
    }
    Ok(be)
}

/// Full refresh of `to` from `from`; the context travels through its JSON wire text.
pub async fn refresh(from: &QueryServer, to: &QueryServer, at: Duration) -> Result<(), OperationError> {
    let ctx = {
        let mut r = from.read().await?;
        r.supplier_provide_refresh()?
    };
    let wire = serde_json::to_vec(&ctx).map_err(|_| OperationError::SerdeJsonError)?;
    let ctx: ReplRefreshContext = serde_json::from_slice(&wire).map_err(|_| OperationError::SerdeJsonError)?;
    let mut w = to.write(at).await?;
    w.consumer_apply_refresh(ctx)?;
    w.commit()
}

/// One incremental replication `from` -> `to`; the context travels through its JSON wire text.
/// Returns the class of the supplier answer.
pub async fn incremental(from: &QueryServer, to: &QueryServer, at: Duration) -> Result<&'static str, OperationError> {
    let mut w = to.write(at).await?;
    let state: ReplRuvRange = w.consumer_get_state()?;
    let wire = serde_json::to_vec(&state).map_err(|_| OperationError::SerdeJsonError)?;
    let state: ReplRuvRange = serde_json::from_slice(&wire).map_err(|_| OperationError::SerdeJsonError)?;
    let ctx = {
        let mut r = from.read().await?;
        r.supplier_provide_changes(state)?
    };
    let wire = serde_json::to_vec(&ctx).map_err(|_| OperationError::SerdeJsonError)?;
    let ctx: ReplIncrementalContext = serde_json::from_slice(&wire).map_err(|_| OperationError::SerdeJsonError)?;
    let class = match &ctx {
        ReplIncrementalContext::DomainMismatch => "domainmismatch",
        ReplIncrementalContext::NoChangesAvailable => "nochanges",
        ReplIncrementalContext::RefreshRequired => "refreshrequired",
        ReplIncrementalContext::UnwillingToSupply => "unwilling",
        ReplIncrementalContext::V1 { .. } => "changes",
    };
    match w.consumer_apply_changes(ctx)? {
        ConsumerState::Ok => {}
        ConsumerState::RefreshRequired => return Ok("consumer-refreshrequired"),
    }
    w.commit()?;
    Ok(class)
}

pub fn opres<T>(r: &Result<T, OperationError>) -> String {
    match r {
        Ok(_) => "ok".to_string(),
        Err(e) => format!("err:{e:?}"),
    }
}

/// Drop every backend cache (entry / idl / name caches) in a write transaction at simulated time
/// (`QueryServer::clear_cache` would read the wall clock).
pub async fn clear_cache(qs: &QueryServer, at: Duration) -> Result<(), OperationError> {
    let mut w = qs.write(at).await?;
    w.clear_cache()?;
    w.commit()
}
